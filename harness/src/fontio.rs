//! Abstract-font JSON <-> norad::Font, through norad's PUBLIC API only.
//!
//! Include from a property module with `#[path = "fontio.rs"] mod fontio;`.
//! The JSON format is the one documented at the top of `lib/ufoio.py` (single definition).
//! Summary:
//!   font   = {meta, info, guidelines, groups, kerning, lib, features, layers, data, images}
//!   number = string in Python `float.hex()` notation ("0x1.8000000000000p+1", "-0x0.0p+0", "inf", "nan")
//!   PV (plist value) = {"t": "int"|"real"|"str"|"bool"|"data"|"date"|"array"|"dict"|"uid", "v": ...}
//!   lib    = {key: PV}            (always a dictionary; object libs: null | {key: PV})
//!   colour = [r, g, b, a] numbers
//!
//! Font info is dumped BY RUST FIELD (every public field of `FontInfo` and of its sub-structures is
//! read by name and stored under its UFO 3 key) and cross-checked against the struct-level
//! serialiser (`plist::to_value`); a disagreement (a new field, a rename tied to the wrong key)
//! shows up as the entry "__serde_mismatch__".  `build_font` goes through the deserialiser
//! (`plist::from_value`), so `dump(build(x)) = x` also ties Rust field names to keys.
//!
//! `dump_font` never fails: a part that cannot be dumped is replaced by {"__error__": "..."}.
//! `build_font` returns Err(text) when the abstract font cannot be expressed through the API
//! (invalid name, colour out of range, identifier rejected, store rejects the entry, ...).
#![allow(dead_code)]
use norad::{
    AffineTransform, Anchor, Codepoints, Color, Component, Contour, ContourPoint, Font, FontInfo,
    FormatVersion, Glyph, Guideline, Identifier, Image, Line, Name, Plist, PointType,
};
use serde_json::{json, Map, Value as J};
use std::path::PathBuf;

// ------------------------------------------------------------------------------------------
// numbers: Python float.hex() notation

pub fn f64_to_hex(x: f64) -> String {
    if x.is_nan() {
        return "nan".into();
    }
    if x.is_infinite() {
        return if x < 0.0 { "-inf".into() } else { "inf".into() };
    }
    let bits = x.to_bits();
    let sign = if bits >> 63 == 1 { "-" } else { "" };
    let exp = ((bits >> 52) & 0x7ff) as i64;
    let frac = bits & ((1u64 << 52) - 1);
    if exp == 0 && frac == 0 {
        return format!("{}0x0.0p+0", sign);
    }
    if exp == 0 {
        return format!("{}0x0.{:013x}p-1022", sign, frac);
    }
    let e = exp - 1023;
    format!("{}0x1.{:013x}p{}{}", sign, frac, if e < 0 { "-" } else { "+" }, e.abs())
}

pub fn hex_to_f64(s: &str) -> Result<f64, String> {
    let bad = || format!("bad hex float {:?}", s);
    let (neg, rest) = match s.strip_prefix('-') {
        Some(r) => (true, r),
        None => (false, s.strip_prefix('+').unwrap_or(s)),
    };
    let sign = if neg { 1u64 << 63 } else { 0 };
    match rest {
        "nan" => return Ok(f64::NAN),
        "inf" => return Ok(f64::from_bits(sign | (0x7ffu64 << 52))),
        _ => {}
    }
    let rest = rest.strip_prefix("0x").ok_or_else(bad)?;
    let (mant, exp) = rest.split_once('p').ok_or_else(bad)?;
    let exp: i64 = exp.parse().map_err(|_| bad())?;
    let (lead, frac) = match mant.split_once('.') {
        Some((l, f)) => (l, f),
        None => (mant, ""),
    };
    if frac.len() > 13 || !(lead == "0" || lead == "1") {
        return Err(bad());
    }
    let mut fr = String::from(frac);
    while fr.len() < 13 {
        fr.push('0');
    }
    let frac = u64::from_str_radix(&fr, 16).map_err(|_| bad())?;
    let bits = if lead == "1" {
        let be = exp + 1023;
        if !(1..=2046).contains(&be) {
            return Err(bad());
        }
        sign | ((be as u64) << 52) | frac
    } else {
        if frac != 0 && exp != -1022 {
            return Err(bad());
        }
        sign | frac
    };
    Ok(f64::from_bits(bits))
}

pub fn jnum(x: f64) -> J {
    J::String(f64_to_hex(x))
}

pub fn num(j: &J) -> Result<f64, String> {
    match j {
        J::String(s) => hex_to_f64(s),
        // plain JSON numbers are tolerated on input (hand-written corpus files)
        J::Number(n) => n.as_f64().ok_or_else(|| "bad number".to_string()),
        _ => Err(format!("expected number, got {}", j)),
    }
}

pub fn to_hex(b: &[u8]) -> String {
    let mut s = String::with_capacity(b.len() * 2);
    for x in b {
        s.push_str(&format!("{:02x}", x));
    }
    s
}

pub fn from_hex(s: &str) -> Result<Vec<u8>, String> {
    if s.len() % 2 != 0 || !s.is_ascii() {
        return Err("bad hex bytes".into());
    }
    (0..s.len() / 2)
        .map(|i| u8::from_str_radix(&s[2 * i..2 * i + 2], 16).map_err(|_| "bad hex bytes".to_string()))
        .collect()
}

// ------------------------------------------------------------------------------------------
// plist values

pub fn pv_to_json(v: &plist::Value) -> J {
    match v {
        plist::Value::Integer(i) => {
            if let Some(s) = i.as_signed() {
                json!({"t": "int", "v": s})
            } else if let Some(u) = i.as_unsigned() {
                json!({"t": "int", "v": u})
            } else {
                json!({"t": "int", "v": format!("{:?}", i)})
            }
        }
        plist::Value::Real(f) => json!({"t": "real", "v": f64_to_hex(*f)}),
        plist::Value::String(s) => json!({"t": "str", "v": s}),
        plist::Value::Boolean(b) => json!({"t": "bool", "v": b}),
        plist::Value::Data(d) => json!({"t": "data", "v": to_hex(d)}),
        plist::Value::Date(d) => json!({"t": "date", "v": d.to_xml_format()}),
        plist::Value::Array(a) => json!({"t": "array", "v": a.iter().map(pv_to_json).collect::<Vec<_>>()}),
        plist::Value::Dictionary(d) => json!({"t": "dict", "v": dict_to_json(d)}),
        plist::Value::Uid(u) => json!({"t": "uid", "v": u.get()}),
        _ => json!({"t": "unknown", "v": null}),
    }
}

pub fn dict_to_json(d: &plist::Dictionary) -> J {
    let mut m = Map::new();
    for (k, v) in d.iter() {
        m.insert(k.clone(), pv_to_json(v));
    }
    J::Object(m)
}

pub fn json_to_pv(j: &J) -> Result<plist::Value, String> {
    let t = j.get("t").and_then(|t| t.as_str()).ok_or_else(|| format!("untagged plist value {}", j))?;
    let v = j.get("v").ok_or("plist value without v")?;
    Ok(match t {
        "int" => {
            if let Some(i) = v.as_i64() {
                plist::Value::Integer(i.into())
            } else if let Some(u) = v.as_u64() {
                plist::Value::Integer(u.into())
            } else {
                return Err(format!("bad integer {}", v));
            }
        }
        "real" => plist::Value::Real(num(v)?),
        "str" => plist::Value::String(v.as_str().ok_or("bad str")?.to_string()),
        "bool" => plist::Value::Boolean(v.as_bool().ok_or("bad bool")?),
        "data" => plist::Value::Data(from_hex(v.as_str().ok_or("bad data")?)?),
        "date" => plist::Value::Date(
            plist::Date::from_xml_format(v.as_str().ok_or("bad date")?).map_err(|_| "bad date".to_string())?,
        ),
        "array" => plist::Value::Array(
            v.as_array().ok_or("bad array")?.iter().map(json_to_pv).collect::<Result<Vec<_>, _>>()?,
        ),
        "dict" => plist::Value::Dictionary(json_to_dict(v)?),
        "uid" => plist::Value::Uid(plist::Uid::new(v.as_u64().ok_or("bad uid")?)),
        other => return Err(format!("unknown plist tag {}", other)),
    })
}

/// {key: PV} -> Dictionary, insertion in the (sorted) JSON key order.
pub fn json_to_dict(j: &J) -> Result<plist::Dictionary, String> {
    let mut d = plist::Dictionary::new();
    match j {
        J::Null => {}
        J::Object(m) => {
            for (k, v) in m {
                d.insert(k.clone(), json_to_pv(v)?);
            }
        }
        _ => return Err(format!("expected a dictionary, got {}", j)),
    }
    Ok(d)
}

fn opt_lib_to_json(l: Option<&Plist>) -> J {
    match l {
        None => J::Null,
        Some(d) => dict_to_json(d),
    }
}

// ------------------------------------------------------------------------------------------
// small pieces

fn color_to_json(c: Option<&Color>) -> J {
    match c {
        None => J::Null,
        Some(c) => {
            let (r, g, b, a) = c.channels();
            json!([jnum(r), jnum(g), jnum(b), jnum(a)])
        }
    }
}

fn json_to_color(j: &J) -> Result<Option<Color>, String> {
    match j {
        J::Null => Ok(None),
        J::Array(a) if a.len() == 4 => {
            let c = Color::new(num(&a[0])?, num(&a[1])?, num(&a[2])?, num(&a[3])?)
                .map_err(|e| format!("colour rejected: {}", e))?;
            Ok(Some(c))
        }
        _ => Err(format!("bad colour {}", j)),
    }
}

fn opt_str(j: Option<&J>) -> Result<Option<&str>, String> {
    match j {
        None | Some(J::Null) => Ok(None),
        Some(J::String(s)) => Ok(Some(s.as_str())),
        Some(o) => Err(format!("expected string or null, got {}", o)),
    }
}

fn opt_name(j: Option<&J>) -> Result<Option<Name>, String> {
    match opt_str(j)? {
        None => Ok(None),
        Some(s) => Name::new(s).map(Some).map_err(|_| format!("name rejected: {:?}", s)),
    }
}

fn opt_ident(j: Option<&J>) -> Result<Option<Identifier>, String> {
    match opt_str(j)? {
        None => Ok(None),
        Some(s) => Identifier::new(s).map(Some).map_err(|_| format!("identifier rejected: {:?}", s)),
    }
}

fn transform_to_json(t: &AffineTransform) -> J {
    json!([
        jnum(t.x_scale),
        jnum(t.xy_scale),
        jnum(t.yx_scale),
        jnum(t.y_scale),
        jnum(t.x_offset),
        jnum(t.y_offset)
    ])
}

fn json_to_transform(j: Option<&J>) -> Result<AffineTransform, String> {
    match j {
        None | Some(J::Null) => Ok(AffineTransform::default()),
        Some(J::Array(a)) if a.len() == 6 => Ok(AffineTransform {
            x_scale: num(&a[0])?,
            xy_scale: num(&a[1])?,
            yx_scale: num(&a[2])?,
            y_scale: num(&a[3])?,
            x_offset: num(&a[4])?,
            y_offset: num(&a[5])?,
        }),
        Some(o) => Err(format!("bad transform {}", o)),
    }
}

fn ptype_str(t: &PointType) -> &'static str {
    match t {
        PointType::Move => "move",
        PointType::Line => "line",
        PointType::OffCurve => "offcurve",
        PointType::Curve => "curve",
        PointType::QCurve => "qcurve",
    }
}

fn str_ptype(s: &str) -> Result<PointType, String> {
    Ok(match s {
        "move" => PointType::Move,
        "line" => PointType::Line,
        "offcurve" => PointType::OffCurve,
        "curve" => PointType::Curve,
        "qcurve" => PointType::QCurve,
        o => return Err(format!("unknown point type {}", o)),
    })
}

fn path_to_string(p: &std::path::Path) -> String {
    // components joined by '/', independent of the platform separator
    let parts: Vec<String> = p.components().map(|c| c.as_os_str().to_string_lossy().into_owned()).collect();
    parts.join("/")
}

pub fn guideline_to_json(g: &Guideline) -> J {
    let (x, y, a) = match g.line {
        Line::Vertical(x) => (jnum(x), J::Null, J::Null),
        Line::Horizontal(y) => (J::Null, jnum(y), J::Null),
        Line::Angle { x, y, degrees } => (jnum(x), jnum(y), jnum(degrees)),
    };
    json!({
        "x": x, "y": y, "angle": a,
        "name": g.name.as_ref().map(|n| n.as_str()),
        "color": color_to_json(g.color.as_ref()),
        "identifier": g.identifier().map(|i| i.as_str()),
        "lib": opt_lib_to_json(g.lib()),
    })
}

pub fn json_to_guideline(j: &J) -> Result<Guideline, String> {
    let x = j.get("x").filter(|v| !v.is_null());
    let y = j.get("y").filter(|v| !v.is_null());
    let a = j.get("angle").filter(|v| !v.is_null());
    let line = match (x, y, a) {
        (Some(x), None, None) => Line::Vertical(num(x)?),
        (None, Some(y), None) => Line::Horizontal(num(y)?),
        (Some(x), Some(y), Some(a)) => Line::Angle { x: num(x)?, y: num(y)?, degrees: num(a)? },
        _ => return Err(format!("guideline shape not expressible: {}", j)),
    };
    let mut g = Guideline::new(
        line,
        opt_name(j.get("name"))?,
        json_to_color(j.get("color").unwrap_or(&J::Null))?,
        opt_ident(j.get("identifier"))?,
    );
    if let Some(l) = j.get("lib").filter(|v| !v.is_null()) {
        if g.identifier().is_none() {
            return Err("object lib without identifier".into());
        }
        g.replace_lib(json_to_dict(l)?);
    }
    Ok(g)
}

// ------------------------------------------------------------------------------------------
// glyph

pub fn glyph_to_json(g: &Glyph, file: Option<&std::path::Path>) -> J {
    let contours: Vec<J> = g
        .contours
        .iter()
        .map(|c| {
            let pts: Vec<J> = c
                .points
                .iter()
                .map(|p| {
                    json!({
                        "x": jnum(p.x), "y": jnum(p.y), "type": ptype_str(&p.typ), "smooth": p.smooth,
                        "name": p.name.as_ref().map(|n| n.as_str()),
                        "identifier": p.identifier().map(|i| i.as_str()),
                        "lib": opt_lib_to_json(p.lib()),
                    })
                })
                .collect();
            json!({
                "identifier": c.identifier().map(|i| i.as_str()),
                "lib": opt_lib_to_json(c.lib()),
                "points": pts,
            })
        })
        .collect();
    let components: Vec<J> = g
        .components
        .iter()
        .map(|c| {
            json!({
                "base": c.base.as_str(),
                "transform": transform_to_json(&c.transform),
                "identifier": c.identifier().map(|i| i.as_str()),
                "lib": opt_lib_to_json(c.lib()),
            })
        })
        .collect();
    let anchors: Vec<J> = g
        .anchors
        .iter()
        .map(|a| {
            json!({
                "x": jnum(a.x), "y": jnum(a.y),
                "name": a.name.as_ref().map(|n| n.as_str()),
                "color": color_to_json(a.color.as_ref()),
                "identifier": a.identifier().map(|i| i.as_str()),
                "lib": opt_lib_to_json(a.lib()),
            })
        })
        .collect();
    let image = match &g.image {
        None => J::Null,
        Some(i) => json!({
            "fileName": i.file_name().to_string_lossy(),
            "transform": transform_to_json(&i.transform),
            "color": color_to_json(i.color.as_ref()),
        }),
    };
    json!({
        "name": g.name().as_str(),
        "file": file.map(path_to_string),
        "advance": [jnum(g.width), jnum(g.height)],
        "unicodes": g.codepoints.iter().map(|c| c as u32).collect::<Vec<u32>>(),
        "note": g.note,
        "image": image,
        "guidelines": g.guidelines.iter().map(guideline_to_json).collect::<Vec<_>>(),
        "anchors": anchors,
        "contours": contours,
        "components": components,
        "lib": dict_to_json(&g.lib),
    })
}

pub fn json_to_glyph(j: &J) -> Result<Glyph, String> {
    let name = j.get("name").and_then(|n| n.as_str()).ok_or("glyph without name")?;
    Name::new(name).map_err(|_| format!("glyph name rejected: {:?}", name))?;
    let mut g = Glyph::new(name);
    if let Some(J::Array(a)) = j.get("advance") {
        if a.len() != 2 {
            return Err("bad advance".into());
        }
        g.width = num(&a[0])?;
        g.height = num(&a[1])?;
    }
    if let Some(J::Array(u)) = j.get("unicodes") {
        let mut cs = Vec::new();
        for c in u {
            let n = c.as_u64().ok_or("bad code point")? as u32;
            cs.push(char::from_u32(n).ok_or_else(|| format!("code point U+{:X} is not a char", n))?);
        }
        g.codepoints = Codepoints::new(cs);
    }
    g.note = opt_str(j.get("note"))?.map(|s| s.to_string());
    if let Some(i) = j.get("image").filter(|v| !v.is_null()) {
        let file = i.get("fileName").and_then(|f| f.as_str()).ok_or("image without fileName")?;
        g.image = Some(
            Image::new(
                PathBuf::from(file),
                json_to_color(i.get("color").unwrap_or(&J::Null))?,
                json_to_transform(i.get("transform"))?,
            )
            .map_err(|e| format!("image rejected: {}", e))?,
        );
    }
    if let Some(J::Array(gs)) = j.get("guidelines") {
        for x in gs {
            g.guidelines.push(json_to_guideline(x)?);
        }
    }
    if let Some(J::Array(xs)) = j.get("anchors") {
        for a in xs {
            let mut an = Anchor::new(
                num(a.get("x").ok_or("anchor without x")?)?,
                num(a.get("y").ok_or("anchor without y")?)?,
                opt_name(a.get("name"))?,
                json_to_color(a.get("color").unwrap_or(&J::Null))?,
                opt_ident(a.get("identifier"))?,
            );
            if let Some(l) = a.get("lib").filter(|v| !v.is_null()) {
                if an.identifier().is_none() {
                    return Err("object lib without identifier".into());
                }
                an.replace_lib(json_to_dict(l)?);
            }
            g.anchors.push(an);
        }
    }
    if let Some(J::Array(cs)) = j.get("contours") {
        for c in cs {
            let mut pts = Vec::new();
            for p in c.get("points").and_then(|p| p.as_array()).ok_or("contour without points")? {
                let mut pt = ContourPoint::new(
                    num(p.get("x").ok_or("point without x")?)?,
                    num(p.get("y").ok_or("point without y")?)?,
                    str_ptype(p.get("type").and_then(|t| t.as_str()).unwrap_or("offcurve"))?,
                    p.get("smooth").and_then(|s| s.as_bool()).unwrap_or(false),
                    opt_name(p.get("name"))?,
                    opt_ident(p.get("identifier"))?,
                );
                if let Some(l) = p.get("lib").filter(|v| !v.is_null()) {
                    if pt.identifier().is_none() {
                        return Err("object lib without identifier".into());
                    }
                    pt.replace_lib(json_to_dict(l)?);
                }
                pts.push(pt);
            }
            let mut co = Contour::new(pts, opt_ident(c.get("identifier"))?);
            if let Some(l) = c.get("lib").filter(|v| !v.is_null()) {
                if co.identifier().is_none() {
                    return Err("object lib without identifier".into());
                }
                co.replace_lib(json_to_dict(l)?);
            }
            g.contours.push(co);
        }
    }
    if let Some(J::Array(cs)) = j.get("components") {
        for c in cs {
            let base = c.get("base").and_then(|b| b.as_str()).ok_or("component without base")?;
            let mut co = Component::new(
                Name::new(base).map_err(|_| format!("component base rejected: {:?}", base))?,
                json_to_transform(c.get("transform"))?,
                opt_ident(c.get("identifier"))?,
            );
            if let Some(l) = c.get("lib").filter(|v| !v.is_null()) {
                if co.identifier().is_none() {
                    return Err("object lib without identifier".into());
                }
                co.replace_lib(json_to_dict(l)?);
            }
            g.components.push(co);
        }
    }
    g.lib = json_to_dict(j.get("lib").unwrap_or(&J::Null))?;
    Ok(g)
}

// ------------------------------------------------------------------------------------------
// font info

/// (info {key: PV} without "guidelines", guidelines null | [..])
pub fn info_to_json(fi: &FontInfo) -> (J, J) {
    let guidelines = match &fi.guidelines {
        None => J::Null,
        Some(gs) => J::Array(gs.iter().map(guideline_to_json).collect()),
    };
    // (1) by Rust field, (2) by the struct-level serialiser (without the guidelines: their
    // serialiser refuses angles outside 0..=360 and they are dumped structurally above); the dump
    // is (1), any disagreement with (2) is recorded under "__serde_mismatch__"
    let mut errs = Vec::new();
    let mut by_field = info_by_field(fi, &mut errs);
    let mut fi2 = fi.clone();
    fi2.guidelines = None;
    match plist::to_value(&fi2) {
        Ok(plist::Value::Dictionary(d)) => {
            let mut keys: Vec<String> = d.keys().chain(by_field.keys()).cloned().collect();
            keys.sort();
            keys.dedup();
            for k in keys {
                let same = match (d.get(&k), by_field.get(&k)) {
                    (Some(a), Some(b)) => pv_same(a, b),
                    _ => false,
                };
                if !same {
                    errs.push(format!("{}: field-wise {:?} / serialised {:?}", k, by_field.get(&k), d.get(&k)));
                }
            }
        }
        Ok(other) => errs.push(format!("font info serialised to a non-dictionary: {:?}", other)),
        Err(e) => errs.push(format!("font info does not serialise: {}", e)),
    }
    if !errs.is_empty() {
        by_field.insert(
            "__serde_mismatch__".into(),
            plist::Value::Array(errs.into_iter().map(plist::Value::String).collect()),
        );
    }
    let info = dict_to_json(&by_field);
    (info, guidelines)
}

/// Font info by RUST FIELD: every public field of `FontInfo` is read by its Rust name and stored
/// under the key the UFO 3 specification gives it (pairs written out below).  A serde rename that
/// ties a field to the wrong key is therefore visible: in `dump(build(x)) = x` (build goes through
/// the deserialiser) and in `read_ufo(saved) = dump(load(saved))`.  Values of sub-structures are
/// produced by their own serialisers; "integer or float" numbers are exact (`Real`).
fn info_by_field(fi: &FontInfo, errs: &mut Vec<String>) -> plist::Dictionary {
    let mut m = plist::Dictionary::new();
    macro_rules! f {
        ($key:literal, $field:ident) => {
            if let Some(x) = &fi.$field {
                match plist::to_value(x) {
                    Ok(v) => {
                        m.insert($key.into(), v);
                    }
                    Err(e) => errs.push(format!("{}: {}", $key, e)),
                }
            }
        };
    }
    f!("ascender", ascender);
    f!("capHeight", cap_height);
    f!("copyright", copyright);
    f!("descender", descender);
    f!("familyName", family_name);
    f!("italicAngle", italic_angle);
    f!("macintoshFONDFamilyID", macintosh_fond_family_id);
    f!("macintoshFONDName", macintosh_fond_name);
    f!("note", note);
    f!("openTypeGaspRangeRecords", open_type_gasp_range_records);
    f!("openTypeHeadCreated", open_type_head_created);
    f!("openTypeHeadFlags", open_type_head_flags);
    f!("openTypeHeadLowestRecPPEM", open_type_head_lowest_rec_ppem);
    f!("openTypeHheaAscender", open_type_hhea_ascender);
    f!("openTypeHheaCaretOffset", open_type_hhea_caret_offset);
    f!("openTypeHheaCaretSlopeRise", open_type_hhea_caret_slope_rise);
    f!("openTypeHheaCaretSlopeRun", open_type_hhea_caret_slope_run);
    f!("openTypeHheaDescender", open_type_hhea_descender);
    f!("openTypeHheaLineGap", open_type_hhea_line_gap);
    f!("openTypeNameCompatibleFullName", open_type_name_compatible_full_name);
    f!("openTypeNameDescription", open_type_name_description);
    f!("openTypeNameDesigner", open_type_name_designer);
    f!("openTypeNameDesignerURL", open_type_name_designer_url);
    f!("openTypeNameLicense", open_type_name_license);
    f!("openTypeNameLicenseURL", open_type_name_license_url);
    f!("openTypeNameManufacturer", open_type_name_manufacturer);
    f!("openTypeNameManufacturerURL", open_type_name_manufacturer_url);
    f!("openTypeNamePreferredFamilyName", open_type_name_preferred_family_name);
    f!("openTypeNamePreferredSubfamilyName", open_type_name_preferred_subfamily_name);
    f!("openTypeNameRecords", open_type_name_records);
    f!("openTypeNameSampleText", open_type_name_sample_text);
    f!("openTypeNameUniqueID", open_type_name_unique_id);
    f!("openTypeNameVersion", open_type_name_version);
    f!("openTypeNameWWSFamilyName", open_type_name_wws_family_name);
    f!("openTypeNameWWSSubfamilyName", open_type_name_wws_subfamily_name);
    f!("openTypeOS2CodePageRanges", open_type_os2_code_page_ranges);
    f!("openTypeOS2FamilyClass", open_type_os2_family_class);
    f!("openTypeOS2Panose", open_type_os2_panose);
    f!("openTypeOS2Selection", open_type_os2_selection);
    f!("openTypeOS2StrikeoutPosition", open_type_os2_strikeout_position);
    f!("openTypeOS2StrikeoutSize", open_type_os2_strikeout_size);
    f!("openTypeOS2SubscriptXOffset", open_type_os2_subscript_x_offset);
    f!("openTypeOS2SubscriptXSize", open_type_os2_subscript_x_size);
    f!("openTypeOS2SubscriptYOffset", open_type_os2_subscript_y_offset);
    f!("openTypeOS2SubscriptYSize", open_type_os2_subscript_y_size);
    f!("openTypeOS2SuperscriptXOffset", open_type_os2_superscript_x_offset);
    f!("openTypeOS2SuperscriptXSize", open_type_os2_superscript_x_size);
    f!("openTypeOS2SuperscriptYOffset", open_type_os2_superscript_y_offset);
    f!("openTypeOS2SuperscriptYSize", open_type_os2_superscript_y_size);
    f!("openTypeOS2Type", open_type_os2_type);
    f!("openTypeOS2TypoAscender", open_type_os2_typo_ascender);
    f!("openTypeOS2TypoDescender", open_type_os2_typo_descender);
    f!("openTypeOS2TypoLineGap", open_type_os2_typo_line_gap);
    f!("openTypeOS2UnicodeRanges", open_type_os2_unicode_ranges);
    f!("openTypeOS2VendorID", open_type_os2_vendor_id);
    f!("openTypeOS2WeightClass", open_type_os2_weight_class);
    f!("openTypeOS2WidthClass", open_type_os2_width_class);
    f!("openTypeOS2WinAscent", open_type_os2_win_ascent);
    f!("openTypeOS2WinDescent", open_type_os2_win_descent);
    f!("openTypeVheaCaretOffset", open_type_vhea_caret_offset);
    f!("openTypeVheaCaretSlopeRise", open_type_vhea_caret_slope_rise);
    f!("openTypeVheaCaretSlopeRun", open_type_vhea_caret_slope_run);
    f!("openTypeVheaVertTypoAscender", open_type_vhea_vert_typo_ascender);
    f!("openTypeVheaVertTypoDescender", open_type_vhea_vert_typo_descender);
    f!("openTypeVheaVertTypoLineGap", open_type_vhea_vert_typo_line_gap);
    f!("postscriptBlueFuzz", postscript_blue_fuzz);
    f!("postscriptBlueScale", postscript_blue_scale);
    f!("postscriptBlueShift", postscript_blue_shift);
    f!("postscriptBlueValues", postscript_blue_values);
    f!("postscriptDefaultCharacter", postscript_default_character);
    f!("postscriptDefaultWidthX", postscript_default_width_x);
    f!("postscriptFamilyBlues", postscript_family_blues);
    f!("postscriptFamilyOtherBlues", postscript_family_other_blues);
    f!("postscriptFontName", postscript_font_name);
    f!("postscriptForceBold", postscript_force_bold);
    f!("postscriptFullName", postscript_full_name);
    f!("postscriptIsFixedPitch", postscript_is_fixed_pitch);
    f!("postscriptNominalWidthX", postscript_nominal_width_x);
    f!("postscriptOtherBlues", postscript_other_blues);
    f!("postscriptSlantAngle", postscript_slant_angle);
    f!("postscriptStemSnapH", postscript_stem_snap_h);
    f!("postscriptStemSnapV", postscript_stem_snap_v);
    f!("postscriptUnderlinePosition", postscript_underline_position);
    f!("postscriptUnderlineThickness", postscript_underline_thickness);
    f!("postscriptUniqueID", postscript_unique_id);
    f!("postscriptWeightName", postscript_weight_name);
    f!("postscriptWindowsCharacterSet", postscript_windows_character_set);
    f!("styleMapFamilyName", style_map_family_name);
    f!("styleMapStyleName", style_map_style_name);
    f!("styleName", style_name);
    f!("trademark", trademark);
    f!("versionMajor", version_major);
    f!("versionMinor", version_minor);
    f!("woffMajorVersion", woff_major_version);
    f!("woffMetadataCopyright", woff_metadata_copyright);
    f!("woffMetadataCredits", woff_metadata_credits);
    f!("woffMetadataDescription", woff_metadata_description);
    f!("woffMetadataExtensions", woff_metadata_extensions);
    f!("woffMetadataLicense", woff_metadata_license);
    f!("woffMetadataLicensee", woff_metadata_licensee);
    f!("woffMetadataTrademark", woff_metadata_trademark);
    f!("woffMetadataUniqueID", woff_metadata_unique_id);
    f!("woffMetadataVendor", woff_metadata_vendor);
    f!("woffMinorVersion", woff_minor_version);
    f!("xHeight", x_height);
    f!("year", year);
    if let Some(u) = &fi.units_per_em {
        m.insert("unitsPerEm".into(), plist::Value::Real(u.as_f64()));
    }
    // sub-structures, again by Rust field (replacing what their serialisers produced above)
    use norad::fontinfo as nf;
    use plist::Value as V;
    fn st(x: &str) -> V {
        V::String(x.to_string())
    }
    fn int(x: u32) -> V {
        V::Integer((x as i64).into())
    }
    fn put_os(d: &mut plist::Dictionary, k: &str, x: &Option<String>) {
        if let Some(x) = x {
            d.insert(k.into(), st(x));
        }
    }
    fn put_dir(d: &mut plist::Dictionary, x: &Option<nf::WoffAttributeDirection>) {
        match x {
            Some(nf::WoffAttributeDirection::LeftToRight) => {
                d.insert("dir".into(), st("ltr"));
            }
            Some(nf::WoffAttributeDirection::RightToLeft) => {
                d.insert("dir".into(), st("rtl"));
            }
            None => {}
        }
    }
    fn text_records(xs: &[nf::WoffMetadataTextRecord]) -> V {
        V::Array(
            xs.iter()
                .map(|r| {
                    let mut d = plist::Dictionary::new();
                    d.insert("text".into(), st(&r.text));
                    put_os(&mut d, "language", &r.language);
                    put_dir(&mut d, &r.dir);
                    put_os(&mut d, "class", &r.class);
                    V::Dictionary(d)
                })
                .collect(),
        )
    }
    fn name_records(xs: &[nf::WoffMetadataExtensionNameRecord]) -> V {
        V::Array(
            xs.iter()
                .map(|r| {
                    let mut d = plist::Dictionary::new();
                    d.insert("text".into(), st(&r.text));
                    put_os(&mut d, "language", &r.language);
                    put_dir(&mut d, &r.dir);
                    put_os(&mut d, "class", &r.class);
                    V::Dictionary(d)
                })
                .collect(),
        )
    }
    fn value_records(xs: &[nf::WoffMetadataExtensionValueRecord]) -> V {
        V::Array(
            xs.iter()
                .map(|r| {
                    let mut d = plist::Dictionary::new();
                    d.insert("text".into(), st(&r.text));
                    put_os(&mut d, "language", &r.language);
                    put_dir(&mut d, &r.dir);
                    put_os(&mut d, "class", &r.class);
                    V::Dictionary(d)
                })
                .collect(),
        )
    }
    if let Some(g) = &fi.open_type_gasp_range_records {
        let v = g
            .iter()
            .map(|r| {
                let mut d = plist::Dictionary::new();
                d.insert("rangeMaxPPEM".into(), int(r.range_max_ppem));
                d.insert(
                    "rangeGaspBehavior".into(),
                    V::Array(
                        r.range_gasp_behavior
                            .iter()
                            .map(|b| {
                                int(match b {
                                    nf::GaspBehavior::Gridfit => 0,
                                    nf::GaspBehavior::DoGray => 1,
                                    nf::GaspBehavior::SymmetricGridfit => 2,
                                    nf::GaspBehavior::SymmetricSmoothing => 3,
                                })
                            })
                            .collect(),
                    ),
                );
                V::Dictionary(d)
            })
            .collect();
        m.insert("openTypeGaspRangeRecords".into(), V::Array(v));
    }
    if let Some(n) = &fi.open_type_name_records {
        let v = n
            .iter()
            .map(|r| {
                let mut d = plist::Dictionary::new();
                d.insert("nameID".into(), int(r.name_id));
                d.insert("platformID".into(), int(r.platform_id));
                d.insert("encodingID".into(), int(r.encoding_id));
                d.insert("languageID".into(), int(r.language_id));
                d.insert("string".into(), st(&r.string));
                V::Dictionary(d)
            })
            .collect();
        m.insert("openTypeNameRecords".into(), V::Array(v));
    }
    if let Some(c) = &fi.open_type_os2_family_class {
        m.insert("openTypeOS2FamilyClass".into(), V::Array(vec![int(c.class_id as u32), int(c.subclass_id as u32)]));
    }
    if let Some(p) = &fi.open_type_os2_panose {
        m.insert(
            "openTypeOS2Panose".into(),
            V::Array(vec![
                int(p.family_type),
                int(p.serif_style),
                int(p.weight),
                int(p.proportion),
                int(p.contrast),
                int(p.stroke_variation),
                int(p.arm_style),
                int(p.letterform),
                int(p.midline),
                int(p.x_height),
            ]),
        );
    }
    if let Some(w) = &fi.open_type_os2_width_class {
        m.insert("openTypeOS2WidthClass".into(), int(*w as u8 as u32));
    }
    if let Some(w) = &fi.postscript_windows_character_set {
        m.insert("postscriptWindowsCharacterSet".into(), int(*w as u8 as u32));
    }
    if let Some(x) = &fi.style_map_style_name {
        m.insert(
            "styleMapStyleName".into(),
            st(match x {
                nf::StyleMapStyle::Regular => "regular",
                nf::StyleMapStyle::Italic => "italic",
                nf::StyleMapStyle::Bold => "bold",
                nf::StyleMapStyle::BoldItalic => "bold italic",
            }),
        );
    }
    if let Some(x) = &fi.woff_metadata_copyright {
        let mut d = plist::Dictionary::new();
        d.insert("text".into(), text_records(&x.text));
        m.insert("woffMetadataCopyright".into(), V::Dictionary(d));
    }
    if let Some(x) = &fi.woff_metadata_trademark {
        let mut d = plist::Dictionary::new();
        d.insert("text".into(), text_records(&x.text));
        m.insert("woffMetadataTrademark".into(), V::Dictionary(d));
    }
    if let Some(x) = &fi.woff_metadata_credits {
        let v = x
            .credits
            .iter()
            .map(|c| {
                let mut d = plist::Dictionary::new();
                d.insert("name".into(), st(&c.name));
                put_os(&mut d, "url", &c.url);
                put_os(&mut d, "role", &c.role);
                put_dir(&mut d, &c.dir);
                put_os(&mut d, "class", &c.class);
                V::Dictionary(d)
            })
            .collect();
        let mut d = plist::Dictionary::new();
        d.insert("credits".into(), V::Array(v));
        m.insert("woffMetadataCredits".into(), V::Dictionary(d));
    }
    if let Some(x) = &fi.woff_metadata_description {
        let mut d = plist::Dictionary::new();
        put_os(&mut d, "url", &x.url);
        d.insert("text".into(), text_records(&x.text));
        m.insert("woffMetadataDescription".into(), V::Dictionary(d));
    }
    if let Some(x) = &fi.woff_metadata_license {
        let mut d = plist::Dictionary::new();
        put_os(&mut d, "url", &x.url);
        put_os(&mut d, "id", &x.id);
        d.insert("text".into(), text_records(&x.text));
        m.insert("woffMetadataLicense".into(), V::Dictionary(d));
    }
    if let Some(x) = &fi.woff_metadata_licensee {
        let mut d = plist::Dictionary::new();
        d.insert("name".into(), st(&x.name));
        put_dir(&mut d, &x.dir);
        put_os(&mut d, "class", &x.class);
        m.insert("woffMetadataLicensee".into(), V::Dictionary(d));
    }
    if let Some(x) = &fi.woff_metadata_unique_id {
        let mut d = plist::Dictionary::new();
        d.insert("id".into(), st(&x.id));
        m.insert("woffMetadataUniqueID".into(), V::Dictionary(d));
    }
    if let Some(x) = &fi.woff_metadata_vendor {
        let mut d = plist::Dictionary::new();
        d.insert("name".into(), st(&x.name));
        d.insert("url".into(), st(&x.url));
        put_dir(&mut d, &x.dir);
        put_os(&mut d, "class", &x.class);
        m.insert("woffMetadataVendor".into(), V::Dictionary(d));
    }
    if let Some(x) = &fi.woff_metadata_extensions {
        let v = x
            .iter()
            .map(|e| {
                let mut d = plist::Dictionary::new();
                put_os(&mut d, "id", &e.id);
                d.insert("names".into(), name_records(&e.names));
                let items = e
                    .items
                    .iter()
                    .map(|i| {
                        let mut id = plist::Dictionary::new();
                        put_os(&mut id, "id", &i.id);
                        id.insert("names".into(), name_records(&i.names));
                        id.insert("values".into(), value_records(&i.values));
                        V::Dictionary(id)
                    })
                    .collect();
                d.insert("items".into(), V::Array(items));
                V::Dictionary(d)
            })
            .collect();
        m.insert("woffMetadataExtensions".into(), V::Array(v));
    }
    m
}

/// equality of the field-wise dump and the struct-level serialisation, up to the rounding of the
/// integer-or-float serialisers (a value within f64::EPSILON of an integer is written as integer)
fn pv_same(a: &plist::Value, b: &plist::Value) -> bool {
    fn as_num(v: &plist::Value) -> Option<f64> {
        match v {
            plist::Value::Integer(i) => i.as_signed().map(|x| x as f64).or_else(|| i.as_unsigned().map(|x| x as f64)),
            plist::Value::Real(r) => Some(*r),
            _ => None,
        }
    }
    match (a, b) {
        (plist::Value::Array(x), plist::Value::Array(y)) => x.len() == y.len() && x.iter().zip(y).all(|(p, q)| pv_same(p, q)),
        (plist::Value::Dictionary(x), plist::Value::Dictionary(y)) => {
            x.len() == y.len() && x.iter().all(|(k, p)| y.get(k).map(|q| pv_same(p, q)).unwrap_or(false))
        }
        _ => match (as_num(a), as_num(b)) {
            (Some(x), Some(y)) => x == y || (x - y).abs() <= 2.0 * f64::EPSILON * x.abs().max(y.abs()).max(1.0),
            _ => a == b,
        },
    }
}

pub fn json_to_info(info: &J, guidelines: &J) -> Result<FontInfo, String> {
    let d = json_to_dict(info)?;
    let mut fi: FontInfo = plist::from_value(&plist::Value::Dictionary(d))
        .map_err(|e| format!("font info rejected by the deserialiser: {}", e))?;
    match guidelines {
        J::Null => {}
        J::Array(gs) => {
            let mut v = Vec::new();
            for g in gs {
                v.push(json_to_guideline(g)?);
            }
            fi.guidelines = Some(v);
        }
        o => return Err(format!("bad guidelines {}", o)),
    }
    Ok(fi)
}

// ------------------------------------------------------------------------------------------
// font

pub fn dump_font(font: &Font) -> J {
    let meta = json!({
        "creator": font.meta.creator,
        "formatVersion": match font.meta.format_version { FormatVersion::V1 => 1, FormatVersion::V2 => 2, FormatVersion::V3 => 3 },
        "formatVersionMinor": font.meta.format_version_minor,
    });
    let (info, guidelines) = info_to_json(&font.font_info);
    let mut groups = Map::new();
    for (k, v) in &font.groups {
        groups.insert(k.to_string(), J::Array(v.iter().map(|n| J::String(n.to_string())).collect()));
    }
    let mut kerning = Map::new();
    for (k, inner) in &font.kerning {
        let mut m = Map::new();
        for (k2, v) in inner {
            m.insert(k2.to_string(), jnum(*v));
        }
        kerning.insert(k.to_string(), J::Object(m));
    }
    let mut layers = Vec::new();
    for layer in font.layers.iter() {
        let glyphs: Vec<J> = layer.iter().map(|g| glyph_to_json(g, layer.get_path(g.name()))).collect();
        layers.push(json!({
            "name": layer.name().as_str(),
            "dir": path_to_string(layer.path()),
            "color": color_to_json(layer.color.as_ref()),
            "lib": dict_to_json(&layer.lib),
            "glyphs": glyphs,
        }));
    }
    let mut data = Map::new();
    for (p, r) in font.data.iter() {
        data.insert(
            path_to_string(p),
            match r {
                Ok(b) => J::String(to_hex(&b)),
                Err(e) => json!({"__error__": format!("{:?}", e)}),
            },
        );
    }
    let mut images = Map::new();
    for (p, r) in font.images.iter() {
        images.insert(
            path_to_string(p),
            match r {
                Ok(b) => J::String(to_hex(&b)),
                Err(e) => json!({"__error__": format!("{:?}", e)}),
            },
        );
    }
    json!({
        "meta": meta,
        "info": info,
        "guidelines": guidelines,
        "groups": groups,
        "kerning": kerning,
        "lib": dict_to_json(&font.lib),
        "features": if font.features.is_empty() { J::Null } else { J::String(font.features.clone()) },
        "layers": layers,
        "data": data,
        "images": images,
    })
}

pub fn build_font(j: &J) -> Result<Font, String> {
    let mut font = Font::new();
    if let Some(m) = j.get("meta").filter(|m| !m.is_null()) {
        font.meta.creator = opt_str(m.get("creator"))?.map(|s| s.to_string());
        match m.get("formatVersion").and_then(|v| v.as_u64()).unwrap_or(3) {
            1 => font.meta.format_version = FormatVersion::V1,
            2 => font.meta.format_version = FormatVersion::V2,
            3 => font.meta.format_version = FormatVersion::V3,
            o => return Err(format!("format version {}", o)),
        }
        font.meta.format_version_minor = m.get("formatVersionMinor").and_then(|v| v.as_u64()).unwrap_or(0) as u32;
    }
    font.font_info = json_to_info(j.get("info").unwrap_or(&J::Null), j.get("guidelines").unwrap_or(&J::Null))?;
    if let Some(J::Object(gs)) = j.get("groups") {
        for (k, v) in gs {
            let mut members = Vec::new();
            for n in v.as_array().ok_or("group members must be a list")? {
                let s = n.as_str().ok_or("group member must be a string")?;
                members.push(Name::new(s).map_err(|_| format!("group member rejected: {:?}", s))?);
            }
            font.groups.insert(Name::new(k).map_err(|_| format!("group name rejected: {:?}", k))?, members);
        }
    }
    if let Some(J::Object(ks)) = j.get("kerning") {
        for (k, inner) in ks {
            let mut m = std::collections::BTreeMap::new();
            for (k2, v) in inner.as_object().ok_or("kerning entry must be a dictionary")? {
                m.insert(Name::new(k2).map_err(|_| format!("kerning name rejected: {:?}", k2))?, num(v)?);
            }
            font.kerning.insert(Name::new(k).map_err(|_| format!("kerning name rejected: {:?}", k))?, m);
        }
    }
    font.lib = json_to_dict(j.get("lib").unwrap_or(&J::Null))?;
    font.features = opt_str(j.get("features"))?.unwrap_or("").to_string();
    if let Some(J::Array(ls)) = j.get("layers") {
        for (i, l) in ls.iter().enumerate() {
            let name = l.get("name").and_then(|n| n.as_str()).ok_or("layer without name")?;
            let layer = if i == 0 {
                let old = font.layers.default_layer().name().to_string();
                if old != name {
                    font.layers
                        .rename_layer(&old, name, false)
                        .map_err(|e| format!("default layer cannot be named {:?}: {}", name, e))?;
                }
                font.layers.default_layer_mut()
            } else {
                font.layers.new_layer(name).map_err(|e| format!("layer {:?} rejected: {}", name, e))?
            };
            layer.color = json_to_color(l.get("color").unwrap_or(&J::Null))?;
            layer.lib = json_to_dict(l.get("lib").unwrap_or(&J::Null))?;
            if let Some(J::Array(gs)) = l.get("glyphs") {
                for g in gs {
                    layer.insert_glyph(json_to_glyph(g)?);
                }
            }
        }
    }
    if let Some(J::Object(d)) = j.get("data") {
        for (k, v) in d {
            font.data
                .insert(PathBuf::from(k), from_hex(v.as_str().ok_or("data entry must be hex")?)?)
                .map_err(|e| format!("data entry {:?} rejected: {}", k, e))?;
        }
    }
    if let Some(J::Object(d)) = j.get("images") {
        for (k, v) in d {
            font.images
                .insert(PathBuf::from(k), from_hex(v.as_str().ok_or("image entry must be hex")?)?)
                .map_err(|e| format!("image entry {:?} rejected: {}", k, e))?;
        }
    }
    Ok(font)
}
