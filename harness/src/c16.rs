//! C16: data and image stores.
//!
//! Part A: every history of insert/remove/clear over a small key alphabet on an empty store,
//! one digest per history (result of the last operation + the whole store seen through iter()).
//! Part B: "world" cases: a font loaded from a generated UFO whose data/ and images/ trees are
//! then changed between operations; finally Font::save and a snapshot of the written tree.
//! Both parts also evaluate the property's own clauses on what the implementation did.
use crate::util::*;
use norad::datastore::{DataType, Store};
use norad::{AffineTransform, Font};
use serde_json::{json, Value};
use std::collections::BTreeMap;
use std::ffi::OsString;
use std::os::unix::ffi::{OsStrExt, OsStringExt};
use std::path::{Component, Path, PathBuf};

const SIG: [u8; 8] = [137, 80, 78, 71, 13, 10, 26, 10];

fn pb(raw: &[u8]) -> PathBuf {
    PathBuf::from(OsString::from_vec(raw.to_vec()))
}
fn text(p: &Path) -> Vec<u8> {
    p.as_os_str().as_bytes().to_vec()
}

/// StoreError variant -> code (by name, so that the harness builds whatever variants exist)
fn serr_code_dbg(d: &str) -> u64 {
    const NAMES: [(&str, u64); 10] = [
        ("PathNotUnicode", 10),
        ("DirUnderFile", 1),
        ("EmptyPath", 2),
        ("NotPlainFileOrDir", 3),
        ("PathIsAbsolute", 4),
        ("InvalidPathComponent", 5),
        ("NotPlainFile", 6),
        ("Subdir", 7),
        ("InvalidImage", 8),
        ("Io", 9),
    ];
    // longest name first: NotPlainFileOrDir before NotPlainFile
    let mut best: Option<(usize, u64)> = None;
    for (n, c) in NAMES {
        if d.starts_with(n) {
            let rest = &d[n.len()..];
            if rest.is_empty() || rest.starts_with('(') || rest.starts_with(' ') {
                if best.map_or(true, |(l, _)| n.len() > l) {
                    best = Some((n.len(), c));
                }
            }
        }
    }
    best.map_or(90, |(_, c)| c)
}
fn serr_code<E: std::fmt::Debug>(e: &E) -> u64 {
    serr_code_dbg(&format!("{:?}", e))
}

// ---------------------------------------------------------------------------------------------
// the property's clauses on a key set (through keys())
// ---------------------------------------------------------------------------------------------
fn key_set_failures(image: bool, keys: &[PathBuf]) -> Vec<String> {
    let mut f = vec![];
    for k in keys {
        let t = String::from_utf8_lossy(&text(k)).to_string();
        if k.as_os_str().is_empty() {
            f.push("empty key".to_string());
        }
        if k.is_absolute() || k.components().any(|c| matches!(c, Component::RootDir)) {
            f.push(format!("key `{}` is not relative", t));
        }
        if k.components().any(|c| !matches!(c, Component::Normal(_) | Component::RootDir)) {
            f.push(format!("key `{}` has a `.`/`..` component", t));
        }
        if image && k.components().count() != 1 {
            f.push(format!("image key `{}` has a directory part", t));
        }
    }
    for a in keys {
        for b in keys {
            let ca: Vec<_> = a.components().collect();
            let cb: Vec<_> = b.components().collect();
            if ca.len() < cb.len() && cb[..ca.len()] == ca[..] {
                f.push(format!(
                    "key `{}` is a proper path prefix of key `{}`",
                    String::from_utf8_lossy(&text(a)),
                    String::from_utf8_lossy(&text(b))
                ));
            }
        }
    }
    f
}

// ---------------------------------------------------------------------------------------------
// Part A
// ---------------------------------------------------------------------------------------------
const KEY_ALPHA: [&[u8]; 12] =
    [b"a", b"a/b", b"a/b/c", b"b", b"a/", b"./a", b"a//b", b"..", b"../x", b"/a", b"", b"A"];

fn img_content(c: u64, pos: u8) -> Vec<u8> {
    match c {
        0 => {
            let mut v = SIG.to_vec();
            v.push(pos);
            v
        }
        1 => vec![137, 80, 78, 71, 13, 10, 26, 11, pos],
        _ => vec![],
    }
}
fn nops(image: bool) -> u64 {
    if image {
        49
    } else {
        25
    }
}
/// returns the result code of the operation
fn apply_op<T: DataType>(image: bool, st: &mut Store<T>, i: u64, pos: u8) -> u64 {
    let (nk, per) = (12u64, if image { 3 } else { 1 });
    if i < nk * per {
        let key = pb(KEY_ALPHA[(i / per) as usize]);
        let data = if image { img_content(i % per, pos) } else { vec![pos] };
        match st.insert(key, data) {
            Ok(()) => 0,
            Err(e) => serr_code(&e),
        }
    } else if i < nk * per + nk {
        st.remove(&pb(KEY_ALPHA[(i - nk * per) as usize]));
        0
    } else {
        st.clear();
        0
    }
}
type Snap = Vec<(Vec<u8>, Result<Vec<u8>, u64>)>;
fn snapshot<T: DataType>(st: &Store<T>) -> Snap {
    let mut v: Snap = st
        .iter()
        .map(|(k, r)| (text(k), r.map(|b| b.to_vec()).map_err(|e| serr_code(&e))))
        .collect();
    v.sort();
    v
}
fn state_code(image: bool, snap: &Snap) -> u64 {
    let canon: &[&[u8]] = if image { &[b"a", b"b", b"A"] } else { &[b"a", b"a/b", b"a/b/c", b"b", b"A"] };
    let mut acc = 0u64;
    for (k, r) in snap {
        let idx = canon.iter().position(|c| *c == &k[..]);
        let cid = match r {
            Ok(b) if !image && b.len() == 1 && b[0] < 5 => Some(b[0] as u64 + 1),
            Ok(b) if image && b.len() == 9 && b[..8] == SIG && b[8] < 5 => Some(b[8] as u64 + 1),
            _ => None,
        };
        match (idx, cid) {
            (Some(i), Some(v)) => acc += v * 6u64.pow(i as u32),
            _ => acc += 100000,
        }
    }
    acc
}
fn enc3(d: u64, out: &mut String) {
    out.push((48 + ((d / 4096) % 64) as u8) as char);
    out.push((48 + ((d / 64) % 64) as u8) as char);
    out.push((48 + (d % 64) as u8) as char);
}

struct Exh<'a> {
    image: bool,
    depth: usize,
    plen: usize,
    lines: String,
    cur: String,
    hist: Vec<u64>,
    count: u64,
    accepted: u64,
    rcodes: BTreeMap<u64, u64>,
    failures: &'a mut Vec<Value>,
}
impl<'a> Exh<'a> {
    fn fail(&mut self, what: String) {
        let v = json!({"part": "exhaustive", "kind": self.image as u64,
            "ops": self.hist.clone(), "history": describe_hist(self.image, &self.hist), "what": what});
        push_failure(self.failures, v);
    }
    fn oracle<T: DataType>(&mut self, st: &Store<T>, before: Option<&Snap>, r: u64, after: &Snap) {
        let keys: Vec<PathBuf> = st.keys().cloned().collect();
        for f in key_set_failures(self.image, &keys) {
            self.fail(f);
        }
        if keys.len() != st.len() || st.is_empty() != keys.is_empty() || keys.len() != after.len() {
            self.fail("len()/is_empty()/keys()/iter() disagree".into());
        }
        for (k, c) in after {
            match c {
                Ok(b) => {
                    if self.image && !b.starts_with(&SIG) {
                        self.fail(format!("image `{}` does not start with the PNG signature", String::from_utf8_lossy(k)));
                    }
                }
                Err(_) => self.fail("an inserted entry reads back as an error".into()),
            }
        }
        if let Some(b) = before {
            if r != 0 && b != after {
                self.fail("a rejected insertion changed the store".into());
            }
        }
    }
    fn node<T: DataType + Clone>(&mut self, st: &Store<T>, r: u64, before: Option<&Snap>) {
        let snap = snapshot(st);
        self.oracle(st, before, r, &snap);
        let d = r * 8000 + state_code(self.image, &snap);
        self.count += 1;
        *self.rcodes.entry(r).or_insert(0) += 1;
        if r == 0 && !self.hist.is_empty() {
            self.accepted += 1;
        }
        let depth_here = self.hist.len();
        if depth_here < self.plen {
            let pre: Vec<String> = self.hist.iter().map(|x| x.to_string()).collect();
            let mut s = String::new();
            enc3(d, &mut s);
            self.lines.push_str(&format!("{} 0 {}\n", pre.join(","), s));
        } else if depth_here == self.plen {
            self.cur.clear();
            enc3(d, &mut self.cur);
        } else {
            let mut s = String::new();
            enc3(d, &mut s);
            self.cur.push_str(&s);
        }
        if depth_here < self.depth {
            for i in 0..nops(self.image) {
                let mut st2 = st.clone();
                let r2 = apply_op(self.image, &mut st2, i, depth_here as u8);
                self.hist.push(i);
                self.node(&st2, r2, Some(&snap));
                self.hist.pop();
            }
        }
        if depth_here == self.plen {
            let pre: Vec<String> = self.hist.iter().map(|x| x.to_string()).collect();
            let line = format!("{} {} {}\n", pre.join(","), self.depth - self.plen, self.cur);
            self.lines.push_str(&line);
        }
    }
}
fn case_size(v: &Value) -> usize {
    v["ops"].as_array().map_or(0, |a| a.len())
}
/// keep at most 40 failing inputs, preferring short ones
fn push_failure(fs: &mut Vec<Value>, v: Value) {
    if fs.len() < 40 {
        fs.push(v);
        return;
    }
    let (mut worst, mut wl) = (0, 0);
    for (i, f) in fs.iter().enumerate() {
        if case_size(f) >= wl {
            worst = i;
            wl = case_size(f);
        }
    }
    if case_size(&v) < wl {
        fs[worst] = v;
    }
}
fn describe_op(image: bool, i: u64) -> String {
    let (nk, per) = (12u64, if image { 3 } else { 1 });
    let k = |j: u64| format!("`{}`", String::from_utf8_lossy(KEY_ALPHA[j as usize]));
    if i < nk * per {
        if image {
            format!("insert {} {}", k(i / per), ["png", "non-png", "empty"][(i % per) as usize])
        } else {
            format!("insert {}", k(i))
        }
    } else if i < nk * per + nk {
        format!("remove {}", k(i - nk * per))
    } else {
        "clear".into()
    }
}
fn describe_hist(image: bool, h: &[u64]) -> Vec<String> {
    h.iter().map(|i| describe_op(image, *i)).collect()
}

fn run_exhaustive<T: DataType + Clone>(image: bool, depth: usize, out: &Path, failures: &mut Vec<Value>) -> Value {
    let plen = depth.saturating_sub(2);
    let mut e = Exh {
        image,
        depth,
        plen,
        lines: String::new(),
        cur: String::new(),
        hist: vec![],
        count: 0,
        accepted: 0,
        rcodes: BTreeMap::new(),
        failures,
    };
    let st: Store<T> = Store::default();
    e.node(&st, 0, None);
    write_file(&out.join(format!("exh_{}.txt", if image { "image" } else { "data" })), &e.lines);
    json!({"depth": depth, "histories": e.count, "accepted_last_op": e.accepted,
           "result_codes": e.rcodes.iter().map(|(k, v)| (k.to_string(), json!(v))).collect::<serde_json::Map<_, _>>()})
}

fn replay_exhaustive<T: DataType + Clone>(image: bool, ops: &[u64]) {
    let mut st: Store<T> = Store::default();
    println!("{} store, empty", if image { "image" } else { "data" });
    for (pos, i) in ops.iter().enumerate() {
        let before = snapshot(&st);
        let r = apply_op(image, &mut st, *i, pos as u8);
        let after = snapshot(&st);
        let keys: Vec<PathBuf> = st.keys().cloned().collect();
        println!(
            "  {:<28} -> code {}  keys {:?}",
            describe_op(image, *i),
            r,
            after.iter().map(|(k, _)| String::from_utf8_lossy(k).to_string()).collect::<Vec<_>>()
        );
        for f in key_set_failures(image, &keys) {
            println!("    PROPERTY FAILS: {}", f);
        }
        if r != 0 && before != after {
            println!("    PROPERTY FAILS: a rejected insertion changed the store");
        }
    }
}

// ---------------------------------------------------------------------------------------------
// Part B: world cases
// ---------------------------------------------------------------------------------------------
#[derive(Clone, Debug, PartialEq)]
enum Dent {
    File(Vec<u8>),
    Other,
    EmptyDir,
}
type Disk = BTreeMap<Vec<Vec<u8>>, Dent>;

fn names_of(s: &str) -> Vec<Vec<u8>> {
    s.split('/').map(|x| x.as_bytes().to_vec()).collect()
}
fn disk_to_json(d: &Option<Disk>) -> Value {
    match d {
        None => Value::Null,
        Some(d) => Value::Array(
            d.iter()
                .map(|(p, e)| {
                    json!([p, match e {
                        Dent::File(b) => json!({"f": b}),
                        Dent::Other => json!("o"),
                        Dent::EmptyDir => json!("e"),
                    }])
                })
                .collect(),
        ),
    }
}
fn bytes_of(v: &Value) -> Vec<u8> {
    v.as_array().map(|a| a.iter().map(|x| x.as_u64().unwrap_or(0) as u8).collect()).unwrap_or_default()
}
fn disk_from_json(v: &Value) -> Option<Disk> {
    let a = v.as_array()?;
    let mut d = Disk::new();
    for e in a {
        let p: Vec<Vec<u8>> = e[0].as_array().map(|x| x.iter().map(bytes_of).collect()).unwrap_or_default();
        let ent = if e[1] == json!("o") {
            Dent::Other
        } else if e[1] == json!("e") {
            Dent::EmptyDir
        } else {
            Dent::File(bytes_of(&e[1]["f"]))
        };
        d.insert(p, ent);
    }
    Some(d)
}
fn join_names(p: &[Vec<u8>]) -> Vec<u8> {
    p.join(&b'/')
}
/// (re)create `dir` with exactly this content
fn materialise(dir: &Path, d: &Option<Disk>) {
    if dir.symlink_metadata().is_ok() {
        std::fs::remove_dir_all(dir).unwrap();
    }
    if let Some(d) = d {
        std::fs::create_dir_all(dir).unwrap();
        for (p, e) in d {
            let full = dir.join(pb(&join_names(p)));
            match e {
                Dent::File(b) => {
                    std::fs::create_dir_all(full.parent().unwrap()).unwrap();
                    std::fs::write(&full, b).unwrap();
                }
                Dent::Other => {
                    std::fs::create_dir_all(full.parent().unwrap()).unwrap();
                    std::os::unix::fs::symlink("no-such-target", &full).unwrap();
                }
                Dent::EmptyDir => std::fs::create_dir_all(&full).unwrap(),
            }
        }
    }
}
/// every file and directory below `root`: relative text -> Some(bytes) | None (directory)
fn snap_tree(root: &Path) -> BTreeMap<Vec<u8>, Option<Vec<u8>>> {
    let mut m = BTreeMap::new();
    fn go(base: &Path, dir: &Path, m: &mut BTreeMap<Vec<u8>, Option<Vec<u8>>>) {
        let rd = match std::fs::read_dir(dir) {
            Ok(r) => r,
            Err(_) => return,
        };
        for e in rd.flatten() {
            let p = e.path();
            let rel = text(p.strip_prefix(base).unwrap());
            let md = match p.symlink_metadata() {
                Ok(m) => m,
                Err(_) => continue,
            };
            if md.file_type().is_symlink() {
                m.insert(rel, Some(b"<symlink>".to_vec()));
            } else if md.is_dir() {
                m.insert(rel, None);
                go(base, &p, m);
            } else {
                m.insert(rel, Some(std::fs::read(&p).unwrap_or_default()));
            }
        }
    }
    go(root, root, &mut m);
    m
}

fn g_names(p: &[Vec<u8>]) -> String {
    g_list(&p.iter().map(|n| g_bytes(n)).collect::<Vec<_>>())
}
fn g_disk(d: &Disk) -> String {
    g_list(
        &d.iter()
            .map(|(p, e)| {
                format!(
                    "({}, {})",
                    g_names(p),
                    match e {
                        Dent::File(b) => format!("DFile {}", g_bytes(b)),
                        Dent::Other => "DOther".to_string(),
                        Dent::EmptyDir => "DEmptyDir".to_string(),
                    }
                )
            })
            .collect::<Vec<_>>(),
    )
}
fn g_odisk(d: &Option<Disk>) -> String {
    match d {
        None => "None".into(),
        Some(d) => format!("(Some {})", g_disk(d)),
    }
}
fn g_kind(k: u64) -> &'static str {
    if k == 0 {
        "KData"
    } else {
        "KImage"
    }
}
fn case_to_gallina(c: &Value) -> String {
    let mut ops = vec![];
    for o in c["ops"].as_array().unwrap() {
        let k = o["k"].as_u64().unwrap_or(0);
        let raw = g_bytes(&bytes_of(&o["raw"]));
        ops.push(match o["t"].as_str().unwrap() {
            "ins" => format!("WInsert {} {} {}", g_kind(k), raw, g_bytes(&bytes_of(&o["data"]))),
            "rem" => format!("WRemove {} {}", g_kind(k), raw),
            "get" => format!("WGet {} {}", g_kind(k), raw),
            "clr" => format!("WClear {}", g_kind(k)),
            "iter" => format!("WIter {}", g_kind(k)),
            "has" => format!("WContains {} {}", g_kind(k), raw),
            "disk" => format!("WDisk {} {}", g_kind(k), g_disk(&disk_from_json(&o["d"]).unwrap_or_default())),
            _ => "WSave".to_string(),
        });
    }
    format!(
        "{{| w_dd := {}; w_di := {}; w_ops := {} |}}",
        g_odisk(&disk_from_json(&c["dd"])),
        g_odisk(&disk_from_json(&c["di"])),
        g_list(&ops)
    )
}

fn tm_bytes(b: &[u8]) -> Tm {
    Tm::L(b.iter().map(|x| Tm::N(*x as u64)).collect())
}
fn tm_keys<T: DataType>(st: &Store<T>) -> Tm {
    let mut ks: Vec<Vec<u8>> = st.keys().map(|k| text(k)).collect();
    ks.sort();
    Tm::L(ks.iter().map(|k| tm_bytes(k)).collect())
}
fn tm_res(r: &Result<Vec<u8>, u64>) -> Tm {
    match r {
        Ok(b) => Tm::L(vec![Tm::N(0), tm_bytes(b)]),
        Err(c) => Tm::L(vec![Tm::N(1), Tm::N(*c)]),
    }
}

/// what the oracle remembers about one store
#[derive(Default)]
struct Shadow {
    /// contents that have been handed out or put in and must stay what they are
    known: Vec<(PathBuf, Result<Vec<u8>, u64>)>,
    /// keys that came from the directory listing and have not been read yet
    pending: Vec<PathBuf>,
}
impl Shadow {
    fn forget(&mut self, k: &Path) {
        self.known.retain(|(p, _)| p.as_path() != k);
        self.pending.retain(|p| p.as_path() != k);
    }
}

struct Exec {
    fails: Vec<String>,
    stats: BTreeMap<&'static str, u64>,
    verbose: bool,
}
impl Exec {
    fn bump(&mut self, k: &'static str) {
        *self.stats.entry(k).or_insert(0) += 1;
    }
    fn fail(&mut self, s: String) {
        if self.verbose {
            println!("    PROPERTY FAILS: {}", s);
        }
        self.fails.push(s);
    }
}

fn disk_file<'a>(d: &'a Option<Disk>, key: &Path) -> Option<&'a Vec<u8>> {
    let d = d.as_ref()?;
    let names: Vec<Vec<u8>> = key.components().map(|c| c.as_os_str().as_bytes().to_vec()).collect();
    match d.get(&names) {
        Some(Dent::File(b)) => Some(b),
        _ => None,
    }
}

/// one observed read of `key` (through get or iter) checked against the lazy clauses
fn check_read(
    x: &mut Exec,
    image: bool,
    sh: &mut Shadow,
    disk: &Option<Disk>,
    key: &Path,
    raw_plain: bool,
    res: &Result<Vec<u8>, u64>,
) {
    let name = String::from_utf8_lossy(&text(key)).to_string();
    if let Ok(b) = res {
        if image && !b.starts_with(&SIG) {
            x.fail(format!("image `{}` was handed out without the PNG signature", name));
        }
    }
    if let Some(pos) = sh.known.iter().position(|(p, _)| p.as_path() == key) {
        let old = sh.known[pos].1.clone();
        match (&old, res) {
            (Ok(a), Ok(b)) if a == b => {}
            (Err(_), Err(_)) => {}
            // an implementation that retries after an error must hand out what is on disk now
            (Err(_), Ok(b)) if disk_file(disk, key) == Some(b) => sh.known[pos].1 = res.clone(),
            _ => x.fail(format!(
                "content of `{}` changed between two reads without an insert ({:?} then {:?})",
                name, old, res
            )),
        }
        return;
    }
    if sh.pending.iter().any(|p| p.as_path() == key) {
        x.bump("lazy_first_reads");
        let on_disk = disk_file(disk, key);
        match (res, on_disk) {
            (Ok(b), Some(d)) if b == d => {}
            (Ok(b), d) => x.fail(format!("lazy content of `{}` is {:?} but the disk holds {:?}", name, b, d)),
            (Err(c), Some(d)) => {
                if raw_plain && (!image || d.starts_with(&SIG)) {
                    x.fail(format!("`{}` is readable and valid on disk but was reported as error {}", name, c));
                }
            }
            (Err(_), None) => {}
        }
        sh.pending.retain(|p| p.as_path() != key);
        sh.known.push((key.to_path_buf(), res.clone()));
    }
}

fn check_known<T: DataType>(x: &mut Exec, st: &Store<T>, sh: &Shadow, except: Option<&Path>, why: &str) {
    for (k, old) in &sh.known {
        if Some(k.as_path()) == except {
            continue;
        }
        let now = st.get(k).map(|r| r.map(|b| b.to_vec()).map_err(|e| serr_code(&e)));
        let same = match (&now, old) {
            (Some(Ok(a)), Ok(b)) => a == b,
            (Some(_), Err(_)) => true, // error entries are judged where they are read (check_read)
            _ => false,
        };
        if !same {
            x.fail(format!("{}: entry `{}` was {:?}, is now {:?}", why, String::from_utf8_lossy(&text(k)), old, now));
        }
    }
}

fn store_op<T: DataType>(
    x: &mut Exec,
    image: bool,
    st: &mut Store<T>,
    sh: &mut Shadow,
    disk: &Option<Disk>,
    o: &Value,
) -> Tm {
    let raw = bytes_of(&o["raw"]);
    let t = o["t"].as_str().unwrap_or("");
    let tm = match t {
        "ins" => {
            let data = bytes_of(&o["data"]);
            let keys_before: Vec<Vec<u8>> = {
                let mut v: Vec<_> = st.keys().map(|k| text(k)).collect();
                v.sort();
                v
            };
            let r = st.insert(pb(&raw), data.clone());
            let code = match &r {
                Ok(()) => 0,
                Err(e) => serr_code(e),
            };
            let key = pb(&raw);
            if code == 0 {
                x.bump("insert_ok");
                sh.forget(&key);
                check_known(x, st, sh, None, "an insertion changed another entry");
                let got = st.get(&key).map(|r| r.map(|b| b.to_vec()).map_err(|e| serr_code(&e)));
                if got != Some(Ok(data.clone())) {
                    x.fail(format!("inserted content does not read back: {:?}", got));
                }
                // remember under the stored spelling
                let stored = st.keys().find(|k| k.as_path() == key.as_path()).cloned().unwrap_or(key);
                sh.known.push((stored, Ok(data)));
            } else {
                x.bump("insert_rejected");
                let mut keys_after: Vec<_> = st.keys().map(|k| text(k)).collect();
                keys_after.sort();
                if keys_after != keys_before {
                    x.fail(format!("a rejected insertion (code {}) changed the key set", code));
                }
                check_known(x, st, sh, None, "a rejected insertion changed the store");
            }
            Tm::L(vec![Tm::N(code), tm_keys(st)])
        }
        "rem" => {
            let key = pb(&raw);
            st.remove(&key);
            sh.forget(&key);
            check_known(x, st, sh, None, "a removal changed another entry");
            Tm::L(vec![tm_keys(st)])
        }
        "clr" => {
            st.clear();
            sh.known.clear();
            sh.pending.clear();
            Tm::L(vec![tm_keys(st)])
        }
        "get" => {
            let key = pb(&raw);
            let got = st.get(&key).map(|r| r.map(|b| b.to_vec()).map_err(|e| serr_code(&e)));
            if let Some(res) = &got {
                let stored = st.keys().find(|k| k.as_path() == key.as_path()).cloned();
                match stored {
                    Some(stored) => {
                        let plain = text(&stored) == raw;
                        check_read(x, image, sh, disk, &stored, plain, res);
                    }
                    None => x.fail("get returned a value for a key that keys() does not list".into()),
                }
            }
            Tm::L(vec![Tm::opt(got.as_ref().map(tm_res)), tm_keys(st)])
        }
        "iter" => {
            let mut v: Vec<(PathBuf, Result<Vec<u8>, u64>)> =
                st.iter().map(|(k, r)| (k.clone(), r.map(|b| b.to_vec()).map_err(|e| serr_code(&e)))).collect();
            v.sort_by(|a, b| text(&a.0).cmp(&text(&b.0)));
            for (k, r) in &v {
                check_read(x, image, sh, disk, k, true, r);
            }
            Tm::L(v.iter().map(|(k, r)| Tm::L(vec![tm_bytes(&text(k)), tm_res(r)])).collect())
        }
        "has" => Tm::b(st.contains_key(&pb(&raw))),
        _ => Tm::L(vec![]),
    };
    let keys: Vec<PathBuf> = st.keys().cloned().collect();
    for f in key_set_failures(image, &keys) {
        x.fail(f);
    }
    if keys.len() != st.len() {
        x.fail("len() and keys() disagree".into());
    }
    tm
}

/// run one case in a fresh sandbox; returns the observation dump
fn exec_case(c: &Value, sandbox: &Path, x: &mut Exec) -> Tm {
    let _ = std::fs::remove_dir_all(sandbox);
    std::fs::create_dir_all(sandbox).unwrap();
    let src = sandbox.join("src.ufo");
    Font::new().save(&src).expect("skeleton font saves");
    let mut disks: [Option<Disk>; 2] = [disk_from_json(&c["dd"]), disk_from_json(&c["di"])];
    materialise(&src.join("data"), &disks[0]);
    materialise(&src.join("images"), &disks[1]);
    let font = match catch(|| Font::load(&src)) {
        Err(p) => {
            x.fail(format!("Font::load panicked: {}", p));
            return Tm::L(vec![Tm::N(97)]);
        }
        Ok(Err(e)) => {
            x.bump("load_refused");
            let d = format!("{:?}", e);
            let which = if d.starts_with("DataStore") {
                1
            } else if d.starts_with("ImagesStore") {
                2
            } else {
                98
            };
            // inner variant: the text after "source: "
            let code = d.find("source: ").map(|i| serr_code_dbg(&d[i + 8..])).unwrap_or(90);
            if x.verbose {
                println!("  Font::load -> {}", d);
            }
            return Tm::L(vec![Tm::L(vec![Tm::N(which), Tm::N(code)])]);
        }
        Ok(Ok(f)) => f,
    };
    let mut font = font;
    let mut sh: [Shadow; 2] = [Shadow::default(), Shadow::default()];
    sh[0].pending = font.data.keys().cloned().collect();
    sh[1].pending = font.images.keys().cloned().collect();
    // the listing itself: every file of the tree is a key, nothing else
    for (i, d) in disks.iter().enumerate() {
        let mut want: Vec<Vec<u8>> = d
            .iter()
            .flatten()
            .filter(|(_, e)| matches!(e, Dent::File(_)))
            .map(|(p, _)| join_names(p))
            .collect();
        want.sort();
        let mut have: Vec<Vec<u8>> =
            if i == 0 { font.data.keys().map(|k| text(k)).collect() } else { font.images.keys().map(|k| text(k)).collect() };
        have.sort();
        if want != have {
            let show = |v: &Vec<Vec<u8>>| v.iter().map(|k| String::from_utf8_lossy(k).to_string()).collect::<Vec<_>>();
            x.fail(format!(
                "the {} store lists {:?} after Font::load, the files on disk are {:?}",
                if i == 0 { "data" } else { "images" },
                show(&have),
                show(&want)
            ));
        }
    }
    let mut out = vec![Tm::N(0), tm_keys(&font.data), tm_keys(&font.images)];
    if x.verbose {
        println!("  after Font::load: data keys {} images keys {}", out[1].to_string(), out[2].to_string());
    }
    for o in c["ops"].as_array().unwrap() {
        let k = o["k"].as_u64().unwrap_or(0) as usize;
        let t = o["t"].as_str().unwrap_or("");
        let tm = match t {
            "disk" => {
                disks[k] = disk_from_json(&o["d"]);
                materialise(&src.join(if k == 0 { "data" } else { "images" }), &disks[k]);
                Tm::L(vec![])
            }
            "save" => do_save(&font, o, sandbox, &src, x),
            _ => {
                let r = catch(|| {
                    if k == 0 {
                        store_op(x, false, &mut font.data, &mut sh[0], &disks[0], o)
                    } else {
                        store_op(x, true, &mut font.images, &mut sh[1], &disks[1], o)
                    }
                });
                match r {
                    Ok(tm) => tm,
                    Err(p) => {
                        x.fail(format!("operation {} panicked: {}", o, p));
                        Tm::L(vec![Tm::N(97)])
                    }
                }
            }
        };
        if x.verbose {
            println!("  {:<60} -> {}", describe_wop(o), tm.to_string());
        }
        out.push(tm);
    }
    Tm::L(out)
}

fn do_save(font: &Font, o: &Value, sandbox: &Path, src: &Path, x: &mut Exec) -> Tm {
    let inplace = o["inplace"].as_bool().unwrap_or(false);
    let target = if inplace { src.to_path_buf() } else { sandbox.join("out.ufo") };
    std::fs::write(sandbox.join("canary.txt"), b"canary").unwrap();
    if !inplace && o["pre"].as_bool().unwrap_or(true) {
        // something that a save must replace, and must leave alone when it refuses
        std::fs::create_dir_all(target.join("data/old")).unwrap();
        std::fs::write(target.join("data/old/stale.bin"), b"stale").unwrap();
        std::fs::write(target.join("images"), b"was a file").unwrap();
        std::fs::write(target.join("keep.txt"), b"keep").unwrap();
    }
    let before = snap_tree(sandbox);
    let r = catch(|| font.save(&target));
    let after = snap_tree(sandbox);
    let tpre = text(target.strip_prefix(sandbox).unwrap());
    let inside = |k: &Vec<u8>| k.starts_with(&tpre) && (k.len() == tpre.len() || k[tpre.len()] == b'/');
    // nothing outside the target may change, whatever the outcome
    let outside_before: Vec<_> = before.iter().filter(|(k, _)| !inside(k)).collect();
    let outside_after: Vec<_> = after.iter().filter(|(k, _)| !inside(k)).collect();
    if outside_before != outside_after {
        x.fail("save changed something outside its target directory".into());
    }
    let entries = |x: &mut Exec| -> (Vec<(Vec<u8>, Vec<u8>)>, Vec<(Vec<u8>, Vec<u8>)>, bool) {
        let mut bad = false;
        let mut d = vec![];
        for (k, r) in font.data.iter() {
            match r {
                Ok(b) => d.push((text(k), b.to_vec())),
                Err(_) => bad = true,
            }
        }
        let mut i = vec![];
        for (k, r) in font.images.iter() {
            match r {
                Ok(b) => i.push((text(k), b.to_vec())),
                Err(_) => bad = true,
            }
        }
        let _ = x;
        (d, i, bad)
    };
    match r {
        Err(p) => {
            x.fail(format!("Font::save panicked: {}", p));
            Tm::L(vec![Tm::N(3)])
        }
        Ok(Ok(())) => {
            x.bump("save_ok");
            let (d, i, bad) = entries(x);
            if bad {
                x.fail("save succeeded although a store entry is in an error state".into());
            }
            // every entry verbatim under data/ and images/, and nothing else there
            for (dir, ents) in [("data", &d), ("images", &i)] {
                let mut want: BTreeMap<Vec<u8>, Vec<u8>> = BTreeMap::new();
                for (k, b) in ents.iter() {
                    let mut p = tpre.clone();
                    p.push(b'/');
                    p.extend_from_slice(dir.as_bytes());
                    p.push(b'/');
                    p.extend_from_slice(k);
                    want.insert(p, b.clone());
                }
                let mut dpre = tpre.clone();
                dpre.push(b'/');
                dpre.extend_from_slice(dir.as_bytes());
                let have: BTreeMap<Vec<u8>, Vec<u8>> = after
                    .iter()
                    .filter(|(k, v)| v.is_some() && k.starts_with(&dpre) && k.len() > dpre.len() && k[dpre.len()] == b'/')
                    .map(|(k, v)| (k.clone(), v.clone().unwrap()))
                    .collect();
                if want != have {
                    x.fail(format!(
                        "files under {}/ after save {:?} are not the store's entries {:?}",
                        dir,
                        have.keys().map(|k| String::from_utf8_lossy(k).to_string()).collect::<Vec<_>>(),
                        want.keys().map(|k| String::from_utf8_lossy(k).to_string()).collect::<Vec<_>>()
                    ));
                }
            }
            // save then load: every entry is listed again and reads back verbatim
            match catch(|| Font::load(&target)) {
                Ok(Ok(f2)) => {
                    x.bump("save_reloads");
                    let back = |x: &mut Exec, what: &str, ents: &Vec<(Vec<u8>, Vec<u8>)>, have: Vec<(Vec<u8>, Result<Vec<u8>, u64>)>| {
                        let mut want: Vec<(Vec<u8>, Result<Vec<u8>, u64>)> =
                            ents.iter().map(|(k, b)| (k.clone(), Ok(b.clone()))).collect();
                        want.sort();
                        let mut have = have;
                        have.sort();
                        if want != have {
                            x.fail(format!(
                                "after save and load the {} store holds {:?}, saved were {:?}",
                                what,
                                have.iter().map(|(k, _)| String::from_utf8_lossy(k).to_string()).collect::<Vec<_>>(),
                                want.iter().map(|(k, _)| String::from_utf8_lossy(k).to_string()).collect::<Vec<_>>()
                            ));
                        }
                    };
                    back(x, "data", &d, snapshot(&f2.data));
                    back(x, "images", &i, snapshot(&f2.images));
                }
                Ok(Err(e)) => x.fail(format!("the saved font does not load: {}", format!("{:?}", e).chars().take(200).collect::<String>())),
                Err(p) => x.fail(format!("loading the saved font panicked: {}", p)),
            }
            // dump of target/data and target/images
            let mut l = vec![];
            for (k, v) in after.iter().filter(|(k, _)| inside(k) && k.len() > tpre.len()) {
                let rel = &k[tpre.len() + 1..];
                let top = rel.split(|c| *c == b'/').next().unwrap();
                if top == b"data" || top == b"images" {
                    l.push(Tm::L(vec![
                        tm_bytes(rel),
                        match v {
                            Some(b) => Tm::L(vec![tm_bytes(b)]),
                            None => Tm::L(vec![]),
                        },
                    ]));
                }
            }
            Tm::L(vec![Tm::N(0), Tm::L(l)])
        }
        Ok(Err(e)) => {
            let d = format!("{:?}", e);
            if d.starts_with("InvalidStoreEntry") {
                x.bump("save_refused");
                if before != after {
                    x.fail("save refused an invalid store entry but had already changed the disk".into());
                }
                Tm::L(vec![Tm::N(1)])
            } else {
                x.fail(format!("save failed after its validation phase: {}", d.chars().take(200).collect::<String>()));
                Tm::L(vec![Tm::N(2)])
            }
        }
    }
}

fn describe_wop(o: &Value) -> String {
    let k = if o["k"].as_u64().unwrap_or(0) == 0 { "data" } else { "images" };
    let raw = String::from_utf8_lossy(&bytes_of(&o["raw"])).to_string();
    match o["t"].as_str().unwrap_or("") {
        "ins" => format!("{}.insert(`{}`, {:?})", k, raw, bytes_of(&o["data"])),
        "rem" => format!("{}.remove(`{}`)", k, raw),
        "get" => format!("{}.get(`{}`)", k, raw),
        "clr" => format!("{}.clear()", k),
        "iter" => format!("{}.iter()", k),
        "has" => format!("{}.contains_key(`{}`)", k, raw),
        "disk" => format!(
            "<ufo>/{} becomes {:?}",
            k,
            disk_from_json(&o["d"])
                .unwrap_or_default()
                .iter()
                .map(|(p, e)| (String::from_utf8_lossy(&join_names(p)).to_string(), format!("{:?}", e)))
                .collect::<Vec<_>>()
        ),
        _ => format!(
            "font.save({})",
            if o["inplace"].as_bool().unwrap_or(false) {
                "in place"
            } else if o["pre"].as_bool().unwrap_or(true) {
                "over an existing directory with stale content"
            } else {
                "to a path that does not exist yet"
            }
        ),
    }
}

// ------------------------------------------------------------------------------------ generation
const RAW_POOL: [&str; 24] = [
    "a", "a/b", "a/b/c", "b", "a/", "./a", "a//b", "..", "../x", "/a", "", "A", "a/b/", "a/./b", "b/..", ".",
    "a/b/c/d", "ab", "a/c", "c/d", "f.txt", ".hid", "a/.", "b//",
];
const DATA_PATHS: [&str; 12] = ["a", "b", "A", "a/b", "a/b/c", "a/c", "c/d", "ab", "f.txt", ".hid", "b/x y", "c/d/e"];
const IMG_PATHS: [&str; 5] = ["a", "b", "A", "i.png", "f.txt"];

/// file names that tools and operating systems treat specially, norad's own file names, and
/// (appended at start-up) the string literals harvested from norad's sources: a store must list,
/// keep, write and re-list every one of them like any other name
const SPECIAL_NAMES: [&str; 44] = [
    ".DS_Store", ".hidden", ".gitignore", "..data", "._x", "._", "._thumb.png", "._index", ".git", ".a.swp",
    "Thumbs.db", "desktop.ini", "x~", "~", "x.tmp", "x.bak", "x.swp", "#x#", ".#x", " lead", "trail ", " ",
    "Icon\r", "contents.plist", "metainfo.plist", "layercontents.plist", "lib.plist", "fontinfo.plist",
    "groups.plist", "kerning.plist", "features.fea", "layerinfo.plist", "glyphs", "glyphs.background", "data",
    "images", "a.glif", "CON", "nul.txt", "x.", "...", "-", "*", "a\\b",
];
const SPECIAL_DIRS: [&str; 10] =
    ["com.example.tool", ".dotdir", "._dir", ".DS_Store", "a", "c/d", " sp ", "glyphs", "data", "images"];
static HARVESTED: std::sync::OnceLock<Vec<String>> = std::sync::OnceLock::new();

fn special_name(rng: &mut Rng) -> String {
    let h = HARVESTED.get().map(|v| v.as_slice()).unwrap_or(&[]);
    if !h.is_empty() && rng.chance(1, 4) {
        rng.pick(h).clone()
    } else {
        rng.pick(&SPECIAL_NAMES).to_string()
    }
}
/// a relative path of plain names for a file in data/ (any depth) or images/ (flat)
fn pick_path(rng: &mut Rng, image: bool) -> String {
    if rng.chance(35, 100) {
        let n = special_name(rng);
        if image || rng.chance(1, 2) {
            n
        } else if rng.chance(1, 6) {
            format!("{}/{}", special_name(rng), n)
        } else {
            format!("{}/{}", rng.pick(&SPECIAL_DIRS), n)
        }
    } else if image {
        rng.pick(&IMG_PATHS).to_string()
    } else {
        rng.pick(&DATA_PATHS).to_string()
    }
}

fn conflicts(d: &Disk, p: &[Vec<u8>]) -> bool {
    d.keys().any(|q| {
        let n = q.len().min(p.len());
        q[..n] == p[..n]
    })
}
fn rand_bytes(rng: &mut Rng) -> Vec<u8> {
    let n = rng.below(4);
    (0..n).map(|_| *rng.pick(&[0u8, 1, 10, 47, 137, 255])).collect()
}
fn rand_image(rng: &mut Rng) -> Vec<u8> {
    let r = rng.below(100);
    let mut v = SIG.to_vec();
    if r < 70 {
        v.extend(rand_bytes(rng));
        v
    } else if r < 76 {
        v
    } else if r < 82 {
        v.truncate(7);
        v
    } else if r < 88 {
        let i = rng.below(8) as usize;
        v[i] ^= 1 << rng.below(8);
        v.extend(rand_bytes(rng));
        v
    } else if r < 92 {
        vec![137, 80, 78, 71, 0, 0, 0, 0]
    } else if r < 96 {
        vec![]
    } else {
        rand_bytes(rng)
    }
}
fn gen_disk(rng: &mut Rng, image: bool) -> Option<Disk> {
    if rng.chance(if image { 35 } else { 25 }, 100) {
        return None;
    }
    let mut d = Disk::new();
    let n = rng.below(if image { 4 } else { 6 });
    for _ in 0..n {
        let p = names_of(&pick_path(rng, image));
        if !conflicts(&d, &p) {
            let b = if image { rand_image(rng) } else { rand_bytes(rng) };
            d.insert(p, Dent::File(b));
        }
    }
    let r = rng.below(100);
    if image {
        if r < 4 {
            let p = names_of("sub");
            if !conflicts(&d, &p) {
                d.insert(p, Dent::EmptyDir);
            }
        } else if r < 8 {
            let p = names_of("sub/x");
            if !conflicts(&d, &p) {
                d.insert(p, Dent::File(SIG.to_vec()));
            }
        } else if r < 13 {
            let p = names_of("lnk");
            if !conflicts(&d, &p) {
                d.insert(p, Dent::Other);
            }
        }
    } else {
        if r < 7 {
            let p = names_of(*rng.pick(&["lnk", "c/lnk", "a/lnk"]));
            if !conflicts(&d, &p) {
                d.insert(p, Dent::Other);
            }
        } else if r < 18 {
            let p = names_of(*rng.pick(&["e", "c/e", "a/e/e"]));
            if !conflicts(&d, &p) {
                d.insert(p, Dent::EmptyDir);
            }
        }
    }
    Some(d)
}
fn respell(rng: &mut Rng, plain: &str) -> String {
    match rng.below(10) {
        0 => format!("{}/", plain),
        1 => format!("./{}", plain),
        2 => plain.replacen('/', "//", 1),
        3 => format!("{}/.", plain),
        4 => plain.replacen('/', "/./", 1),
        5 => format!("{}/../{}", plain, plain),
        _ => plain.to_string(),
    }
}
fn mutate_disk(rng: &mut Rng, d: &Option<Disk>, image: bool) -> Option<Disk> {
    let mut d = d.clone().unwrap_or_default();
    // no symlinks after the load: reading through one is the operating system's business
    let files: Vec<Vec<Vec<u8>>> = d.iter().filter(|(_, e)| matches!(e, Dent::File(_))).map(|(p, _)| p.clone()).collect();
    match rng.below(8) {
        0 | 1 if !files.is_empty() => {
            let p = rng.pick(&files).clone();
            let b = if image { rand_image(rng) } else { rand_bytes(rng) };
            d.insert(p, Dent::File(b));
        }
        2 | 3 if !files.is_empty() => {
            let p = rng.pick(&files).clone();
            d.remove(&p);
        }
        4 if !files.is_empty() => {
            // a file becomes a directory
            let p = rng.pick(&files).clone();
            d.remove(&p);
            let mut q = p.clone();
            q.push(b"x".to_vec());
            d.insert(q, Dent::File(vec![7]));
        }
        5 => {
            // a directory becomes a file
            if let Some(p) = files.iter().find(|p| p.len() > 1).cloned() {
                let top = p[..1].to_vec();
                let ks: Vec<_> = d.keys().filter(|q| q[..1] == top[..]).cloned().collect();
                for k in ks {
                    d.remove(&k);
                }
                d.insert(top, Dent::File(if image { SIG.to_vec() } else { vec![9] }));
            }
        }
        6 => d.clear(),
        _ => {
            let p = names_of(&pick_path(rng, image));
            if !conflicts(&d, &p) {
                let b = if image { rand_image(rng) } else { rand_bytes(rng) };
                d.insert(p, Dent::File(b));
            }
        }
    }
    d.retain(|_, e| !matches!(e, Dent::Other));
    Some(d)
}
fn gen_case(rng: &mut Rng, long: bool) -> Value {
    let empty_font = rng.chance(1, 5);
    let mut disks: [Option<Disk>; 2] =
        if empty_font { [None, None] } else { [gen_disk(rng, false), gen_disk(rng, true)] };
    let dd = disk_to_json(&disks[0]);
    let di = disk_to_json(&disks[1]);
    let mut cands: [Vec<String>; 2] = [vec![], vec![]];
    for k in 0..2 {
        for (p, e) in disks[k].iter().flatten() {
            if matches!(e, Dent::File(_)) {
                cands[k].push(String::from_utf8_lossy(&join_names(p)).to_string());
            }
        }
    }
    let n = if long { rng.range(12, 30) } else { rng.range(1, 11) };
    let mut ops = vec![];
    for _ in 0..n {
        let k = if rng.chance(6, 10) { 0usize } else { 1 };
        let mut special = false;
        let raw: String = if !cands[k].is_empty() && rng.chance(45, 100) {
            let c = rng.pick(&cands[k]).clone();
            respell(rng, &c)
        } else if rng.chance(1, 4) {
            special = true;
            let p = pick_path(rng, k == 1);
            if rng.chance(1, 5) {
                respell(rng, &p)
            } else {
                p
            }
        } else if k == 1 && rng.chance(1, 2) {
            rng.pick(&["a", "b", "A", "i.png", "a/", "./a", "..", "", "/a", "a/b", "."]).to_string()
        } else {
            rng.pick(&RAW_POOL).to_string()
        };
        let r = rng.below(100);
        let o = if r < 34 {
            let data = if k == 1 { rand_image(rng) } else { rand_bytes(rng) };
            if special {
                cands[k].push(raw.clone());
            } else if !raw.is_empty() && !raw.starts_with('/') && !raw.contains("..") && !raw.starts_with('.') {
                cands[k].push(raw.trim_end_matches('/').replace("//", "/"));
            }
            json!({"t": "ins", "k": k, "raw": raw.as_bytes(), "data": data})
        } else if r < 56 {
            json!({"t": "get", "k": k, "raw": raw.as_bytes()})
        } else if r < 66 {
            json!({"t": "rem", "k": k, "raw": raw.as_bytes()})
        } else if r < 73 {
            json!({"t": "iter", "k": k})
        } else if r < 76 {
            json!({"t": "clr", "k": k})
        } else if r < 82 {
            json!({"t": "has", "k": k, "raw": raw.as_bytes()})
        } else if !empty_font {
            disks[k] = mutate_disk(rng, &disks[k], k == 1);
            json!({"t": "disk", "k": k, "d": disk_to_json(&disks[k])})
        } else {
            json!({"t": "get", "k": k, "raw": raw.as_bytes()})
        };
        ops.push(o);
    }
    if rng.chance(9, 10) {
        ops.push(json!({"t": "save", "k": 0, "inplace": !empty_font && rng.chance(1, 4), "pre": rng.chance(2, 3)}));
    }
    json!({"dd": dd, "di": di, "ops": ops})
}

/// drop operations one at a time as long as some clause of the property still fails
fn shrink_case(c: &Value, sandbox: &Path, fails: Vec<String>) -> (Value, Vec<String>) {
    let mut best = c.clone();
    let mut what = fails;
    let mut progress = true;
    while progress {
        progress = false;
        let n = best["ops"].as_array().map_or(0, |a| a.len());
        for i in (0..n).rev() {
            let mut cand = best.clone();
            cand["ops"].as_array_mut().unwrap().remove(i);
            let mut x = Exec { fails: vec![], stats: BTreeMap::new(), verbose: false };
            let _ = exec_case(&cand, sandbox, &mut x);
            if !x.fails.is_empty() {
                best = cand;
                what = x.fails;
                progress = true;
            }
        }
    }
    (best, what)
}

/// file names for glyph::Image::new: the key spellings plus well- and ill-formed UTF-8
fn glyph_image_names() -> Vec<Vec<u8>> {
    let mut v: Vec<Vec<u8>> = RAW_POOL.iter().map(|r| r.as_bytes().to_vec()).collect();
    let extra: [&[u8]; 22] = [
        b"\xff", b"a\xff", b"\xc3", b"\xc3\xa9", b"\xc3\xa9.png", b"\xe0\x80\x80", b"\xe0\xa0\x80", b"\xed\xa0\x80",
        b"\xed\x9f\xbf", b"\xf4\x90\x80\x80", b"\xf4\x8f\xbf\xbf", b"\xf0\x9f\x98\x80", b"\xf0\x8f\xbf\xbf", b"a/\xff",
        b"/\xff", b"\xc0\x80", b"\xc1\xbf", b"\xef\xbf\xbf", b"\x80", b"\xf5\x80\x80\x80", b"\xe2\x82", b"\xff/",
    ];
    v.extend(extra.iter().map(|e| e.to_vec()));
    v
}
fn glyph_image_codes(raws: &[Vec<u8>]) -> Vec<u64> {
    raws.iter()
        .map(|r| match norad::Image::new(pb(r), None, AffineTransform::default()) {
            Ok(_) => 0,
            Err(e) => serr_code(&e),
        })
        .collect()
}

/// keys the operating system cannot hold: recorded, not judged (see the evidence)
fn os_level_probe(sandbox: &Path) -> Value {
    let mut res = serde_json::Map::new();
    for (name, key) in [("nul_byte_in_component", b"a\0b".to_vec()), ("component_longer_than_NAME_MAX", vec![b'x'; 300])] {
        let _ = std::fs::remove_dir_all(sandbox);
        std::fs::create_dir_all(sandbox).unwrap();
        let target = sandbox.join("t.ufo");
        Font::new().save(&target).unwrap();
        std::fs::write(target.join("keep.txt"), b"keep").unwrap();
        let mut f = Font::new();
        let ins = f.data.insert(pb(&key), vec![1]);
        let outcome = match ins {
            Err(e) => format!("insert rejected: {:?}", e),
            Ok(()) => match catch(|| f.save(&target)) {
                Err(p) => format!("save panicked: {}", p),
                Ok(Ok(())) => "save ok".to_string(),
                Ok(Err(e)) => format!(
                    "insert accepted; save failed with {} and the old target content {}",
                    format!("{:?}", e).split(|c| c == ' ' || c == '{' || c == '(').next().unwrap_or(""),
                    if target.join("keep.txt").exists() { "is still there" } else { "is gone" }
                ),
            },
        };
        res.insert(name.to_string(), json!(outcome));
    }
    Value::Object(res)
}

pub fn main(a: &Args) {
    let sandbox_root = a.out.join("sandbox");
    if let Some(p) = &a.replay {
        let v: Value = serde_json::from_str(&std::fs::read_to_string(p).expect("replay file")).expect("json");
        if v["part"] == json!("exhaustive") {
            let ops: Vec<u64> = v["ops"].as_array().unwrap().iter().map(|x| x.as_u64().unwrap()).collect();
            if v["kind"].as_u64() == Some(1) {
                replay_exhaustive::<norad::datastore::Image>(true, &ops);
            } else {
                replay_exhaustive::<norad::datastore::Data>(false, &ops);
            }
        } else {
            let mut x = Exec { fails: vec![], stats: BTreeMap::new(), verbose: true };
            println!("<ufo>/data   = {}", v["dd"]);
            println!("<ufo>/images = {}", v["di"]);
            let tm = exec_case(&v, &sandbox_root, &mut x);
            println!("observed: {}", tm.to_string());
            println!("property failures: {}", x.fails.len());
            let _ = std::fs::remove_dir_all(&sandbox_root);
        }
        return;
    }
    // string literals of norad's sources that can be file names (written by the driver)
    let harvested: Vec<String> = std::fs::read(a.out.join("names.txt"))
        .ok()
        .map(|b| {
            String::from_utf8_lossy(&b)
                .split('\n')
                .filter(|n| !n.is_empty() && *n != "." && *n != ".." && !n.contains('/') && !n.contains('\0') && n.len() <= 60)
                .map(|n| n.to_string())
                .collect()
        })
        .unwrap_or_default();
    let nharvest = harvested.len();
    let _ = HARVESTED.set(harvested);
    let mut failures: Vec<Value> = vec![];
    // Part A
    let (dd, di) = if a.thorough() { (5, 4) } else { (4, 3) };
    let sa = run_exhaustive::<norad::datastore::Data>(false, dd, &a.out, &mut failures);
    let sb = run_exhaustive::<norad::datastore::Image>(true, di, &a.out, &mut failures);
    // Part B
    let ncases = if a.thorough() { 60_000 } else { 6_000 };
    let mut rng = Rng::new(a.seed);
    let mut cases = String::new();
    let mut jl = String::new();
    let mut stats: BTreeMap<&'static str, u64> = BTreeMap::new();
    let mut nops_total = 0u64;
    // corpus first
    let mut inputs: Vec<Value> = vec![];
    for e in &a.extra {
        if let Ok(s) = std::fs::read_to_string(e) {
            if let Ok(v) = serde_json::from_str::<Value>(&s) {
                if v["part"] != json!("exhaustive") {
                    inputs.push(v);
                }
            }
        }
    }
    let ncorpus = inputs.len();
    let mut shrunk = 0;
    for i in 0..ncases {
        inputs.push(gen_case(&mut rng, i % 10 == 0));
    }
    for (i, c) in inputs.iter().enumerate() {
        let mut x = Exec { fails: vec![], stats: BTreeMap::new(), verbose: false };
        let tm = exec_case(c, &sandbox_root, &mut x);
        nops_total += c["ops"].as_array().map_or(0, |o| o.len() as u64);
        for (k, v) in x.stats {
            *stats.entry(k).or_insert(0) += v;
        }
        if !x.fails.is_empty() {
            let (mut v, what) = if shrunk < 6 {
                shrunk += 1;
                shrink_case(c, &sandbox_root, x.fails.clone())
            } else {
                (c.clone(), x.fails.clone())
            };
            v["what"] = json!(what);
            v["index"] = json!(i);
            v["history"] = json!(v["ops"].as_array().unwrap().iter().map(describe_wop).collect::<Vec<_>>());
            push_failure(&mut failures, v);
        }
        cases.push_str(&format!("({}, {})\n", case_to_gallina(c), tm.to_string()));
        jl.push_str(&c.to_string());
        jl.push('\n');
    }
    let _ = std::fs::remove_dir_all(&sandbox_root);
    write_file(&a.out.join("world_cases.txt"), &cases);
    write_file(&a.out.join("world_cases.jsonl"), &jl);
    // glyph::Image::new
    let gnames = glyph_image_names();
    let gi = glyph_image_codes(&gnames);
    write_file(
        &a.out.join("glyph_image.txt"),
        &format!(
            "({}, {})\n",
            g_list(&gnames.iter().map(|r| g_bytes(r)).collect::<Vec<_>>()),
            Tm::L(gi.iter().map(|c| Tm::N(*c)).collect()).to_string()
        ),
    );
    let probe = os_level_probe(&sandbox_root);
    let _ = std::fs::remove_dir_all(&sandbox_root);
    let summary = json!({
        "exhaustive_data": sa, "exhaustive_image": sb,
        "world_cases": inputs.len(), "world_corpus_cases": ncorpus, "world_operations": nops_total,
        "world_stats": stats.iter().map(|(k, v)| (k.to_string(), json!(v))).collect::<serde_json::Map<_, _>>(),
        "special_names": SPECIAL_NAMES.len(), "harvested_names": nharvest,
        "glyph_image_names": gnames.len(),
        "glyph_image_rejected_not_unicode": gi.iter().filter(|c| **c == 10).count(),
        "os_level_probe": probe,
        "failures": failures,
    });
    write_file(&a.out.join("summary.json"), &summary.to_string());
}
