//! C08: refused saves leave the target untouched; saving in place keeps lazily loaded data.
//! Scenarios: (refusal kinds) x (what was at the target before), loaded fonts with store cells in
//! every state, saves over the source directory.  Every case is printed as a Gallina `SCase`
//! (font abstraction, target, sandbox before, observed outcome, sandbox after) for the model,
//! together with the verdict of the property oracle.
#[path = "save_common.rs"]
pub mod common;
use crate::util::*;
use common::*;
use norad::{Font, FormatVersion, Glyph};
use std::collections::BTreeSet;
use std::fmt::Write as _;
use std::path::{Path, PathBuf};

#[derive(Clone, Copy, Debug, PartialEq)]
pub enum Prior {
    Absent,
    EmptyDir,
    OtherUfo,
    LargerUfo,
    PlainFile,
    NestedJunk,
    /// non-empty directory without metainfo.plist, names the font never writes
    JunkNoMeta,
    /// non-empty directory without metainfo.plist holding files named like optional parts
    StaleOptional,
    /// no metainfo.plist; stale files inside what will be the default layer directory and images/
    StaleInLayer,
    /// a directory that contains only a sub-directory
    OnlySubdir,
    /// a complete UFO whose metainfo.plist was deleted
    FormerUfo,
    /// the target is a symbolic link to a directory elsewhere (remove_dir_all unlinks it)
    SymlinkDir,
    /// ... to a directory that holds a UFO
    SymlinkUfo,
    /// the parent directory of the target does not exist (create_dir must fail, nothing created)
    NoParent,
    /// ... two levels are missing
    NoParent2,
    /// the parent of the target is a plain file
    ParentIsFile,
    /// the parent of the target is a dangling symbolic link
    ParentDangling,
}
pub const PRIORS: [Prior; 17] = [
    Prior::Absent,
    Prior::EmptyDir,
    Prior::OtherUfo,
    Prior::LargerUfo,
    Prior::PlainFile,
    Prior::NestedJunk,
    Prior::JunkNoMeta,
    Prior::StaleOptional,
    Prior::StaleInLayer,
    Prior::OnlySubdir,
    Prior::FormerUfo,
    Prior::SymlinkDir,
    Prior::SymlinkUfo,
    Prior::NoParent,
    Prior::NoParent2,
    Prior::ParentIsFile,
    Prior::ParentDangling,
];
impl Prior {
    /// where the save goes for this prior (relative to the sandbox)
    pub fn target(self) -> &'static str {
        match self {
            Prior::NoParent => "nozone/t.ufo",
            Prior::NoParent2 => "exports/v2/t.ufo",
            Prior::ParentIsFile => "afile/t.ufo",
            Prior::ParentDangling => "dangling/t.ufo",
            _ => "zone/t.ufo",
        }
    }
    /// the save cannot succeed because of what is at (or above) the target, whatever the font
    pub fn blocks_save(self) -> bool {
        matches!(self, Prior::PlainFile | Prior::NoParent | Prior::NoParent2 | Prior::ParentIsFile | Prior::ParentDangling)
    }
}
pub fn prior_for(idx: u64) -> Prior {
    PRIORS[(idx % PRIORS.len() as u64) as usize]
}

pub fn make_prior(target: &Path, p: Prior, r: &mut Rng) {
    match p {
        Prior::Absent | Prior::NoParent | Prior::NoParent2 => {}
        Prior::ParentIsFile => std::fs::write(target.parent().unwrap(), b"a file where a directory should be").unwrap(),
        Prior::ParentDangling => std::os::unix::fs::symlink("nowhere", target.parent().unwrap()).unwrap(),
        Prior::EmptyDir => std::fs::create_dir_all(target).unwrap(),
        Prior::OtherUfo => {
            let mut rc = Recipe::plain();
            rc.info = true;
            rc.kerning = 1;
            rc.layers[0].glyphs.push(GlyphR { name: "old".into(), objlibs: false, uid: false, width: 5 });
            build_font(&rc).0.save(target).unwrap();
        }
        Prior::LargerUfo => {
            let mut rc = Recipe::random_valid(r);
            rc.info = true;
            rc.lib = true;
            rc.groups = 1;
            rc.kerning = 1;
            rc.features = 1;
            rc.layers.push(LayerR {
                name: "prior layer".into(),
                color: true,
                lib: true,
                glyphs: vec![GlyphR { name: "p".into(), objlibs: false, uid: false, width: 1 }],
            });
            rc.data = vec![("old/keep.bin".into(), b"precious".to_vec()), ("zz.txt".into(), b"zz".to_vec())];
            rc.images = vec![("old.png".into(), PNG.to_vec())];
            build_font(&rc).0.save(target).unwrap();
        }
        Prior::PlainFile => std::fs::write(target, b"i am a file").unwrap(),
        Prior::JunkNoMeta => {
            std::fs::create_dir_all(target.join("sub/dir")).unwrap();
            std::fs::write(target.join("notes.txt"), b"notes").unwrap();
            std::fs::write(target.join("sub/dir/file"), b"deep").unwrap();
        }
        Prior::StaleOptional => {
            std::fs::create_dir_all(target.join("data/com.example")).unwrap();
            std::fs::create_dir_all(target.join("glyphs.old")).unwrap();
            for f in ["kerning.plist", "groups.plist", "features.fea", "lib.plist", "fontinfo.plist"] {
                std::fs::write(target.join(f), b"stale").unwrap();
            }
            std::fs::write(target.join("data/com.example/old.bin"), b"old").unwrap();
            std::fs::write(target.join("data/x"), b"x").unwrap();
            std::fs::write(target.join("glyphs.old/contents.plist"), b"stale").unwrap();
            std::fs::write(target.join("notes.txt"), b"notes").unwrap();
        }
        Prior::StaleInLayer => {
            std::fs::create_dir_all(target.join("glyphs")).unwrap();
            std::fs::create_dir_all(target.join("images")).unwrap();
            std::fs::write(target.join("glyphs/layerinfo.plist"), b"stale").unwrap();
            std::fs::write(target.join("glyphs/old_.glif"), b"stale").unwrap();
            std::fs::write(target.join("images/y.png"), PNG).unwrap();
        }
        Prior::OnlySubdir => std::fs::create_dir_all(target.join("only/sub")).unwrap(),
        Prior::FormerUfo => {
            let mut rc = Recipe::random_valid(r);
            rc.kerning = 1;
            rc.groups = 1;
            rc.features = 1;
            rc.lib = true;
            rc.info = true;
            rc.data = vec![("com.example/old.bin".into(), b"old".to_vec())];
            build_font(&rc).0.save(target).unwrap();
            std::fs::remove_file(target.join("metainfo.plist")).unwrap();
        }
        Prior::SymlinkDir | Prior::SymlinkUfo => {
            // zone/linked is outside the target; the link must go, the directory must stay
            let dest = target.parent().unwrap().join("linked");
            if p == Prior::SymlinkUfo {
                let mut rc = Recipe::plain();
                rc.kerning = 1;
                build_font(&rc).0.save(&dest).unwrap();
            } else {
                std::fs::create_dir_all(dest.join("keep")).unwrap();
                std::fs::write(dest.join("kerning.plist"), b"not yours").unwrap();
                std::fs::write(dest.join("keep/me.txt"), b"keep").unwrap();
            }
            std::os::unix::fs::symlink("linked", target).unwrap();
        }
        Prior::NestedJunk => {
            std::fs::create_dir_all(target.join("a/b/c")).unwrap();
            std::fs::create_dir_all(target.join("glyphs")).unwrap();
            std::fs::create_dir_all(target.join("data")).unwrap();
            std::fs::write(target.join("a/b/c/deep.txt"), b"deep").unwrap();
            std::fs::write(target.join("metainfo.plist"), b"garbage").unwrap();
            std::fs::write(target.join("glyphs/junk.glif"), b"junk").unwrap();
            std::fs::write(target.join("data/keep.me"), b"keep").unwrap();
            std::fs::write(target.join("precious"), b"x").unwrap();
        }
    }
}

pub struct CaseOut {
    pub gallina: String,
    pub json: String,
    pub oracle_ok: bool,
}

/// everything that happens to one font before it is saved
pub struct Prepared {
    pub font: Font,
    pub shadow: Shadow,
    pub groups_ok: bool,
    pub info_valid: bool,
    pub loaded_from: Option<Vec<String>>,
    /// store entries that came from disk and were neither removed nor overwritten: (image?, key)
    pub preserve: BTreeSet<(bool, String)>,
    pub notes: Vec<String>,
}

fn comps(s: &str) -> Vec<String> {
    split_rel(s)
}

/// write a source UFO into sb/src.ufo, load it, access / modify things
pub fn prepare_loaded(sb: &Path, r: &mut Rng, allow_bad_files: bool) -> Prepared {
    let mut notes = vec![];
    let mut rc = Recipe::random_valid(r);
    if rc.data.is_empty() && rc.images.is_empty() || r.chance(2, 3) {
        rc.data = pick_keys(r, &DATA_KEYS, 5, false);
        rc.images = pick_keys(r, &IMAGE_KEYS, 5, true);
        overlap_names(&mut rc, r);
    }
    let src = sb.join("src.ufo");
    build_font(&rc).0.save(&src).unwrap();
    // files norad did not write itself
    if r.chance(1, 3) {
        std::fs::create_dir_all(src.join("data/raw/deep")).unwrap();
        std::fs::write(src.join("data/raw/deep/x.bin"), b"\x00\x01raw").unwrap();
        std::fs::write(src.join("data/empty"), b"").unwrap();
    }
    if allow_bad_files && r.chance(1, 3) {
        std::fs::create_dir_all(src.join("images")).unwrap();
        let bad = *r.pick(&["notpng.png", "BROKEN.PNG", "Thumbs.db", "thumb2", "x.jpg", ".DS_Store.bad", "Bad Name.Png"]);
        std::fs::write(src.join("images").join(bad), b"GIF89a").unwrap();
        notes.push(format!("source has images/{} without the PNG signature", bad));
    }
    // one or two LARGE store files (the lazy store must keep what it read, whatever the size)
    if r.chance(1, 8) {
        large_entries(&src, r, &mut notes);
    }
    // glif files under names another editor may have left (not the default for the glyph name,
    // with upper-case letters), so that later insertions can aim at a name that is taken
    if r.chance(1, 2) {
        foreign_file_names(&src, r, &mut notes);
    }
    let font = match Font::load(&src) {
        Ok(f) => f,
        Err(e) => {
            // a tree Font::save has just written must load; keep going with a second attempt so
            // that the run reports this instead of dying
            notes.push(format!("SOURCE-RELOAD-FAILED: a source just written by Font::save does not load: {}", format!("{:?}", e).chars().take(200).collect::<String>()));
            let _ = std::fs::remove_dir_all(&src);
            build_font(&rc).0.save(&src).unwrap();
            Font::load(&src).unwrap()
        }
    };
    let mut shadow = Shadow::opened(&font, &comps("src.ufo"));
    // every file of the source's data/ and images/ (as the directory listing shows them, not as
    // the loaded store reports them) has to survive a save in place
    let preserve = files_of_stores(&src);
    for (img, k) in &preserve {
        let tracked = if *img { shadow.images.contains_key(k) } else { shadow.data.contains_key(k) };
        if !tracked {
            notes.push(format!("the loaded font does not track {}/{}", if *img { "images" } else { "data" }, k));
        }
    }
    let mut p = Prepared { font, shadow: Shadow::default(), groups_ok: true, info_valid: true, loaded_from: Some(comps("src.ufo")), preserve, notes };
    // access k of n entries
    let dk: Vec<String> = shadow.data.keys().cloned().collect();
    let ik: Vec<String> = shadow.images.keys().cloned().collect();
    let mode = r.below(4); // 0 none, 1 some, 2 all, 3 some
    for k in &dk {
        if mode == 2 || (mode != 0 && r.chance(1, 2)) {
            touch(&p.font, &mut shadow, false, k);
        }
    }
    for k in &ik {
        if mode == 2 || (mode != 0 && r.chance(1, 2)) {
            touch(&p.font, &mut shadow, true, k);
        }
    }
    p.shadow = shadow;
    p
}

/// data files of exactly 1 MiB, 1 MiB + 1 and 3 MiB, an image of 1 MiB + 1 with the PNG signature
pub fn large_entries(src: &Path, r: &mut Rng, notes: &mut Vec<String>) {
    const MIB: usize = 1 << 20;
    let kinds: [(&str, usize, bool); 4] = [
        ("data/big/one_mib.bin", MIB, false),
        ("data/big/one_mib_plus_one.bin", MIB + 1, false),
        ("data/three_mib.bin", 3 * MIB, false),
        ("images/large.png", MIB + 1, true),
    ];
    let n = 1 + r.below(2);
    for _ in 0..n {
        let (rel, size, png) = *r.pick(&kinds);
        let mut b: Vec<u8> = if png { PNG.to_vec() } else { vec![] };
        let seed = r.below(251) as u8;
        while b.len() < size {
            b.push((b.len() as u8).wrapping_mul(31).wrapping_add(seed));
        }
        let f = src.join(rel);
        std::fs::create_dir_all(f.parent().unwrap()).unwrap();
        std::fs::write(&f, &b).unwrap();
        notes.push(format!("source has {} of {} bytes", rel, size));
    }
}

/// the plain files below `<ufo>/data` (recursively) and directly in `<ufo>/images`: (image?, key)
pub fn files_of_stores(ufo: &Path) -> BTreeSet<(bool, String)> {
    let mut out = BTreeSet::new();
    let snap = snapshot(ufo);
    for (k, v) in &snap {
        if v.is_none() {
            continue;
        }
        if let Some(rest) = k.strip_prefix("data/") {
            out.insert((false, rest.to_string()));
        } else if let Some(rest) = k.strip_prefix("images/") {
            if !rest.contains('/') {
                out.insert((true, rest.to_string()));
            }
        }
    }
    out
}

/// rewrite some contents.plist entries of the saved source to non-default file names
pub fn foreign_file_names(src: &Path, r: &mut Rng, notes: &mut Vec<String>) {
    const NAMES: [&str; 8] = ["A_.glif", "B_.glif", "X_Y_.glif", "A__.glif", "Z_z.glif", "N_ew.glif", "Q_.alt.glif", "E_ACUTE.glif"];
    let rd = match std::fs::read_dir(src) {
        Ok(x) => x,
        Err(_) => return,
    };
    for e in rd.flatten() {
        let dir = e.path();
        let cp = dir.join("contents.plist");
        if !dir.is_dir() || !cp.exists() {
            continue;
        }
        let mut dict = match plist::Value::from_file(&cp).ok().and_then(|v| v.into_dictionary()) {
            Some(d) => d,
            None => continue,
        };
        let mut taken: BTreeSet<String> = dict.values().filter_map(|v| v.as_string()).map(|s| s.to_lowercase()).collect();
        let keys: Vec<String> = dict.keys().cloned().collect();
        for k in keys {
            if !r.chance(1, 2) {
                continue;
            }
            let new = *r.pick(&NAMES);
            if taken.contains(&new.to_lowercase()) {
                continue;
            }
            let old = dict.get(&k).and_then(|v| v.as_string()).unwrap().to_string();
            if std::fs::rename(dir.join(&old), dir.join(new)).is_ok() {
                taken.insert(new.to_lowercase());
                dict.insert(k.clone(), plist::Value::String(new.to_string()));
                notes.push(format!("{}: glyph {:?} kept in {}", dir.file_name().unwrap().to_string_lossy(), k, new));
            }
        }
        plist::Value::Dictionary(dict).to_file_xml(&cp).unwrap();
    }
}

/// glyph names whose default file name may equal the existing file name `file`
pub fn colliding_names(file: &str) -> Vec<String> {
    let stem = file.strip_suffix(".glif").unwrap_or(file);
    // undo "capital letter gets an underscore"
    let mut base = String::new();
    let cs: Vec<char> = stem.chars().collect();
    let mut i = 0;
    while i < cs.len() {
        base.push(cs[i]);
        if cs[i].is_uppercase() && i + 1 < cs.len() && cs[i + 1] == '_' {
            i += 1;
        }
        i += 1;
    }
    let mut v = vec![base.clone(), stem.to_string(), base.to_lowercase(), base.to_uppercase()];
    for ill in ['?', '*', ':', '/', '|'] {
        if base.contains('_') {
            v.push(base.replace('_', &ill.to_string()));
        }
        if stem.contains('_') {
            v.push(stem.replacen('_', &ill.to_string(), 1));
        }
    }
    v.sort();
    v.dedup();
    v
}

/// edits that aim at file names already in use: insert / rename glyphs to names whose default file
/// name equals (or differs only by case from) the file of another glyph of the same layer
pub fn collide_edits(p: &mut Prepared, r: &mut Rng) {
    let layer_names: Vec<String> = p.font.layers.names().map(|n| n.to_string()).collect();
    for ln in layer_names {
        let files: Vec<(String, String)> = {
            let l = p.font.layers.get(&ln).unwrap();
            l.iter().filter_map(|g| l.get_path(g.name()).map(|q| (g.name().to_string(), q.to_string_lossy().to_string()))).collect()
        };
        let mut budget = 3;
        for (owner, file) in &files {
            for cand in colliding_names(file) {
                if budget == 0 || !r.chance(2, 3) {
                    continue;
                }
                if norad::Name::new(&cand).is_err() || cand == *owner {
                    continue;
                }
                let l = p.font.layers.get_mut(&ln).unwrap();
                if l.contains_glyph(&cand) {
                    continue;
                }
                budget -= 1;
                if r.chance(1, 3) && files.len() > 1 {
                    // rename some other glyph to the candidate
                    let other = files.iter().map(|(n, _)| n.clone()).find(|n| n != owner && l.contains_glyph(n));
                    if let Some(o) = other {
                        if l.rename_glyph(&o, &cand, false).is_ok() {
                            p.notes.push(format!("layer {:?}: renamed glyph {:?} to {:?} (file of {:?} is {})", ln, o, cand, owner, file));
                        }
                        continue;
                    }
                }
                let mut g = Glyph::new(&cand);
                g.width = 7.0;
                l.insert_glyph(g);
                p.notes.push(format!("layer {:?}: inserted glyph {:?} (file of {:?} is {})", ln, cand, owner, file));
            }
        }
    }
}

/// random edits of a loaded font ("modify the font")
pub fn modify(p: &mut Prepared, r: &mut Rng) {
    let n = r.below(4);
    for _ in 0..n {
        match r.below(8) {
            0 => {
                let mut g = Glyph::new(*r.pick(&["new", "N", "a", "x.y"]));
                g.width = r.below(900) as f64;
                p.font.default_layer_mut().insert_glyph(g);
            }
            1 => p.font.font_info.style_name = Some("Edited".into()),
            2 => {
                let _ = p.font.layers.new_layer(*r.pick(&["added", "Added Layer", "background"]));
            }
            3 => {
                let names: Vec<String> = p.font.layers.names().skip(1).map(|n| n.to_string()).collect();
                if !names.is_empty() {
                    let n = r.pick(&names).clone();
                    p.font.layers.remove(&n);
                }
            }
            4 => {
                let names: Vec<String> = p.font.default_layer().iter().map(|g| g.name().to_string()).collect();
                if !names.is_empty() {
                    let n = r.pick(&names).clone();
                    p.font.default_layer_mut().remove_glyph(&n);
                }
            }
            5 => {
                // new data entry (may be refused by the store's own rules: then nothing changes)
                // among them keys the store must refuse (`..`, `.`, trailing separator, a key that
                // is an ancestor or a descendant of an existing one)
                let k = *r.pick(&[
                    "new.bin", "d/new.bin", "fresh/n.txt", "a.txt", "i.png", "K.PNG", "thumb", "SCAN.PNG", "../../evil.txt", "./a.txt", "a.txt/", "d", "a.txt/under",
                    "q/r", "/abs.bin", "d//e.bin",
                ]);
                let b = vec![r.below(256) as u8, 7, 7];
                if p.font.data.insert(PathBuf::from(k), b.clone()).is_ok() {
                    // the store keeps the key in its plain form (components re-joined)
                    let plain: PathBuf = PathBuf::from(k).components().collect();
                    let plain = plain.to_string_lossy().to_string();
                    if plain != k {
                        p.notes.push(format!("store accepted the key {:?} as {:?}", k, plain));
                    }
                    p.shadow.data.insert(plain.clone(), CellS::Loaded(b));
                    p.preserve.remove(&(false, plain));
                }
            }
            6 => {
                let ks: Vec<String> = p.shadow.data.keys().cloned().collect();
                if !ks.is_empty() && r.chance(1, 2) {
                    let k = r.pick(&ks).clone();
                    p.font.data.remove(Path::new(&k));
                    p.shadow.data.remove(&k);
                    p.preserve.remove(&(false, k));
                }
            }
            _ => p.font.features = "languagesystem DFLT dflt;\n".into(),
        }
    }
}

/// keys the stores must refuse: `..` / `.` components at every position, deep enough to leave
/// `<target>/data`, the target and its parent; absolute keys; keys nested under the image store
pub const BAD_DATA_KEYS: [&str; 16] = [
    "..", "../x", "../../evil.txt", "a/..", "a/../x", "a/../../x", "a/b/../../../x", "a/./../..//x",
    "sub/../../../notes.txt", "k/../../../../escape.txt", "a/b/..", "a/b/../..", "./../x", "a/../..", "/abs.bin", "",
];
pub const BAD_IMAGE_KEYS: [&str; 9] =
    ["..", "../i.png", "a/../i.png", "a/../../i.png", "i.png/..", "sub/i.png", "sub/../../../i.png", "/abs.png", ""];
/// keys that are fine once put into their plain form
pub const ODD_DATA_KEYS: [&str; 5] = ["x/./y.bin", "x//z.bin", "w/", "./v.bin", "u/."];

/// try every key of the lists on the font's stores (part of EVERY scenario): whatever the store
/// accepts is recorded, so that the save is then judged with it
pub fn try_store_keys(p: &mut Prepared, r: &mut Rng) {
    let record = |p: &mut Prepared, image: bool, k: &str, b: Vec<u8>, expected: bool| {
        let plain: PathBuf = PathBuf::from(k).components().collect();
        let plain = plain.to_string_lossy().to_string();
        if !expected {
            p.notes.push(format!("the {} store accepted the key {:?} (kept as {:?})", if image { "image" } else { "data" }, k, plain));
        }
        if image {
            p.shadow.images.insert(plain.clone(), CellS::Loaded(b));
        } else {
            p.shadow.data.insert(plain.clone(), CellS::Loaded(b));
        }
        p.preserve.remove(&(image, plain));
    };
    for k in BAD_DATA_KEYS {
        let b = vec![b'B', r.below(256) as u8];
        if p.font.data.insert(PathBuf::from(k), b.clone()).is_ok() {
            record(p, false, k, b, false);
        }
    }
    for k in BAD_IMAGE_KEYS {
        let mut b = PNG.to_vec();
        b.push(r.below(256) as u8);
        if p.font.images.insert(PathBuf::from(k), b.clone()).is_ok() {
            record(p, true, k, b, false);
        }
    }
    if r.chance(1, 4) {
        let k = *r.pick(&ODD_DATA_KEYS);
        let b = vec![b'O', r.below(256) as u8];
        if p.font.data.insert(PathBuf::from(k), b.clone()).is_ok() {
            record(p, false, k, b, true);
        }
    }
}

/// after a successful save to `troot`: every entry of the two stores is there with its bytes (what
/// the cell holds, or what the file it will be read from held before the save)
pub fn store_bytes_check(p: &Prepared, before: &Snap, after: &Snap, troot: &str) -> Vec<String> {
    let mut why = vec![];
    for (image, root, cells) in [(false, &p.shadow.data_root, &p.shadow.data), (true, &p.shadow.images_root, &p.shadow.images)] {
        let dir = if image { "images" } else { "data" };
        for (k, c) in cells {
            let want: Option<Vec<u8>> = match c {
                CellS::Loaded(b) => Some(b.clone()),
                CellS::NotLoaded => {
                    let mut q = root.clone();
                    q.push(dir.to_string());
                    q.extend(split_rel(k));
                    before.get(&q.join("/")).cloned().flatten()
                }
                CellS::Error => None,
            };
            if let Some(w) = want {
                let rel = format!("{}/{}/{}", troot, dir, k);
                match after.get(&rel) {
                    Some(Some(b)) if *b == w => {}
                    Some(Some(b)) => why.push(format!("{} holds {} bytes that are not the entry's {} bytes", rel, b.len(), w.len())),
                    _ => why.push(format!("{} is missing after the save", rel)),
                }
            }
        }
    }
    why
}

/// inject the refusal kinds of `mask` (bit 0 version, 1 objectLibs key, 2 groups, 3 font info)
pub fn inject(p: &mut Prepared, mask: u32, r: &mut Rng) {
    if mask & 1 != 0 {
        p.font.meta.format_version = if r.chance(1, 2) { FormatVersion::V1 } else { FormatVersion::V2 };
    }
    if mask & 2 != 0 {
        p.font.lib.insert("public.objectLibs".into(), plist::Value::Dictionary(Default::default()));
    }
    if mask & 4 != 0 {
        apply_groups(&mut p.font, 3);
        p.groups_ok = false;
    }
    if mask & 8 != 0 {
        let k = 1 + r.below(4) as u8;
        apply_bad_info(&mut p.font, k);
        p.info_valid = false;
        p.notes.push(format!("invalid font info kind {}", k));
    }
}

/// the refusal the property predicts, from the recipe side only
pub fn expected_refusal(p: &Prepared, before: &Snap) -> Option<&'static str> {
    if p.font.meta.format_version != FormatVersion::V3 {
        return Some("Downgrade");
    }
    if p.font.lib.contains_key("public.objectLibs") {
        return Some("PreexistingObjLibs");
    }
    if !p.groups_ok {
        return Some("InvalidGroups");
    }
    if !p.info_valid {
        return Some("InvalidFontInfo");
    }
    let bad = |image: bool, root: &[String], key: &str, c: &CellS| -> bool {
        match c {
            CellS::Error => true,
            CellS::Loaded(_) => false,
            CellS::NotLoaded => {
                let mut q = root.to_vec();
                q.push(if image { "images".into() } else { "data".into() });
                q.extend(split_rel(key));
                match before.get(&q.join("/")) {
                    Some(Some(b)) => image && !is_png(b),
                    _ => true,
                }
            }
        }
    };
    for (k, c) in &p.shadow.data {
        if bad(false, &p.shadow.data_root, k, c) {
            return Some("InvalidStoreEntry");
        }
    }
    for (k, c) in &p.shadow.images {
        if bad(true, &p.shadow.images_root, k, c) {
            return Some("InvalidStoreEntry");
        }
    }
    // a file of the source's images/ that the loaded store does not even list (and that was not
    // removed from the font since) is an entry all the same: if it is not a PNG the save must refuse
    if let Some(root) = &p.loaded_from {
        for (img, k) in &p.preserve {
            if *img && !p.shadow.images.contains_key(k) {
                let mut q = root.clone();
                q.push("images".into());
                q.push(k.clone());
                if let Some(Some(b)) = before.get(&q.join("/")) {
                    if !is_png(b) {
                        return Some("InvalidStoreEntry");
                    }
                }
            }
        }
    }
    None
}

pub fn fresh_sandbox(out: &Path, tag: &str, idx: u64) -> PathBuf {
    let sb = out.join(format!("{}_{}", tag, idx));
    let _ = std::fs::remove_dir_all(&sb);
    std::fs::create_dir_all(sb.join("zone")).unwrap();
    std::fs::write(sb.join("bystander.txt"), b"do not touch").unwrap();
    std::fs::write(sb.join("zone/sibling.txt"), b"nor this").unwrap();
    std::fs::create_dir_all(sb.join("zone/t.ufo.bak")).unwrap();
    std::fs::write(sb.join("zone/t.ufo.bak/metainfo.plist"), b"backup").unwrap();
    sb
}

/// reference save of a clone into a separate sandbox with the same shape; returns its snapshot
pub fn reference_save(font: &Font, out: &Path, idx: u64, target_rel: &[String], sb: &Path) -> (Snap, Snap, bool) {
    let rsb = out.join(format!("ref_{}", idx));
    let _ = std::fs::remove_dir_all(&rsb);
    let rt = rsb.join(target_rel.join("/"));
    std::fs::create_dir_all(rt.parent().unwrap()).unwrap();
    let keep = snapshot(sb);
    // in a thread of its own: no history of earlier saves (thread-local state) can leak into it
    let clone = font.clone();
    let rt2 = rt.clone();
    let ok = std::thread::spawn(move || matches!(catch(|| clone.save(&rt2)), Ok(Ok(())))).join().unwrap_or(false);
    let snap = snapshot(&rsb);
    let abs_tree = snapshot(sb);
    if abs_tree != keep {
        restore(sb, &keep);
    }
    let _ = std::fs::remove_dir_all(&rsb);
    (snap, abs_tree, ok)
}

pub struct SaveRun {
    pub reftree: Snap,
    pub ref_ok: bool,
    pub before: Snap,
    pub after: Snap,
    pub obs: (String, String),
    pub gallina: String,
}

/// reference save, snapshot, the real save, snapshot; the Gallina case
pub fn run_save(p: &Prepared, out: &Path, idx: u64, sb: &Path, target_rel: &[String]) -> SaveRun {
    let (reftree, abs_tree, ref_ok) = reference_save(&p.font, out, idx, target_rel, sb);
    let before = snapshot(sb);
    let target = sb.join(target_rel.join("/"));
    let res = catch(|| p.font.save(&target));
    let after = snapshot(sb);
    let obs = obs_of(&res);
    let abs = abstract_font(&AbsInput {
        font: &p.font,
        groups_ok: p.groups_ok,
        info_valid: p.info_valid,
        shadow: &p.shadow,
        reftree: &reftree,
        ref_target: target_rel,
        sandbox: sb,
        abs_tree: &abs_tree,
    });
    let gallina = format!("SCase {} {} {} {} {}", abs, gpath_of(target_rel), gsnap(&before), obs.0, gsnap(&after));
    SaveRun { reftree, ref_ok, before, after, obs, gallina }
}

pub fn case(seed: u64, idx: u64, out: &Path, verbose: bool) -> CaseOut {
    let mut r = Rng::new(seed.wrapping_mul(0x9E37_79B9_7F4A_7C15) ^ idx.wrapping_mul(0xD1B5_4A32_D192_ED03));
    let sb = fresh_sandbox(out, "sb", idx);
    let kind = match r.below(20) {
        0..=8 => 0,   // refusal of a built or loaded font
        9..=11 => 1,  // store entries that fail when forced
        12..=16 => 2, // in place
        _ => 3,       // plain valid save
    };
    let mut p;
    let mut prior = Prior::Absent;
    let mut in_place = false;
    match kind {
        0 => {
            if r.chance(1, 3) {
                p = prepare_loaded(&sb, &mut r, false);
                modify(&mut p, &mut r);
            } else {
                let rc = Recipe::random_valid(&mut r);
                let (font, shadow) = build_font(&rc);
                p = Prepared { font, shadow, groups_ok: true, info_valid: true, loaded_from: None, preserve: BTreeSet::new(), notes: vec![] };
            }
            // mostly a single kind, sometimes several (the first in source order must win)
            let mask = if r.chance(3, 4) { 1 << r.below(4) } else { 1 + r.below(15) as u32 };
            inject(&mut p, mask, &mut r);
            prior = prior_for(idx);
            in_place = p.loaded_from.is_some() && r.chance(1, 4);
        }
        1 => {
            p = prepare_loaded(&sb, &mut r, true);
            modify(&mut p, &mut r);
            // damage the source after loading: entries not read yet can no longer be read
            let src = sb.join("src.ufo");
            let dk: Vec<String> = p.shadow.data.keys().cloned().collect();
            let ik: Vec<String> = p.shadow.images.keys().cloned().collect();
            match r.below(4) {
                0 if !dk.is_empty() => {
                    let k = r.pick(&dk).clone();
                    let _ = std::fs::remove_file(src.join("data").join(&k));
                    p.preserve.remove(&(false, k.clone()));
                    p.notes.push(format!("data/{} deleted after load", k));
                }
                1 if !ik.is_empty() => {
                    let k = r.pick(&ik).clone();
                    let _ = std::fs::write(src.join("images").join(&k), b"not a png any more");
                    p.preserve.remove(&(true, k.clone()));
                    p.notes.push(format!("images/{} overwritten with non-PNG after load", k));
                }
                2 if !dk.is_empty() => {
                    // replaced by a directory
                    let k = r.pick(&dk).clone();
                    let f = src.join("data").join(&k);
                    let _ = std::fs::remove_file(&f);
                    let _ = std::fs::create_dir_all(&f);
                    p.preserve.remove(&(false, k.clone()));
                    p.notes.push(format!("data/{} replaced by a directory after load", k));
                }
                _ => {}
            }
            // and sometimes look at an entry after the damage (cell goes to the error state)
            if r.chance(1, 2) {
                for k in &dk {
                    if r.chance(1, 2) && p.shadow.data.get(k) == Some(&CellS::NotLoaded) {
                        let mut sh = std::mem::take(&mut p.shadow);
                        touch(&p.font, &mut sh, false, k);
                        p.shadow = sh;
                    }
                }
                for k in &ik {
                    if r.chance(1, 2) && p.shadow.images.get(k) == Some(&CellS::NotLoaded) {
                        let mut sh = std::mem::take(&mut p.shadow);
                        touch(&p.font, &mut sh, true, k);
                        p.shadow = sh;
                    }
                }
            }
            in_place = r.chance(1, 2);
            prior = prior_for(idx);
        }
        2 => {
            p = prepare_loaded(&sb, &mut r, false);
            modify(&mut p, &mut r);
            in_place = true;
        }
        _ => {
            if r.chance(1, 2) {
                p = prepare_loaded(&sb, &mut r, false);
                modify(&mut p, &mut r);
            } else {
                let mut rc = Recipe::random_valid(&mut r);
                if r.chance(1, 6) && !rc.layers.is_empty() {
                    // a late failure the property does not cover: glyph lib with public.objectLibs
                    let li = r.below(rc.layers.len() as u64) as usize;
                    rc.layers[li].glyphs.push(GlyphR { name: "late".into(), objlibs: true, uid: false, width: 1 });
                }
                let (font, shadow) = build_font(&rc);
                p = Prepared { font, shadow, groups_ok: true, info_valid: true, loaded_from: None, preserve: BTreeSet::new(), notes: vec![] };
            }
            prior = prior_for(idx);
        }
    }
    try_store_keys(&mut p, &mut r);
    let target_rel: Vec<String> = if in_place {
        comps("src.ufo")
    } else {
        comps(prior.target())
    };
    if !in_place {
        make_prior(&sb.join(target_rel.join("/")), prior, &mut r);
    }
    let run = run_save(&p, out, idx, &sb, &target_rel);
    // ------------------------------------------------------------ property oracle
    let expect = expected_refusal(&p, &run.before);
    let mut why: Vec<String> = p.notes.iter().filter(|n| n.starts_with("SOURCE-RELOAD-FAILED")).cloned().collect();
    if run.obs.1 == "PANIC" {
        why.push(format!("Font::save panicked; the file system changed: {}", snap_diff(&run.before, &run.after).join(", ")));
    }
    if let Some(v) = expect {
        if run.obs.1 != v {
            why.push(format!("expected refusal {} but the save returned {}", v, run.obs.1));
        }
        if run.before != run.after {
            why.push(format!("refused save changed the file system: {}", snap_diff(&run.before, &run.after).join(", ")));
        }
    } else if ["Downgrade", "PreexistingObjLibs", "InvalidGroups", "InvalidFontInfo", "InvalidStoreEntry"].contains(&run.obs.1.as_str())
        && run.before != run.after
    {
        why.push("refusal changed the file system".into());
    }
    if run.obs.1 == "Saved" {
        why.extend(store_bytes_check(&p, &run.before, &run.after, &target_rel.join("/")));
    }
    let mut preserved = 0;
    if in_place && run.obs.1 == "Saved" {
        for (image, k) in &p.preserve {
            let rel = format!("src.ufo/{}/{}", if *image { "images" } else { "data" }, k);
            match (run.before.get(&rel), run.after.get(&rel)) {
                (Some(Some(a)), Some(Some(b))) if a == b => preserved += 1,
                (Some(Some(_)), _) => why.push(format!("in-place save lost or changed {}", rel)),
                _ => {}
            }
        }
    }
    let oracle_ok = why.is_empty();
    let mut json = String::new();
    let _ = write!(
        json,
        "{{\"i\":{},\"kind\":{},\"prior\":{},\"in_place\":{},\"expected_refusal\":{},\"obs\":{},\"oracle_ok\":{},\"why\":{},\"preserved\":{},\"loaded\":{},\"notes\":{},\"changed\":{}}}",
        idx,
        kind,
        json_str(&format!("{:?}", prior)),
        in_place,
        match expect {
            Some(v) => json_str(v),
            None => "null".into(),
        },
        json_str(&run.obs.1),
        oracle_ok,
        serde_json::to_string(&why).unwrap(),
        preserved,
        p.loaded_from.is_some(),
        serde_json::to_string(&p.notes).unwrap(),
        run.before != run.after
    );
    if verbose {
        println!("case {}: kind={} prior={:?} in_place={} notes={:?}", idx, kind, prior, in_place, p.notes);
        println!("expected refusal: {:?}; observed: {}", expect, run.obs.1);
        println!("changes: {:?}", snap_diff(&run.before, &run.after));
        println!("oracle: {}", if oracle_ok { "ok".to_string() } else { why.join("; ") });
    }
    let _ = std::fs::remove_dir_all(&sb);
    CaseOut { gallina: run.gallina, json, oracle_ok }
}

/// several saves of one loaded font: {access, insert, remove (also of an entry in error), save in
/// place, save elsewhere, save again}, with refusals in the middle; stores with 0-2 entries in
/// error and 5-15 good ones.  Every save is one model case and one oracle verdict; the store cell
/// states are threaded through (a successful save leaves every cell loaded).
pub fn history_case(seed: u64, idx: u64, out: &Path, verbose: bool, thorough: bool) -> Vec<CaseOut> {
    let mut r = Rng::new(seed.wrapping_mul(0x9E37_79B9_7F4A_7C15) ^ idx.wrapping_mul(0xD1B5_4A32_D192_ED03) ^ 0x4157);
    let sb = fresh_sandbox(out, "sbh", idx);
    let src = sb.join("src.ufo");
    let mut rc = Recipe::random_valid(&mut r);
    rc.data.clear();
    rc.images.clear();
    let nd = 5 + r.below(11);
    for i in 0..nd {
        let key = match i % 4 {
            0 => format!("f{}.bin", i),
            1 => format!("d{}/g{}.bin", i % 3, i),
            2 => format!("n/e/s/t{}.dat", i),
            _ => format!("com.example.k{}/v.plist", i),
        };
        rc.data.push((key, vec![b'D', i as u8, r.below(256) as u8]));
    }
    let ni = 5 + r.below(11);
    for i in 0..ni {
        let mut b = PNG.to_vec();
        b.push(i as u8);
        let ext = ["png", "PNG", "Png", "", "jpg"][(i % 5) as usize];
        rc.images.push((if ext.is_empty() { format!("img {}", i) } else { format!("img{}.{}", i, ext) }, b));
    }
    overlap_names(&mut rc, &mut r);
    build_font(&rc).0.save(&src).unwrap();
    let mut notes: Vec<String> = vec![];
    if r.chance(1, 5) {
        large_entries(&src, &mut r, &mut notes);
    }
    // one history with a ~5 MiB and one with a ~17 MiB lazily loaded entry (thorough: also an image
    // that large), never accessed before the saves: refused save, repair, saves in place
    const MIB: usize = 1 << 20;
    let huge: Option<(&str, usize, bool)> = match idx {
        10 => Some(("data/huge/five_mib.bin", 5 * MIB + 3, false)),
        20 => Some(("data/seventeen_mib.bin", 17 * MIB + 1, false)),
        30 if thorough => Some(("images/huge.png", 17 * MIB + 1, true)),
        35 if thorough => Some(("images/five.png", 5 * MIB + 1, true)),
        _ => None,
    };
    if let Some((rel, size, png)) = huge {
        let mut b: Vec<u8> = if png { PNG.to_vec() } else { vec![] };
        b.resize(size, 0);
        for (i, x) in b.iter_mut().enumerate().skip(8).step_by(4093) {
            *x = (i % 251) as u8;
        }
        let f = src.join(rel);
        std::fs::create_dir_all(f.parent().unwrap()).unwrap();
        std::fs::write(&f, &b).unwrap();
        notes.push(format!("source has {} of {} bytes, never accessed", rel, size));
    }
    // entries in error: an image without the signature, a data file that vanishes after load
    let nerr = if huge.is_some() { 1 } else { r.below(3) };
    let mut vanish: Vec<String> = vec![];
    for e in 0..nerr {
        if huge.is_some() || r.chance(1, 2) {
            let bad = format!("bad{}{}", e, *r.pick(&[".png", ".PNG", "", ".db"]));
            std::fs::write(src.join("images").join(&bad), b"GIF89a").unwrap();
            notes.push(format!("images/{} is not a PNG", bad));
        } else {
            let k = rc.data[r.below(rc.data.len() as u64) as usize].0.clone();
            if !vanish.contains(&k) {
                vanish.push(k);
            }
        }
    }
    let font = Font::load(&src).unwrap();
    let shadow = Shadow::opened(&font, &comps("src.ufo"));
    // what every tracked entry must hold after a successful save: the bytes on disk at load
    let mut expect: std::collections::BTreeMap<(bool, String), Vec<u8>> = Default::default();
    for (img, k) in files_of_stores(&src) {
        let f = src.join(if img { "images" } else { "data" }).join(&k);
        expect.insert((img, k), std::fs::read(f).unwrap());
    }
    for k in &vanish {
        std::fs::remove_file(src.join("data").join(k)).unwrap();
        notes.push(format!("data/{} vanished after load", k));
    }
    let preserve: BTreeSet<(bool, String)> = expect.keys().cloned().collect();
    let mut p = Prepared { font, shadow, groups_ok: true, info_valid: true, loaded_from: Some(comps("src.ufo")), preserve, notes };
    let mut outs = vec![];
    let mut last_target: Vec<String> = comps("src.ufo");
    // half of the stores with entries in error follow the script "save (refused), repair, save again"
    let script: Option<Vec<u64>> = if huge.is_some() {
        Some(vec![4, 2, 2, 4, 6])
    } else if nerr > 0 && r.chance(1, 2) {
        Some(if r.chance(1, 2) { vec![4, 2, 2, 4, 6] } else { vec![0, 4, 2, 2, 4] })
    } else {
        None
    };
    let nsteps = if script.is_some() { 5 } else { 3 + r.below(3) };
    let mut saves = 0;
    for step in 0..nsteps {
        // what is in error right now (as far as the harness knows)
        let in_error: Vec<(bool, String)> = expect
            .keys()
            .filter(|(img, k)| {
                let f = src.join(if *img { "images" } else { "data" }).join(k);
                let cell = if *img { p.shadow.images.get(k) } else { p.shadow.data.get(k) };
                match cell {
                    Some(CellS::Loaded(_)) => false,
                    Some(CellS::Error) => true,
                    _ => match std::fs::read(&f) {
                        Ok(b) => *img && !is_png(&b),
                        Err(_) => true,
                    },
                }
            })
            .cloned()
            .collect();
        let choice = match &script {
            Some(sc) => sc[step as usize],
            None => {
                if step == nsteps - 1 || (step >= 1 && saves == 0) {
                    4 + r.below(3)
                } else {
                    r.below(7)
                }
            }
        };
        let target_rel: Vec<String> = match choice {
            0 => {
                // access k entries
                let keys: Vec<(bool, String)> = expect.keys().cloned().collect();
                for (img, k) in keys {
                    if r.chance(1, 3) {
                        let mut sh = std::mem::take(&mut p.shadow);
                        touch(&p.font, &mut sh, img, &k);
                        p.shadow = sh;
                    }
                }
                p.notes.push(format!("step {}: accessed some entries", step));
                continue;
            }
            1 => {
                let k = format!("new{}/x{}.bin", step, r.below(3));
                let b = vec![b'N', step as u8];
                if p.font.data.insert(PathBuf::from(&k), b.clone()).is_ok() {
                    p.shadow.data.insert(k.clone(), CellS::Loaded(b.clone()));
                    expect.insert((false, k.clone()), b);
                    p.notes.push(format!("step {}: inserted data/{}", step, k));
                }
                continue;
            }
            2 | 3 => {
                // remove: the entries in error first (the repair), else a random one
                let victim = if !in_error.is_empty() && (choice == 2 || r.chance(1, 2)) {
                    in_error[r.below(in_error.len() as u64) as usize].clone()
                } else {
                    let keys: Vec<(bool, String)> = expect.keys().cloned().collect();
                    keys[r.below(keys.len() as u64) as usize].clone()
                };
                if victim.0 {
                    p.font.images.remove(Path::new(&victim.1));
                    p.shadow.images.remove(&victim.1);
                } else {
                    p.font.data.remove(Path::new(&victim.1));
                    p.shadow.data.remove(&victim.1);
                }
                expect.remove(&victim);
                p.preserve.remove(&victim);
                p.notes.push(format!("step {}: removed {}/{}", step, if victim.0 { "images" } else { "data" }, victim.1));
                continue;
            }
            4 => comps("src.ufo"),
            5 => {
                let t = comps("zone/t.ufo");
                if !sb.join("zone/t.ufo").exists() && !sb.join("zone/t.ufo").is_symlink() {
                    let pr = prior_for(idx / 5 + step);
                    make_prior(&sb.join("zone/t.ufo"), if pr.target() == "zone/t.ufo" { pr } else { Prior::JunkNoMeta }, &mut r);
                }
                t
            }
            _ => last_target.clone(),
        };
        saves += 1;
        last_target = target_rel.clone();
        let in_place = target_rel == comps("src.ufo");
        let run = run_save(&p, out, idx * 8 + step, &sb, &target_rel);
        let expect_ref = expected_refusal(&p, &run.before);
        let mut why: Vec<String> = vec![];
        if run.obs.1 == "PANIC" {
            why.push(format!("Font::save panicked; the file system changed: {}", snap_diff(&run.before, &run.after).join(", ")));
        }
        if let Some(v) = expect_ref {
            if run.obs.1 != v {
                why.push(format!("expected refusal {} but the save returned {}", v, run.obs.1));
            }
            if run.before != run.after {
                why.push(format!("refused save changed the file system: {}", snap_diff(&run.before, &run.after).join(", ")));
            }
        }
        let mut preserved = 0;
        if run.obs.1 == "Saved" {
            let troot = target_rel.join("/");
            for ((img, k), bytes) in &expect {
                let rel = format!("{}/{}/{}", troot, if *img { "images" } else { "data" }, k);
                match run.after.get(&rel) {
                    Some(Some(b)) if b == bytes => preserved += 1,
                    Some(Some(_)) => why.push(format!("{} does not hold the bytes it had at load / insertion", rel)),
                    _ => why.push(format!("{} is tracked by the store but missing after the save", rel)),
                }
            }
            // a successful save leaves every cell loaded
            for ((img, k), bytes) in &expect {
                if *img {
                    p.shadow.images.insert(k.clone(), CellS::Loaded(bytes.clone()));
                } else {
                    p.shadow.data.insert(k.clone(), CellS::Loaded(bytes.clone()));
                }
            }
        } else if expect_ref.is_none() && !["Cleanup", "CreateUfoDir"].contains(&run.obs.1.as_str()) {
            why.push(format!("a valid font was not saved: {}", run.obs.1));
        }
        let oracle_ok = why.is_empty();
        let mut json = String::new();
        let _ = write!(
            json,
            "{{\"i\":{},\"history\":true,\"step\":{},\"kind\":4,\"prior\":\"History\",\"in_place\":{},\"expected_refusal\":{},\"obs\":{},\"oracle_ok\":{},\"why\":{},\"preserved\":{},\"loaded\":true,\"notes\":{},\"changed\":{}}}",
            idx,
            step,
            in_place,
            match expect_ref {
                Some(v) => json_str(v),
                None => "null".into(),
            },
            json_str(&run.obs.1),
            oracle_ok,
            serde_json::to_string(&why).unwrap(),
            preserved,
            serde_json::to_string(&p.notes).unwrap(),
            run.before != run.after
        );
        if verbose {
            println!("history {} step {}: save to {:?}; expected refusal {:?}; observed {}; {} store files verified", idx, step, target_rel, expect_ref, run.obs.1, preserved);
            println!("notes: {:?}", p.notes);
            println!("oracle: {}", if oracle_ok { "ok".to_string() } else { why.join("; ") });
        }
        outs.push(CaseOut { gallina: run.gallina, json, oracle_ok });
        if run.obs.1 == "PANIC" {
            break; // nothing is claimed about a font after a panic
        }
    }
    let _ = std::fs::remove_dir_all(&sb);
    outs
}

pub fn main(a: &Args) {
    std::fs::create_dir_all(&a.out).unwrap();
    if let Some(rp) = &a.replay {
        // replay file: "<seed> <index>"
        let t = std::fs::read_to_string(rp).unwrap();
        let mut it = t.split_whitespace();
        let seed: u64 = it.next().unwrap().parse().unwrap();
        let idx: u64 = it.next().unwrap().parse().unwrap();
        if it.next() == Some("h") {
            for c in history_case(seed, idx, &a.out, true, a.thorough()) {
                println!("{}", c.json);
            }
            return;
        }
        let c = case(seed, idx, &a.out, true);
        println!("{}", c.json);
        return;
    }
    let n: u64 = if a.thorough() { 12000 } else { 600 };
    let mut g = String::new();
    let mut j = String::new();
    for i in 0..n {
        if i % 5 == 0 {
            for c in history_case(a.seed, i, &a.out, false, a.thorough()) {
                g.push_str(&c.gallina);
                g.push('\n');
                j.push_str(&c.json);
                j.push('\n');
            }
        }
        let c = case(a.seed, i, &a.out, false);
        g.push_str(&c.gallina);
        g.push('\n');
        j.push_str(&c.json);
        j.push('\n');
    }
    write_file(&a.out.join("cases.txt"), &g);
    write_file(&a.out.join("oracle.jsonl"), &j);
}
