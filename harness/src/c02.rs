//! C02: glyph values built through the public API, encoded with every kind of WriteOptions,
//! read back with Glyph::parse_raw.  Output per case: the glyph and the observed library
//! formatter tables (packed for Coq), the written bytes (for the independent XML reader of the
//! driver), the outcome of reading them back, and the property oracle parse(encode g) ~ g.
use crate::util::*;
#[path = "glif_common.rs"]
mod common;
use common::*;
use norad::{
    AffineTransform, Anchor, Codepoints, Color, Component, Contour, ContourPoint, Glyph, Guideline, Identifier, Image, Line,
    Name, Plist, PointType, QuoteChar, WriteOptions,
};
use std::collections::BTreeMap;

const FLOATS: [f64; 30] = [
    0.0, 1.0, -1.0, 2.0, 2.5, -2.5, 500.0, 0.1, 1000.0, 45.0, 360.0, 1e-7, 123456789.125, 1e21, 1e300, -0.0,
    0.30000000000000004, 1.0000000000000002, 0.9999999999999999, 1.0000000000000004, 5e-324, 2.2250738585072014e-308,
    1.5e-310, 1e-320, 4294967296.5, 0.5, 3.0, 100.0, 1.7976931348623157e308, 7.0,
];
const CHANNELS: [f64; 14] = [0.0, 1.0, 0.5, 0.25, 0.1, 0.123456789, 0.9996, 0.0004, 0.0005, 0.9995, 1e-10, 0.3333333333333333, 0.75, 0.0015];
const NAMES: [&str; 9] = ["a", "A.alt", "a b", "\u{e9}", "\u{1d538}x", "<&>\"'", " lead", "trail ", "_"];
// DEL and the C1 controls are legal XML characters; the other C0 controls are not (an independent
// reader rejects the file) but norad writes and reads them
const STRS: [&str; 22] = [
    "v", "a b", "x&y<z>", " lead", "trail ", "", "\u{e9}\u{1d538}", "\"q\"'", "l1\nl2", "a\n", "\n\n", "tab\tx", "cr\rx", "]]>",
    "a\u{7f}b", "\u{85}nel first", "last\u{9f}", "\u{80}", "form\u{c}feed", "\u{1}start", "end\u{1f}", "\u{7f}",
];
const KEYS: [&str; 12] = ["k1", "k2", "com.x.y", "a key", "\u{e9}", "<&>", "z", "multi\nline", "k\u{7f}", "\u{85}k\u{9f}", "k\u{c}", "\u{80}"];
const NOTES: [&str; 17] = [
    "hello", "a<b & c>d", "line1\n  line2", "\u{e9}", " lead", "trail ", "", "  ", "x",
    "a\u{7f}b", "\u{85}start", "end\u{9f}", "\u{80}mid\u{85}", "first page\u{c}second", "\u{1b}x", "x\u{b}", "\u{7f}",
];
const TYPES: [PointType; 5] = [PointType::Move, PointType::Line, PointType::OffCurve, PointType::Curve, PointType::QCurve];

fn seq_legal(pts: &[(u8, bool)]) -> bool {
    let n = pts.len();
    let closed = n == 0 || pts[0].0 != 0;
    let trail = |l: &[(u8, bool)]| l.iter().rev().take_while(|p| p.0 == 2).count();
    for i in 0..n {
        let (t, sm) = pts[i];
        let lin = trail(&pts[..i]);
        let run = if closed && lin == i { lin + trail(pts) } else { lin };
        let ok = match t {
            0 => i == 0,
            2 => !sm,
            1 => run == 0,
            3 => run <= 2,
            _ => true,
        };
        if !ok {
            return false;
        }
    }
    closed || trail(pts) == 0
}
fn gen_seq(rng: &mut Rng, len: usize) -> Vec<(u8, bool)> {
    for _ in 0..200 {
        let open = rng.chance(1, 3);
        let v: Vec<(u8, bool)> = (0..len)
            .map(|i| {
                let t = if i == 0 && open { 0 } else { *rng.pick(&[1u8, 1, 2, 2, 2, 3, 3, 4]) };
                (t, t != 2 && rng.chance(1, 3))
            })
            .collect();
        if seq_legal(&v) {
            return v;
        }
    }
    vec![(1, false); len]
}

struct G<'a> {
    rng: &'a mut Rng,
    next_id: usize,
    /// probability (in 1/64) of picking from the "hard" end of a value table
    hard: u64,
}
impl<'a> G<'a> {
    fn f(&mut self) -> f64 {
        if self.rng.below(64) < self.hard {
            *self.rng.pick(&FLOATS)
        } else {
            *self.rng.pick(&FLOATS[..14])
        }
    }
    fn name(&mut self) -> Name {
        Name::new(*self.rng.pick(&NAMES)).unwrap()
    }
    fn oname(&mut self, p: (u64, u64)) -> Option<Name> {
        if self.rng.chance(p.0, p.1) {
            Some(self.name())
        } else {
            None
        }
    }
    fn id(&mut self) -> Identifier {
        self.next_id += 1;
        let n = self.next_id;
        let s = match self.rng.below(6) {
            0 => format!("id{}", n),
            1 => format!("p q{}", n),
            2 => format!("<&\">'{}", n),
            3 => format!("{}{}", "a".repeat(100 - n.to_string().len()), n),
            _ => format!("i{}", n),
        };
        Identifier::new(&s).unwrap()
    }
    fn oid(&mut self, p: (u64, u64)) -> Option<Identifier> {
        if self.rng.chance(p.0, p.1) {
            Some(self.id())
        } else {
            None
        }
    }
    fn color(&mut self) -> Option<Color> {
        if self.rng.chance(1, 3) {
            let c: Vec<f64> = (0..4).map(|_| *self.rng.pick(&CHANNELS)).collect();
            Some(Color::new(c[0], c[1], c[2], c[3]).unwrap())
        } else {
            None
        }
    }
    fn transform(&mut self) -> AffineTransform {
        let mut t = AffineTransform::default();
        if self.rng.chance(1, 3) {
            t.x_scale = self.f();
        }
        if self.rng.chance(1, 4) {
            t.xy_scale = self.f();
        }
        if self.rng.chance(1, 4) {
            t.yx_scale = self.f();
        }
        if self.rng.chance(1, 3) {
            t.y_scale = self.f();
        }
        if self.rng.chance(1, 3) {
            t.x_offset = self.f();
        }
        if self.rng.chance(1, 3) {
            t.y_offset = self.f();
        }
        t
    }
    /// texts with a character XML forbids take the written file out of the independent reader's
    /// (and the model's) reach: keep them to a few per cent of the glyphs
    fn rarely_c0(&mut self, t: &'static str) -> &'static str {
        if t.chars().any(|c| (c as u32) < 32 && !matches!(c, '\t' | '\n' | '\r')) && !self.rng.chance(1, 6) {
            "v"
        } else {
            t
        }
    }
    fn pv(&mut self, depth: u32) -> plist::Value {
        let k = if depth >= 3 { self.rng.below(7) } else { self.rng.below(10) };
        match k {
            0 | 1 => {
                let hard = self.rng.below(64) < self.hard;
                let t = if hard { *self.rng.pick(&STRS) } else { *self.rng.pick(&STRS[..8]) };
                plist::Value::String(self.rarely_c0(t).to_string())
            }
            2 => plist::Value::Integer(match self.rng.below(6) {
                0 => 1i64.into(),
                1 => (-5i64).into(),
                2 => 70000i64.into(),
                3 => i64::MIN.into(),
                4 => u64::MAX.into(),
                _ => 0i64.into(),
            }),
            3 => plist::Value::Real(self.f()),
            4 => plist::Value::Boolean(self.rng.chance(1, 2)),
            5 => {
                let n = *self.rng.pick(&[0usize, 1, 2, 3, 5, 50, 51, 52, 103]);
                plist::Value::Data((0..n).map(|_| self.rng.below(256) as u8).collect())
            }
            6 => plist::Value::Date(plist::Date::from_xml_format(*self.rng.pick(&["2020-01-31T10:00:00Z", "1999-12-31T23:59:59Z", "2001-01-01T00:00:00Z"])).unwrap()),
            7 => plist::Value::Array((0..self.rng.below(3)).map(|_| self.pv(depth + 1)).collect()),
            _ => plist::Value::Dictionary(self.dict(depth + 1)),
        }
    }
    fn dict(&mut self, depth: u32) -> Plist {
        let mut d = Plist::new();
        let n = self.rng.below(4);
        for _ in 0..n {
            let hard = self.rng.below(64) < self.hard;
            let k = if hard { *self.rng.pick(&KEYS) } else { *self.rng.pick(&KEYS[..7]) };
            let k = self.rarely_c0(k);
            let v = self.pv(depth);
            d.insert(k.to_string(), v);
        }
        d
    }
    fn olib(&mut self) -> Option<Plist> {
        if self.rng.chance(1, 4) {
            Some(self.dict(1))
        } else {
            None
        }
    }
    fn glyph(&mut self) -> Glyph {
        let mut g = Glyph::new(*self.rng.pick(&NAMES));
        if self.rng.chance(2, 3) {
            g.width = self.f();
        }
        if self.rng.chance(1, 3) {
            g.height = self.f();
        }
        let ncp = self.rng.below(4);
        g.codepoints = Codepoints::new((0..ncp).map(|_| *self.rng.pick(&['A', 'a', '\u{1F600}', '\u{10FFFF}', '\0', '\u{E9}', 'B'])));
        if self.rng.chance(1, 2) {
            let hard = self.rng.below(64) < self.hard;
            let t = if hard { *self.rng.pick(&NOTES) } else { *self.rng.pick(&NOTES[..4]) };
            g.note = Some(self.rarely_c0(t).to_string());
        }
        if self.rng.chance(1, 3) {
            let f = *self.rng.pick(&["a.png", "img 1.png", "\u{e9}.png", "<&>.png"]);
            g.image = Some(Image::new(f.into(), self.color(), self.transform()).unwrap());
        }
        for _ in 0..self.rng.below(3) {
            let line = match self.rng.below(3) {
                0 => Line::Vertical(self.f()),
                1 => Line::Horizontal(self.f()),
                _ => Line::Angle { x: self.f(), y: self.f(), degrees: *self.rng.pick(&[0.0, 360.0, 45.0, 90.5, 359.99999999999994, -0.0]) },
            };
            let mut x = Guideline::new(line, self.oname((1, 3)), self.color(), self.oid((1, 2)));
            if let Some(l) = self.olib() {
                if x.identifier().is_none() {
                    x.replace_identifier(self.id());
                }
                x.replace_lib(l);
            }
            g.guidelines.push(x);
        }
        for _ in 0..self.rng.below(3) {
            let mut a = Anchor::new(self.f(), self.f(), self.oname((1, 2)), self.color(), self.oid((1, 2)));
            if let Some(l) = self.olib() {
                if a.identifier().is_none() {
                    a.replace_identifier(self.id());
                }
                a.replace_lib(l);
            }
            g.anchors.push(a);
        }
        for _ in 0..self.rng.below(3) {
            let mut c = Component::new(self.name(), self.transform(), self.oid((1, 2)));
            if let Some(l) = self.olib() {
                if c.identifier().is_none() {
                    c.replace_identifier(self.id());
                }
                c.replace_lib(l);
            }
            g.components.push(c);
        }
        for _ in 0..self.rng.below(4) {
            let len = if self.rng.below(64) < self.hard / 4 { 0 } else { self.rng.range(1, 6) as usize };
            let seq = gen_seq(self.rng, len);
            let mut pts = Vec::new();
            for (t, sm) in seq {
                let mut p = ContourPoint::new(self.f(), self.f(), TYPES[t as usize].clone(), sm, self.oname((1, 5)), self.oid((1, 4)));
                if let Some(l) = self.olib() {
                    if p.identifier().is_none() {
                        p.replace_identifier(self.id());
                    }
                    p.replace_lib(l);
                }
                pts.push(p);
            }
            let mut c = Contour::new(pts, self.oid((1, 3)));
            if let Some(l) = self.olib() {
                if c.identifier().is_none() {
                    c.replace_identifier(self.id());
                }
                c.replace_lib(l);
            }
            g.contours.push(c);
        }
        if self.rng.chance(2, 3) {
            g.lib = self.dict(0);
        }
        g
    }
}

/// make the glyph break one validity rule (for the model/implementation comparison only)
fn invalidate(g: &mut Glyph, rng: &mut Rng) -> &'static str {
    match rng.below(7) {
        0 => {
            g.width = f64::INFINITY;
            "infinite width"
        }
        1 => {
            g.height = f64::NAN;
            g.width = 5.0;
            "NaN height"
        }
        2 => {
            g.contours.push(Contour::new(
                vec![
                    ContourPoint::new(0.0, 0.0, PointType::Line, false, None, None),
                    ContourPoint::new(1.0, 0.0, PointType::Move, false, None, None),
                ],
                None,
            ));
            "illegal contour"
        }
        3 => {
            let id = Identifier::new("dup").unwrap();
            g.anchors.push(Anchor::new(0.0, 0.0, None, None, Some(id.clone())));
            g.guidelines.push(Guideline::new(Line::Vertical(1.0), None, None, Some(id)));
            "duplicate identifier"
        }
        4 => {
            g.lib.insert("public.objectLibs".into(), plist::Value::String("user".into()));
            "user public.objectLibs"
        }
        5 => {
            g.guidelines.push(Guideline::new(Line::Angle { x: 0.0, y: 0.0, degrees: 400.0 }, None, None, None));
            "angle out of range"
        }
        _ => {
            g.contours.push(Contour::new(vec![ContourPoint::new(0.0, 0.0, PointType::OffCurve, true, None, None)], None));
            "smooth off-curve"
        }
    }
}

// ---------------------------------------------------------------- formatter tables
struct Tables {
    floats: BTreeMap<u64, f64>,
    chans: BTreeMap<u64, f64>,
    ints: Vec<plist::Integer>,
    cps: Vec<char>,
}
fn collect_pv(v: &plist::Value, t: &mut Tables) {
    match v {
        plist::Value::Real(r) => {
            t.floats.insert(r.to_bits(), *r);
        }
        plist::Value::Integer(i) => t.ints.push(*i),
        plist::Value::Array(a) => a.iter().for_each(|x| collect_pv(x, t)),
        plist::Value::Dictionary(d) => d.values().for_each(|x| collect_pv(x, t)),
        _ => {}
    }
}
fn collect(g: &Glyph) -> Tables {
    let mut t = Tables { floats: BTreeMap::new(), chans: BTreeMap::new(), ints: vec![], cps: vec![] };
    let mut f = |x: f64, t: &mut Tables| {
        t.floats.insert(x.to_bits(), x);
    };
    let tr = |a: &AffineTransform| [a.x_scale, a.xy_scale, a.yx_scale, a.y_scale, a.x_offset, a.y_offset];
    let col = |c: &Option<Color>, t: &mut Tables| {
        if let Some(c) = c {
            let (r, g, b, a) = c.channels();
            for x in [r, g, b, a] {
                t.chans.insert(x.to_bits(), x);
            }
        }
    };
    f(g.width, &mut t);
    f(g.height, &mut t);
    t.cps = g.codepoints.iter().collect();
    if let Some(i) = &g.image {
        tr(&i.transform).iter().for_each(|x| f(*x, &mut t));
        col(&i.color, &mut t);
    }
    for x in &g.guidelines {
        match x.line {
            Line::Vertical(a) | Line::Horizontal(a) => f(a, &mut t),
            Line::Angle { x, y, degrees } => {
                f(x, &mut t);
                f(y, &mut t);
                f(degrees, &mut t);
            }
        }
        col(&x.color, &mut t);
        if let Some(l) = x.lib() {
            l.values().for_each(|v| collect_pv(v, &mut t));
        }
    }
    for a in &g.anchors {
        f(a.x, &mut t);
        f(a.y, &mut t);
        col(&a.color, &mut t);
        if let Some(l) = a.lib() {
            l.values().for_each(|v| collect_pv(v, &mut t));
        }
    }
    for c in &g.components {
        tr(&c.transform).iter().for_each(|x| f(*x, &mut t));
        if let Some(l) = c.lib() {
            l.values().for_each(|v| collect_pv(v, &mut t));
        }
    }
    for c in &g.contours {
        if let Some(l) = c.lib() {
            l.values().for_each(|v| collect_pv(v, &mut t));
        }
        for p in &c.points {
            f(p.x, &mut t);
            f(p.y, &mut t);
            if let Some(l) = p.lib() {
                l.values().for_each(|v| collect_pv(v, &mut t));
            }
        }
    }
    g.lib.values().for_each(|v| collect_pv(v, &mut t));
    t
}
fn trim_chan(s: &str) -> String {
    s.trim_end_matches('0').trim_end_matches('.').to_string()
}
fn tables_xt(t: &Tables) -> Xt {
    let ff = Xt::L(t.floats.values().map(|x| Xt::L(vec![tm_fl(*x), Xt::s(&x.to_string())])).collect());
    let ff3 = Xt::L(t.chans.values().map(|x| Xt::L(vec![tm_fl(*x), Xt::s(&format!("{:.3}", x))])).collect());
    let fi = Xt::L(
        t.ints
            .iter()
            .map(|i| {
                let (neg, abs) = match i.as_signed() {
                    Some(x) => (x < 0, x.unsigned_abs()),
                    None => (false, i.as_unsigned().unwrap_or(0)),
                };
                Xt::L(vec![Xt::b(neg), Xt::N(abs), Xt::s(&i.to_string())])
            })
            .collect(),
    );
    let fh = Xt::L(t.cps.iter().map(|c| Xt::L(vec![Xt::N(*c as u64), Xt::s(&format!("{:04X}", *c as u32))])).collect());
    // strings the reader will hand to f64::from_str: what the writer printed
    let mut strs: Vec<String> = t.floats.values().map(|x| x.to_string()).collect();
    strs.extend(t.chans.values().map(|x| trim_chan(&format!("{:.3}", x))));
    strs.sort();
    strs.dedup();
    let pf: Vec<(String, Option<f64>)> = strs.into_iter().map(|s| { let r = s.parse::<f64>().ok(); (s, r) }).collect();
    Xt::L(vec![ff, ff3, fi, fh, xt_pf_table(&pf)])
}

// ---------------------------------------------------------------- validity, classes, equivalence
fn pv_has_newline(v: &plist::Value) -> bool {
    match v {
        plist::Value::String(s) => s.contains('\n'),
        plist::Value::Array(a) => a.iter().any(pv_has_newline),
        plist::Value::Dictionary(d) => dict_has_newline(d),
        _ => false,
    }
}
fn dict_has_newline(d: &Plist) -> bool {
    d.iter().any(|(k, v)| k.contains('\n') || pv_has_newline(v))
}
fn all_libs(g: &Glyph) -> Vec<&Plist> {
    let mut v = vec![&g.lib];
    v.extend(g.anchors.iter().filter_map(|a| a.lib()));
    v.extend(g.guidelines.iter().filter_map(|a| a.lib()));
    v.extend(g.components.iter().filter_map(|a| a.lib()));
    for c in g.contours.iter().filter(|c| !c.points.is_empty()) {
        v.extend(c.lib());
        v.extend(c.points.iter().filter_map(|p| p.lib()));
    }
    v
}
fn xml_ws(c: char) -> bool {
    c == ' ' || c == '\t' || c == '\n' || c == '\r'
}
/// the known classes a (valid) glyph falls into for the given indentation
fn classes(g: &Glyph, indent_count: usize) -> Vec<&'static str> {
    let mut c = Vec::new();
    if indent_count > 0 && all_libs(g).iter().any(|d| dict_has_newline(d)) {
        c.push("F3");
    }
    if let Some(n) = &g.note {
        if n.is_empty() || n.starts_with(xml_ws) || n.ends_with(xml_ws) {
            c.push("F3");
        }
    }
    c.dedup();
    c
}
fn close(a: f64, b: f64) -> bool {
    a == b || (a - b).abs() <= 1e-9 * a.abs().max(b.abs())
}
fn ocolor_close(a: &Option<Color>, b: &Option<Color>) -> bool {
    match (a, b) {
        (None, None) => true,
        (Some(a), Some(b)) => {
            let (a, b) = (a.channels(), b.channels());
            [(a.0, b.0), (a.1, b.1), (a.2, b.2), (a.3, b.3)].iter().all(|(x, y)| (x - y).abs() <= 0.0005 + 1e-12)
        }
        _ => false,
    }
}
fn tr_close(a: &AffineTransform, b: &AffineTransform) -> bool {
    close(a.x_scale, b.x_scale)
        && close(a.xy_scale, b.xy_scale)
        && close(a.yx_scale, b.yx_scale)
        && close(a.y_scale, b.y_scale)
        && close(a.x_offset, b.x_offset)
        && close(a.y_offset, b.y_offset)
}
fn pv_equiv(a: &plist::Value, b: &plist::Value) -> bool {
    use plist::Value::*;
    match (a, b) {
        (Real(x), Real(y)) => close(*x, *y),
        (Array(x), Array(y)) => x.len() == y.len() && x.iter().zip(y).all(|(p, q)| pv_equiv(p, q)),
        (Dictionary(x), Dictionary(y)) => dict_equiv(x, y),
        _ => a == b,
    }
}
fn dict_equiv(a: &Plist, b: &Plist) -> bool {
    a.len() == b.len() && a.iter().all(|(k, v)| b.get(k).map_or(false, |w| pv_equiv(v, w)))
}
fn olib_equiv(a: Option<&Plist>, b: Option<&Plist>) -> bool {
    match (a, b) {
        (None, None) => true,
        (Some(a), Some(b)) => dict_equiv(a, b),
        _ => false,
    }
}
/// first field in which the re-read glyph differs from the written one (None = equivalent)
fn differs(g: &Glyph, h: &Glyph) -> Option<String> {
    if g.name() != h.name() {
        return Some("name".into());
    }
    if !close(g.width, h.width) || !close(g.height, h.height) {
        return Some("advance".into());
    }
    if g.codepoints.iter().collect::<Vec<_>>() != h.codepoints.iter().collect::<Vec<_>>() {
        return Some("codepoints".into());
    }
    if g.note != h.note {
        return Some("note".into());
    }
    match (&g.image, &h.image) {
        (None, None) => {}
        (Some(a), Some(b)) => {
            if a.file_name() != b.file_name() || !ocolor_close(&a.color, &b.color) || !tr_close(&a.transform, &b.transform) {
                return Some("image".into());
            }
        }
        _ => return Some("image".into()),
    }
    if g.guidelines.len() != h.guidelines.len() {
        return Some("guideline count".into());
    }
    for (a, b) in g.guidelines.iter().zip(&h.guidelines) {
        let l = match (&a.line, &b.line) {
            (Line::Vertical(x), Line::Vertical(y)) | (Line::Horizontal(x), Line::Horizontal(y)) => close(*x, *y),
            (Line::Angle { x, y, degrees }, Line::Angle { x: x2, y: y2, degrees: d2 }) => close(*x, *x2) && close(*y, *y2) && close(*degrees, *d2),
            _ => false,
        };
        if !l || a.name != b.name || !ocolor_close(&a.color, &b.color) || a.identifier() != b.identifier() {
            return Some("guideline".into());
        }
        if !olib_equiv(a.lib(), b.lib()) {
            return Some("guideline lib".into());
        }
    }
    if g.anchors.len() != h.anchors.len() {
        return Some("anchor count".into());
    }
    for (a, b) in g.anchors.iter().zip(&h.anchors) {
        if !close(a.x, b.x) || !close(a.y, b.y) || a.name != b.name || !ocolor_close(&a.color, &b.color) || a.identifier() != b.identifier() {
            return Some("anchor".into());
        }
        if !olib_equiv(a.lib(), b.lib()) {
            return Some("anchor lib".into());
        }
    }
    if g.components.len() != h.components.len() {
        return Some("component count".into());
    }
    for (a, b) in g.components.iter().zip(&h.components) {
        if a.base != b.base || !tr_close(&a.transform, &b.transform) || a.identifier() != b.identifier() {
            return Some("component".into());
        }
        if !olib_equiv(a.lib(), b.lib()) {
            return Some("component lib".into());
        }
    }
    if g.contours.len() != h.contours.len() {
        return Some("contour count".into());
    }
    for (a, b) in g.contours.iter().zip(&h.contours) {
        if a.identifier() != b.identifier() || a.points.len() != b.points.len() {
            return Some("contour".into());
        }
        if !olib_equiv(a.lib(), b.lib()) {
            return Some("contour lib".into());
        }
        for (p, q) in a.points.iter().zip(&b.points) {
            if !close(p.x, q.x) || !close(p.y, q.y) || p.typ != q.typ || p.smooth != q.smooth || p.name != q.name || p.identifier() != q.identifier() {
                return Some("point".into());
            }
            if !olib_equiv(p.lib(), q.lib()) {
                return Some("point lib".into());
            }
        }
    }
    if !dict_equiv(&g.lib, &h.lib) {
        return Some("lib".into());
    }
    None
}

fn drop_empty(g: &Glyph) -> Glyph {
    let mut d = g.clone();
    d.contours.retain(|c| !c.points.is_empty());
    d
}

fn options(ch: u8, count: usize, single: bool) -> WriteOptions {
    let o = WriteOptions::default().indent(ch, count);
    if single {
        o.quote_char(QuoteChar::Single)
    } else {
        o
    }
}

fn hex(b: &[u8]) -> String {
    let mut s = String::with_capacity(b.len() * 2);
    for x in b {
        s.push_str(&format!("{:02x}", x));
    }
    s
}

// ---------------------------------------------------------------- UID values, write histories
/// where a glyph holds a value the XML property-list writer cannot carry (plist::Value::Uid):
/// the top-level key of the glyph lib, or the object whose lib holds it
#[derive(Clone, Debug)]
enum Upos {
    Glyph(String),
    Anchor(usize),
    Guide(usize),
    Contour(usize),
    Point(usize, usize),
    Comp(usize),
}
fn has_uid(v: &plist::Value) -> bool {
    match v {
        plist::Value::Uid(_) => true,
        plist::Value::Array(a) => a.iter().any(has_uid),
        plist::Value::Dictionary(d) => d.values().any(has_uid),
        _ => false,
    }
}
fn lib_has_uid(l: Option<&Plist>) -> bool {
    l.map_or(false, |d| d.values().any(has_uid))
}
fn uid_positions(g: &Glyph) -> Vec<Upos> {
    let mut v = Vec::new();
    for (k, x) in g.lib.iter() {
        if has_uid(x) {
            v.push(Upos::Glyph(k.clone()));
        }
    }
    for (i, a) in g.anchors.iter().enumerate() {
        if lib_has_uid(a.lib()) {
            v.push(Upos::Anchor(i));
        }
    }
    for (i, a) in g.guidelines.iter().enumerate() {
        if lib_has_uid(a.lib()) {
            v.push(Upos::Guide(i));
        }
    }
    for (i, c) in g.contours.iter().enumerate() {
        if lib_has_uid(c.lib()) {
            v.push(Upos::Contour(i));
        }
        for (j, p) in c.points.iter().enumerate() {
            if lib_has_uid(p.lib()) {
                v.push(Upos::Point(i, j));
            }
        }
    }
    for (i, a) in g.components.iter().enumerate() {
        if lib_has_uid(a.lib()) {
            v.push(Upos::Comp(i));
        }
    }
    v
}
fn upos_xt(u: &Upos) -> Xt {
    match u {
        Upos::Glyph(k) => Xt::L(vec![Xt::N(0), Xt::s(k)]),
        Upos::Anchor(i) => Xt::L(vec![Xt::N(1), Xt::N(*i as u64)]),
        Upos::Guide(i) => Xt::L(vec![Xt::N(2), Xt::N(*i as u64)]),
        Upos::Contour(i) => Xt::L(vec![Xt::N(3), Xt::N(*i as u64)]),
        Upos::Point(i, j) => Xt::L(vec![Xt::N(4), Xt::N(*i as u64), Xt::N(*j as u64)]),
        Upos::Comp(i) => Xt::L(vec![Xt::N(5), Xt::N(*i as u64)]),
    }
}
/// an item of a write history: which history, where in it, what came before
struct HistCtx {
    hist: u64,
    pos: usize,
    save: bool,
    desc: Vec<String>,
    dir: std::path::PathBuf,
}
/// the write of one item: encode_xml_with_options, or Glyph::save (default options) read back from the file
fn write_op(g: &Glyph, o: &WriteOptions, save_to: Option<&std::path::Path>) -> Result<Result<Vec<u8>, String>, String> {
    catch(|| match save_to {
        None => g.encode_xml_with_options(o).map_err(|e| format!("{:?}", e)),
        Some(p) => {
            let _ = std::fs::remove_file(p);
            g.save(p).map_err(|e| format!("{:?}", e)).map(|_| std::fs::read(p).unwrap_or_default())
        }
    })
}

/// one case: glyph x options
fn emit(out: &mut String, id: i64, g: &Glyph, valid: bool, why: &str, ch: u8, count: usize, single: bool, corpus: &str) {
    emit_ex(out, id, g, valid, why, ch, count, single, corpus, None)
}
#[allow(clippy::too_many_arguments)]
fn emit_ex(out: &mut String, id: i64, g: &Glyph, valid: bool, why: &str, ch: u8, count: usize, single: bool, corpus: &str, hist: Option<&HistCtx>) {
    let o = options(ch, count, single);
    let save_path = hist.filter(|h| h.save).map(|h| h.dir.join(format!("h{}_{}.glif", h.hist, h.pos)));
    let enc = write_op(g, &o, save_path.as_deref());
    // the same write on a thread that has written nothing before
    let hist_diff = match hist {
        None => String::new(),
        Some(h) => {
            let g2 = g.clone();
            let o2 = options(ch, count, single);
            let p2 = save_path.as_ref().map(|_| h.dir.join(format!("h{}_{}_fresh.glif", h.hist, h.pos)));
            let fresh = std::thread::spawn(move || write_op(&g2, &o2, p2.as_deref())).join().unwrap_or_else(|_| Err("thread died".into()));
            if fresh == enc {
                String::new()
            } else {
                let show = |r: &Result<Result<Vec<u8>, String>, String>| match r {
                    Ok(Ok(b)) => format!("Ok, {} bytes: {}", b.len(), String::from_utf8_lossy(b)),
                    Ok(Err(e)) => format!("Err {}", e),
                    Err(m) => format!("PANIC {}", m),
                };
                format!("after [{}] on the same thread: {}\n---- on a fresh thread: {}", h.desc[..h.pos].join("; "), show(&enc), show(&fresh))
            }
        }
    };
    let tables = collect(g);
    let uids = uid_positions(g);
    let mut case_v = vec![
        tm_glyph_o(g, false),
        Xt::L(vec![Xt::N(ch as u64), Xt::N(count as u64), Xt::b(single)]),
        tables_xt(&tables),
    ];
    if hist.is_some() || !uids.is_empty() {
        case_v.push(Xt::L(vec![Xt::N(hist.map_or(0, |h| h.save as u64)), Xt::L(uids.iter().map(upos_xt).collect())]));
    }
    let size = g.anchors.len() + g.guidelines.len() + g.components.len() + g.contours.len()
        + g.contours.iter().map(|c| c.points.len()).sum::<usize>() + g.codepoints.iter().count() + g.lib.len();
    // glyphs too large for the Coq evaluation: the implementation-side oracle only
    let nomodel = size > 160;
    let case = if nomodel { Xt::L(vec![]) } else { Xt::L(case_v) };
    let cls = classes(g, count);
    let (bytes, enc_status, reparse, verdict, field) = match enc {
        Err(msg) => (vec![], format!("PANIC {}", msg), Xt::L(vec![]), "encode-panic".to_string(), String::new()),
        Ok(Err(e)) => (vec![], format!("Err {}", e), Xt::L(vec![]), "encode-error".to_string(), String::new()),
        Ok(Ok(b)) => {
            let (tm, short, h) = parse_outcome(&b);
            let (verdict, field) = match &h {
                None => (format!("reparse {}", short), String::new()),
                // contours without points are not written: the glyph read back is the glyph without them
                Some(h) => match differs(&drop_empty(g), h) {
                    None => ("equal".to_string(), String::new()),
                    Some(f) => ("differs".to_string(), f),
                },
            };
            (b, "Ok".to_string(), tm, verdict, field)
        }
    };
    // the library hypotheses of the theorems, on every value of this glyph
    let mut l1_fail = String::new();
    for x in tables.floats.values() {
        if x.is_finite() && x.to_string().parse::<f64>().map(|y| y.to_bits()) != Ok(x.to_bits()) {
            l1_fail = format!("f64 {:e} does not read back from {}", x, x);
        }
    }
    for x in tables.chans.values() {
        let s3 = format!("{:.3}", x);
        let t = trim_chan(&s3);
        match t.parse::<f64>() {
            Ok(y) if !s3.contains(',') && (0.0..=1.0).contains(&y) && (y - x).abs() <= 0.0005 + 1e-12 => {}
            _ => l1_fail = format!("colour channel {:e} printed as {}", x, t),
        }
    }
    for c in &tables.cps {
        if u32::from_str_radix(&format!("{:04X}", *c as u32), 16) != Ok(*c as u32) {
            l1_fail = format!("code point {:X}", *c as u32);
        }
    }
    for i in &tables.ints {
        let s = i.to_string();
        let back = match s.parse::<i64>() {
            Ok(x) => i.as_signed() == Some(x),
            Err(_) => s.parse::<u64>().ok().map_or(false, |x| i.as_unsigned() == Some(x)),
        };
        if !back {
            l1_fail = format!("integer {} does not read back from its decimal text", s);
        }
    }
    let decl_ok = if single { bytes.starts_with(b"<?xml version='1.0' encoding='UTF-8'?>\n") } else { bytes.starts_with(b"<?xml version=\"1.0\" encoding=\"UTF-8\"?>\n") };
    let _ = std::fmt::Write::write_fmt(
        out,
        format_args!(
            "{{\"id\":{},\"valid\":{},\"why\":{},\"opts\":[{},{},{}],\"classes\":{},\"enc\":{},\"verdict\":{},\"field\":{},\"decl_ok\":{},\"l1_fail\":{},\"case\":{},\"reparse\":{},\"bytes\":{},\"corpus\":{},\"hist\":{},\"hist_diff\":{},\"nomodel\":{}}}\n",
            id,
            valid,
            json_str(why),
            ch,
            count,
            single,
            serde_json::to_string(&cls).unwrap(),
            json_str(&enc_status),
            json_str(&verdict),
            json_str(&field),
            decl_ok || bytes.is_empty(),
            json_str(&l1_fail),
            json_str(&case.packed()),
            json_str(&reparse.packed()),
            json_str(&hex(&bytes)),
            json_str(corpus),
            match hist {
                None => "null".to_string(),
                Some(h) => format!(
                    "{{\"history\":{},\"position\":{},\"op\":{},\"items\":{}}}",
                    h.hist,
                    h.pos,
                    json_str(if h.save { "save" } else { "encode" }),
                    serde_json::to_string(&h.desc).unwrap()
                ),
            },
            json_str(&hist_diff),
            nomodel
        ),
    );
}

/// corpus glyphs are stored as glif text and read with parse_raw (then written with the stated options)
fn corpus_glyph(text: &str) -> Option<Glyph> {
    Glyph::parse_raw(text.as_bytes()).ok()
}

// ---------------------------------------------------------------- write histories
struct Item {
    g: Glyph,
    valid: bool,
    why: &'static str,
    opts: (u8, usize, bool),
    save: bool,
    garbage_before: bool,
    desc: String,
}
fn uid(rng: &mut Rng) -> plist::Value {
    plist::Value::Uid(plist::Uid::new(rng.below(1000)))
}
/// a dictionary with a UID at the top or below, between other entries
fn uid_dict(rng: &mut Rng, gen_key: &str) -> Plist {
    let mut d = Plist::new();
    if rng.chance(2, 3) {
        d.insert("a.first".into(), plist::Value::String("x".into()));
    }
    if rng.chance(1, 2) {
        d.insert("zz.last".into(), plist::Value::Integer(3.into()));
    }
    let u = uid(rng);
    let v = match rng.below(3) {
        0 => u,
        1 => plist::Value::Array(vec![plist::Value::Boolean(true), u]),
        _ => {
            let mut n = Plist::new();
            n.insert("in".into(), plist::Value::String("before".into()));
            n.insert("u".into(), u);
            plist::Value::Dictionary(n)
        }
    };
    d.insert(gen_key.into(), v);
    d
}
fn make_lib_nonempty(g: &mut Glyph) {
    if g.lib.is_empty() {
        g.lib.insert("com.example.mark".into(), plist::Value::String("1,0,0,1".into()));
        g.lib.insert("com.example.count".into(), plist::Value::Integer(3.into()));
    }
}
/// the items of history number [n] of a run (a function of the seed and [n] alone)
fn history(seed: u64, n: u64) -> Vec<Item> {
    let mut rng = Rng::new(seed.wrapping_mul(1_000_003).wrapping_add(n).wrapping_add(0x5151));
    let len = rng.range(3, 9) as usize;
    let mut items: Vec<Item> = Vec::new();
    let mut owe_valid = 0u64; // valid writes still to follow a failing one
    while items.len() < len || owe_valid > 0 {
        let mut r2 = rng.fork();
        let hard = *r2.pick(&[0u64, 0, 4, 16]);
        let mut gen = G { rng: &mut r2, next_id: 0, hard };
        let mut g = gen.glyph();
        let opts = (*gen.rng.pick(&[b'\t', b' ']), *gen.rng.pick(&[0usize, 1, 1, 2, 4]), gen.rng.chance(1, 3));
        let kind = if owe_valid > 0 { gen.rng.below(2) } else { 2 + gen.rng.below(9) };
        let mut it = Item { g: Glyph::new("a"), valid: true, why: "", opts, save: false, garbage_before: false, desc: String::new() };
        match kind {
            0 | 2 => {
                make_lib_nonempty(&mut g);
                it.garbage_before = gen.rng.chance(1, 3);
                it.desc = "valid glyph with a lib".into();
                owe_valid = owe_valid.saturating_sub(1);
            }
            1 | 3 => {
                it.garbage_before = gen.rng.chance(1, 3);
                it.desc = "valid glyph".into();
                owe_valid = owe_valid.saturating_sub(1);
            }
            4 => {
                let key = *gen.rng.pick(&["a.uid", "m.uid", "zzz.uid"]);
                let d = uid_dict(gen.rng, key);
                for (k, v) in d {
                    g.lib.insert(k, v);
                }
                it.valid = false;
                it.why = "UID in the glyph lib";
                it.desc = format!("FAILS: UID in the glyph lib under {}", key);
                owe_valid = 1 + gen.rng.below(2);
            }
            5 | 6 => {
                let d = uid_dict(gen.rng, "u");
                let id = Identifier::new(&format!("uid-owner-{}", n)).unwrap();
                let what = match gen.rng.below(4) {
                    0 => {
                        let mut a = Anchor::new(1.0, 2.0, None, None, Some(id));
                        a.replace_lib(d);
                        g.anchors.push(a);
                        "an anchor"
                    }
                    1 => {
                        let mut a = Guideline::new(Line::Vertical(1.0), None, None, Some(id));
                        a.replace_lib(d);
                        g.guidelines.push(a);
                        "a guideline"
                    }
                    2 => {
                        let mut a = Component::new(Name::new("b").unwrap(), AffineTransform::default(), Some(id));
                        a.replace_lib(d);
                        g.components.push(a);
                        "a component"
                    }
                    _ => {
                        let mut p = ContourPoint::new(0.0, 0.0, PointType::Line, false, None, Some(id));
                        let on_point = gen.rng.chance(1, 2);
                        if on_point {
                            p.replace_lib(d.clone());
                        }
                        let mut c = Contour::new(vec![p, ContourPoint::new(1.0, 1.0, PointType::Line, false, None, None)], None);
                        if !on_point {
                            c.replace_identifier(Identifier::new(&format!("uid-owner-c{}", n)).unwrap());
                            c.replace_lib(d);
                        }
                        g.contours.push(c);
                        if on_point {
                            "a point"
                        } else {
                            "a contour"
                        }
                    }
                };
                it.valid = false;
                it.why = "UID in an object lib";
                it.desc = format!("FAILS: UID in the lib of {}", what);
                owe_valid = 1 + gen.rng.below(2);
            }
            7 => {
                // a contour without points is not written, nor is its lib: the write succeeds
                let mut c = Contour::new(vec![], Some(Identifier::new(&format!("uid-empty-{}", n)).unwrap()));
                c.replace_lib(uid_dict(gen.rng, "u"));
                g.contours.push(c);
                it.desc = "valid: UID in the lib of a contour without points (not written)".into();
            }
            8 => {
                // a user public.objectLibs entry holding a UID: replaced when there are object libs
                g.lib.insert("public.objectLibs".into(), plist::Value::Dictionary(uid_dict(gen.rng, "u")));
                it.valid = false;
                it.why = "user public.objectLibs with a UID";
                it.save = gen.rng.chance(1, 3);
                it.desc = format!("{}: UID under a user public.objectLibs key", if it.save { "save, FAILS" } else { "fails unless the glyph has object libs" });
                owe_valid = 1;
            }
            9 => {
                g.lib.insert("public.objectLibs".into(), plist::Value::String("user".into()));
                it.valid = false;
                it.why = "user public.objectLibs";
                it.save = true;
                it.desc = "save, FAILS: user public.objectLibs key".into();
                owe_valid = 1;
            }
            _ => {
                make_lib_nonempty(&mut g);
                it.save = true;
                it.desc = "save of a valid glyph with a lib".into();
            }
        }
        if it.save {
            it.opts = (b'\t', 1, false);
        }
        it.g = g;
        items.push(it);
        if items.len() > 24 {
            break;
        }
    }
    items
}
const GARBAGE: [&[u8]; 4] = [
    b"<?xml version=\"1.0\"?><glyph name=\"a\" format=\"2\"><lib><dict><key>k</key>",
    b"<glyph name=\"a\" format=\"2\"><outline><contour><point x=\"1\" y=\"2\" type=\"line\"/>",
    b"<glyph name=\"a\" format=\"2\"><note>unfinished",
    b"<glyph name=\"a\" format=\"2\"><advance width=\"x\"/></glyph>",
];
/// run history [n] on a thread of its own, one row per item
fn run_history(seed: u64, n: u64, dir: &std::path::Path) -> String {
    let items = history(seed, n);
    let dir = dir.to_path_buf();
    std::thread::spawn(move || {
        let mut out = String::new();
        let desc: Vec<String> = items.iter().map(|i| i.desc.clone()).collect();
        for (pos, it) in items.iter().enumerate() {
            if it.garbage_before {
                // a failing read before the write and the read-back
                let _ = catch(|| Glyph::parse_raw(GARBAGE[pos % GARBAGE.len()]).is_ok());
            }
            let h = HistCtx { hist: n, pos, save: it.save, desc: desc.clone(), dir: dir.clone() };
            let id = -(100_000 + (n as i64) * 32 + pos as i64);
            emit_ex(&mut out, id, &it.g, it.valid, it.why, it.opts.0, it.opts.1, it.opts.2, "", Some(&h));
        }
        out
    })
    .join()
    .unwrap_or_default()
}

/// a valid glyph of a chosen size: [n_ids] objects with identifiers (some with libs), [n_plain]
/// without, [n_uni] code points, [n_keys] lib keys
fn big_glyph(rng: &mut Rng, n_ids: usize, n_plain: usize, n_uni: usize, n_keys: usize) -> Glyph {
    let mut g = Glyph::new("big");
    g.width = 500.0;
    g.codepoints = Codepoints::new((0..n_uni).filter_map(|u| char::from_u32(0x41 + u as u32)));
    let mut pts: Vec<ContourPoint> = Vec::new();
    let mut cids: Vec<Option<Identifier>> = Vec::new();
    let mut clibs: Vec<bool> = Vec::new();
    for j in 0..(n_ids + n_plain) {
        let id = if j < n_ids { Some(Identifier::new(&format!("i{}", j)).unwrap()) } else { None };
        let with_lib = id.is_some() && j % 3 == 0;
        let mut lib = Plist::new();
        lib.insert("n".into(), plist::Value::Integer((j as i64).into()));
        match rng.below(5) {
            0 => {
                let mut p = ContourPoint::new(j as f64, 1.0, PointType::Line, false, None, id);
                if with_lib {
                    p.replace_lib(lib);
                }
                pts.push(p);
            }
            1 => {
                cids.push(id);
                clibs.push(with_lib);
            }
            2 => {
                let mut c = Component::new(Name::new("b").unwrap(), AffineTransform::default(), id);
                if with_lib {
                    c.replace_lib(lib);
                }
                g.components.push(c);
            }
            3 => {
                let mut a = Anchor::new(1.0, j as f64, None, None, id);
                if with_lib {
                    a.replace_lib(lib);
                }
                g.anchors.push(a);
            }
            _ => {
                let mut a = Guideline::new(Line::Vertical(j as f64), None, None, id);
                if with_lib {
                    a.replace_lib(lib);
                }
                g.guidelines.push(a);
            }
        }
    }
    let per = 7;
    let need = (pts.len() + per - 1) / per;
    while cids.len() < need {
        cids.push(None);
        clibs.push(false);
    }
    let nc = cids.len();
    let mut it = pts.into_iter();
    for (ci, cid) in cids.into_iter().enumerate() {
        let mut k: Vec<ContourPoint> = Vec::new();
        let take = if ci + 1 == nc { usize::MAX } else { per };
        for _ in 0..take {
            match it.next() {
                Some(p) => k.push(p),
                None => break,
            }
        }
        if k.is_empty() {
            k.push(ContourPoint::new(0.0, 0.0, PointType::Line, false, None, None));
        }
        let mut c = Contour::new(k, cid);
        if clibs[ci] {
            let mut lib = Plist::new();
            lib.insert("c".into(), plist::Value::Boolean(true));
            c.replace_lib(lib);
        }
        g.contours.push(c);
    }
    for k in 0..n_keys {
        g.lib.insert(format!("key{}", (k * 7919) % 100_003), plist::Value::String("v".into()));
    }
    g
}

pub fn main(a: &Args) {

    if std::env::var("VERIF_DEBUG").is_ok() {
        let _ = std::panic::take_hook();
    }
    if let Some(p) = &a.replay {
        // replay file: {"glif": <glif text of the glyph>, "opts": [char, count, single]}
        let v: serde_json::Value = serde_json::from_str(&std::fs::read_to_string(p).expect("replay file")).expect("json");
        if let Some(n) = v.get("history").and_then(|x| x.as_u64()) {
            // replay file: {"history": n, "seed": s}
            let seed = v["seed"].as_u64().unwrap_or(1);
            let rows = run_history(seed, n, &a.out);
            for l in rows.lines() {
                let r: serde_json::Value = serde_json::from_str(l).unwrap();
                let h = &r["hist"];
                println!(
                    "item {} ({}; {}): {} | read back: {} {} | {}",
                    h["position"],
                    h["op"].as_str().unwrap_or(""),
                    h["items"][h["position"].as_u64().unwrap_or(0) as usize].as_str().unwrap_or(""),
                    r["enc"].as_str().unwrap_or(""),
                    r["verdict"].as_str().unwrap_or(""),
                    r["field"].as_str().unwrap_or(""),
                    if r["hist_diff"].as_str().unwrap_or("").is_empty() { "same as on a fresh thread".to_string() } else { format!("DIFFERS from the same write on a fresh thread:\n{}", r["hist_diff"].as_str().unwrap_or("")) }
                );
            }
            return;
        }
        let g = corpus_glyph(v["glif"].as_str().unwrap_or("")).expect("replay glyph does not parse");
        let o = &v["opts"];
        let (ch, count, single) = (o[0].as_u64().unwrap_or(9) as u8, o[1].as_u64().unwrap_or(1) as usize, o[2].as_bool().unwrap_or(false));
        let mut out = String::new();
        emit(&mut out, 0, &g, true, "", ch, count, single, "");
        let r: serde_json::Value = serde_json::from_str(out.trim()).unwrap();
        println!("encode: {}  read back: {} {}", r["enc"], r["verdict"], r["field"]);
        let bytes: Vec<u8> = (0..r["bytes"].as_str().unwrap().len() / 2).map(|i| u8::from_str_radix(&r["bytes"].as_str().unwrap()[2 * i..2 * i + 2], 16).unwrap()).collect();
        println!("{}", String::from_utf8_lossy(&bytes));
        return;
    }
    let mut rng = Rng::new(a.seed);
    let mut out = String::new();
    if let Some(i) = a.extra.iter().position(|x| x == "--corpus") {
        let dir = std::path::PathBuf::from(&a.extra[i + 1]);
        let mut names: Vec<_> = std::fs::read_dir(&dir).map(|d| d.filter_map(|e| e.ok()).map(|e| e.path()).collect()).unwrap_or_default();
        names.sort();
        let mut k = 0i64;
        for p in names {
            if p.extension().and_then(|x| x.to_str()) != Some("json") {
                continue;
            }
            let v: serde_json::Value = serde_json::from_str(&std::fs::read_to_string(&p).expect("corpus file")).expect("corpus json");
            let mut g = match corpus_glyph(v["glif"].as_str().unwrap_or("")) {
                Some(g) => g,
                None => continue,
            };
            // fields a glif cannot carry
            if let Some(n) = v.get("note").and_then(|x| x.as_str()) {
                g.note = Some(n.to_string());
            }
            if let Some(w) = v.get("width").and_then(|x| x.as_f64()) {
                g.width = w;
            }
            if v.get("empty_contour").and_then(|x| x.as_bool()) == Some(true) {
                g.contours.push(Contour::new(vec![], None));
            }
            let o = &v["opts"];
            k -= 1;
            emit(&mut out, k, &g, true, "", o[0].as_u64().unwrap_or(9) as u8, o[1].as_u64().unwrap_or(1) as usize, o[2].as_bool().unwrap_or(false), p.file_name().and_then(|x| x.to_str()).unwrap_or(""));
        }
        write_file(&a.out.join("cases_corpus.jsonl"), &out);
        out.clear();
    }
    // sizes: every identifier count 0..70, some large ones; many objects without identifiers, many
    // code points, many lib keys (thresholds in any per-glyph collection)
    {
        let mut specs: Vec<(usize, usize, usize, usize)> = Vec::new();
        for k in 0..=70usize {
            specs.push((k, (k * 3) % 5, k % 3, k % 4));
        }
        for k in [100usize, 150, 300, 1000] {
            specs.push((k, 3, 1, 2));
        }
        for k in [41usize, 100, 1000] {
            specs.push((0, k, 1, 0));
        }
        for k in [41usize, 300] {
            specs.push((2, 2, k, 1));
        }
        for k in [41usize, 300, 1000] {
            specs.push((1, 2, 1, k));
        }
        let mut r2 = rng.fork();
        for (j, (n_ids, n_plain, n_uni, n_keys)) in specs.into_iter().enumerate() {
            let g = big_glyph(&mut r2, n_ids, n_plain, n_uni, n_keys);
            let o = (*r2.pick(&[b'\t', b' ']), *r2.pick(&[0usize, 1, 2]), r2.chance(1, 3));
            emit(&mut out, -(50_000 + j as i64), &g, true, "", o.0, o.1, o.2, "");
        }
        write_file(&a.out.join("cases_sizes.jsonl"), &out);
        out.clear();
    }
    // write histories: sequences of writes on one thread each, failing ones included
    let nh = if a.thorough() { 3_000 } else { 200 };
    for h in 0..nh {
        out.push_str(&run_history(a.seed, h, &a.out));
        if (h + 1) % 50 == 0 || h + 1 == nh {
            write_file(&a.out.join(format!("cases_hist{}.jsonl", h / 50)), &out);
            out.clear();
        }
    }
    let n = if a.thorough() { 60_000 } else { 6_000 };
    let per_file = 500;
    let mut file_no = 0;
    let mut in_file = 0;
    let mut i = 0i64;
    while (i as u64) < n {
        let mut r2 = rng.fork();
        let hard = *r2.pick(&[0u64, 4, 4, 16, 40]);
        let mut gen = G { rng: &mut r2, next_id: 0, hard };
        let mut g = gen.glyph();
        let (valid, why) = if (i / 2) % 12 == 11 { (false, invalidate(&mut g, gen.rng)) } else { (true, "") };
        // two option sets per glyph: the result must not depend on them
        let o1 = (*gen.rng.pick(&[b'\t', b' ']), *gen.rng.pick(&[0usize, 1, 1, 2, 4, 8]), gen.rng.chance(1, 3));
        let o2 = (*gen.rng.pick(&[b'\t', b' ']), *gen.rng.pick(&[0usize, 1, 2, 3]), gen.rng.chance(1, 2));
        for o in [o1, o2] {
            emit(&mut out, i, &g, valid, why, o.0, o.1, o.2, "");
            i += 1;
            in_file += 1;
        }
        if in_file >= per_file {
            write_file(&a.out.join(format!("cases_{}.jsonl", file_no)), &out);
            out.clear();
            file_no += 1;
            in_file = 0;
        }
    }
    if in_file > 0 {
        write_file(&a.out.join(format!("cases_{}.jsonl", file_no)), &out);
    }
}
