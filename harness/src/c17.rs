//! C17: a partial load equals the full load restricted to what was requested; files of
//! un-requested parts are not read (corrupting them changes nothing).
//! Hand-written format-3 UFOs in which every part carries an id that can be read back from the
//! loaded font; all 64 switch masks x filter shapes; each also with every un-requested file
//! replaced by garbage.  Cases are printed for the Coq model (coq/Model/Request.v) and judged by
//! an oracle that only uses the public API.
use crate::c08::common::{gq, json_str, PNG};
use crate::util::*;
use norad::error::{FontLoadError, LayerLoadError};
use norad::{DataRequest, Font, Plist};
use std::fmt::Write as _;
use std::path::{Path, PathBuf};

const GARBAGE: &[u8] = b"\xff\xfe\x00 garbage <<< not a plist, not xml, not utf-8 \xc3";

#[derive(Clone, Debug)]
pub struct LayerU {
    pub name: String,
    pub dir: String,     // where the directory is
    pub written: String, // how layercontents.plist spells it (normally the same)
    pub glyphs: Vec<(String, String, u32)>, // name, file, id
    pub info: u32,                          // 0 = no layerinfo.plist
}
#[derive(Clone, Debug)]
pub struct Ufo {
    pub meta: u32,
    pub lib: u8, // 0 absent 1 plain 2 plain+objectLibs 3 only objectLibs 4 objectLibs not a dict 5 not a dict
    pub lib_id: u32,
    pub olib_id: u32,
    pub info: u8, // 0 absent 1 family only 2 family + guideline G1 3 invalid
    pub info_id: u32,
    pub groups: u8, // 0 absent 1 valid 2 invalid
    pub groups_id: u32,
    pub kerning: u32,  // 0 absent, else id
    pub features: u32, // 0 absent, else id
    pub layers: Vec<LayerU>,
    pub data: Vec<String>,
    pub images: Vec<String>,
    pub anomaly: u8, // 0 none; 1 duplicate layer name; 2 duplicate layer directory; 3 reserved name; 4 nested glif path; 5 two glyphs one file; 6 layer dirs differing by case; 7 Glyphs + glyphs; 8 glif files differing by case
    pub data_is_file: bool,   // `data` is a plain file (listing fails when requested)
    pub images_subdir: bool,  // a directory inside images (refused when requested)
}

const DIRS: [(&str, &str); 6] = [
    ("background", "glyphs.background"),
    ("B", "glyphs.B_"),
    ("sketches", "glyphs.sketches"),
    ("x y", "glyphs.x y"),
    ("fg", "glyphs.fg"),
    ("Zz", "glyphs.Z_z_"),
];
const GNAMES: [(&str, &str); 6] = [("a", "a.glif"), ("A", "A_.glif"), ("b", "b.glif"), ("space", "space.glif"), ("a.alt", "a.alt.glif"), ("z", "z.glif")];

pub fn gen_ufo(r: &mut Rng, valid_only: bool) -> Ufo {
    let mut id = 10u32;
    let mut next = || {
        id += 1;
        id
    };
    let mut u = Ufo {
        meta: next(),
        lib: *r.pick(&[0u8, 1, 1, 2, 2, 3]),
        lib_id: next(),
        olib_id: next(),
        info: *r.pick(&[0u8, 1, 2, 2]),
        info_id: next(),
        groups: *r.pick(&[0u8, 1, 1]),
        groups_id: next(),
        kerning: if r.chance(2, 3) { next() } else { 0 },
        features: if r.chance(2, 3) { next() } else { 0 },
        layers: vec![],
        data: vec![],
        images: vec![],
        anomaly: 0,
        data_is_file: false,
        images_subdir: false,
    };
    if !valid_only {
        if r.chance(1, 6) {
            u.lib = *r.pick(&[4u8, 5]);
        }
        if r.chance(1, 8) {
            u.info = 3;
        }
        if r.chance(1, 8) {
            u.groups = 2;
        }
        u.data_is_file = r.chance(1, 10);
        u.images_subdir = r.chance(1, 10);
    }
    let dname = if r.chance(1, 3) { "Default Layer" } else { "public.default" };
    let mut layers = vec![(dname.to_string(), "glyphs".to_string())];
    let mut pool: Vec<(&str, &str)> = DIRS.to_vec();
    for _ in 0..r.below(4) {
        let i = r.below(pool.len() as u64) as usize;
        let (n, d) = pool.remove(i);
        layers.push((n.to_string(), d.to_string()));
    }
    // the default layer anywhere in the file order
    let k = r.below(layers.len() as u64) as usize;
    layers.swap(0, k);
    for (n, d) in layers {
        let mut glyphs = vec![];
        let mut gp: Vec<(&str, &str)> = GNAMES.to_vec();
        for _ in 0..r.below(4) {
            let i = r.below(gp.len() as u64) as usize;
            let (gn, gf) = gp.remove(i);
            glyphs.push((gn.to_string(), gf.to_string(), next()));
        }
        glyphs.sort();
        let info = if r.chance(1, 2) { next() } else { 0 };
        // layercontents.plist may spell a directory with trailing separators or a trailing `.`;
        // as a path it is the same single component
        let spelt = format!("{}{}", d, *r.pick(&["", "", "", "/", "//", "/."]));
        u.layers.push(LayerU { name: n, written: spelt, dir: d, glyphs, info });
    }
    if !valid_only && r.chance(1, 3) {
        // entries the loader must refuse, in its order of checks
        u.anomaly = 1 + r.below(8) as u8;
        match u.anomaly {
            1 => {
                let n = u.layers[0].name.clone();
                u.layers.push(LayerU { name: n, dir: "glyphs.dup".into(), written: "glyphs.dup".into(), glyphs: vec![], info: 0 });
            }
            2 => {
                let mut l = u.layers[r.below(u.layers.len() as u64) as usize].clone();
                l.name = "same directory".into();
                u.layers.push(l);
            }
            3 => {
                let k = u.layers.len() - 1;
                if u.layers[k].dir != "glyphs" {
                    u.layers[k].name = "public.default".into();
                } else {
                    u.layers.push(LayerU { name: "public.default".into(), dir: "glyphs.pd".into(), written: "glyphs.pd".into(), glyphs: vec![], info: 0 });
                }
            }
            4 => {
                let k = r.below(u.layers.len() as u64) as usize;
                u.layers[k].glyphs.push(("zz".into(), "sub/zz.glif".into(), next()));
            }
            6 => {
                for d in ["glyphs.C_ase", "glyphs.c_ASE"] {
                    u.layers.push(LayerU { name: format!("case {}", d), dir: d.into(), written: d.into(), glyphs: vec![], info: 0 });
                }
            }
            7 => {
                u.layers.push(LayerU { name: "shouting".into(), dir: "Glyphs".into(), written: "Glyphs".into(), glyphs: vec![], info: 0 });
            }
            8 => {
                let k = r.below(u.layers.len() as u64) as usize;
                u.layers[k].glyphs.push(("Q".into(), "Q_.glif".into(), next()));
                u.layers[k].glyphs.push(("q".into(), "q_.GLIF".into(), next()));
                u.layers[k].glyphs.push(("q2".into(), "Q_.GLIF".into(), next()));
            }
            _ => {
                let k = r.below(u.layers.len() as u64) as usize;
                let id = next();
                u.layers[k].glyphs.push(("y1".into(), "shared.glif".into(), id));
                u.layers[k].glyphs.push(("y2".into(), "shared.glif".into(), id));
            }
        }
    }
    if r.chance(2, 3) && !u.data_is_file {
        for k in ["a.txt", "d/e.bin", "d/f/g"] {
            if r.chance(1, 2) {
                u.data.push(k.to_string());
            }
        }
    }
    if r.chance(2, 3) {
        for k in ["i.png", "j.png"] {
            if r.chance(1, 2) {
                u.images.push(k.to_string());
            }
        }
    }
    u
}

const PL_HEAD: &str = "<?xml version=\"1.0\" encoding=\"UTF-8\"?>\n<!DOCTYPE plist PUBLIC \"-//Apple//DTD PLIST 1.0//EN\" \"http://www.apple.com/DTDs/PropertyList-1.0.dtd\">\n<plist version=\"1.0\">\n";
fn pl(body: &str) -> String {
    format!("{}{}</plist>\n", PL_HEAD, body)
}

/// every file of the UFO: (relative path, bytes, Gallina content term); directories: (path, None)
pub fn files(u: &Ufo) -> Vec<(String, Option<(Vec<u8>, String)>)> {
    let mut v: Vec<(String, Option<(Vec<u8>, String)>)> = vec![];
    let mut f = |p: &str, b: String, g: String| v.push((p.to_string(), Some((b.into_bytes(), g))));
    f(
        "metainfo.plist",
        pl(&format!("<dict>\n<key>creator</key><string>c{}</string>\n<key>formatVersion</key><integer>3</integer>\n</dict>\n", u.meta)),
        format!("LMeta 3 {}", u.meta),
    );
    let olib = format!("<key>public.objectLibs</key><dict><key>G1</key><dict><key>tok</key><integer>{}</integer></dict></dict>\n", u.olib_id);
    match u.lib {
        1 => f("lib.plist", pl(&format!("<dict>\n<key>com.tok</key><integer>{}</integer>\n</dict>\n", u.lib_id)), format!("LLib {} ONone", u.lib_id)),
        2 => f("lib.plist", pl(&format!("<dict>\n<key>com.tok</key><integer>{}</integer>\n{}</dict>\n", u.lib_id, olib)), format!("LLib {} (OGood {})", u.lib_id, u.olib_id)),
        3 => f("lib.plist", pl(&format!("<dict>\n{}</dict>\n", olib)), format!("LLib 0 (OGood {})", u.olib_id)),
        4 => f("lib.plist", pl(&format!("<dict>\n<key>com.tok</key><integer>{}</integer>\n<key>public.objectLibs</key><string>no</string>\n</dict>\n", u.lib_id)), format!("LLib {} OBad", u.lib_id)),
        5 => f("lib.plist", pl("<array><string>x</string></array>\n"), "LLibNotDict".into()),
        _ => {}
    }
    match u.info {
        1 => f("fontinfo.plist", pl(&format!("<dict>\n<key>familyName</key><string>F{}</string>\n</dict>\n", u.info_id)), format!("LInfo {} true false", u.info_id)),
        2 => f(
            "fontinfo.plist",
            pl(&format!("<dict>\n<key>familyName</key><string>F{}</string>\n<key>guidelines</key><array><dict><key>x</key><integer>1</integer><key>identifier</key><string>G1</string></dict></array>\n</dict>\n", u.info_id)),
            format!("LInfo {} true true", u.info_id),
        ),
        3 => f("fontinfo.plist", pl(&format!("<dict>\n<key>familyName</key><string>F{}</string>\n<key>openTypeOS2Selection</key><array><integer>0</integer></array>\n</dict>\n", u.info_id)), format!("LInfo {} false false", u.info_id)),
        _ => {}
    }
    match u.groups {
        1 => f("groups.plist", pl(&format!("<dict>\n<key>g{}</key><array><string>a</string></array>\n</dict>\n", u.groups_id)), format!("LGroups {} true", u.groups_id)),
        2 => f("groups.plist", pl("<dict>\n<key>public.kern1.x</key><array><string>a</string></array>\n<key>public.kern1.y</key><array><string>a</string></array>\n</dict>\n"), format!("LGroups {} false", u.groups_id)),
        _ => {}
    }
    if u.kerning != 0 {
        f("kerning.plist", pl(&format!("<dict>\n<key>a</key><dict><key>b</key><integer>{}</integer></dict>\n</dict>\n", u.kerning)), format!("LKerning {}", u.kerning));
    }
    if u.features != 0 {
        f("features.fea", format!("# {}\n", u.features), format!("LFeatures {}", u.features));
    }
    let mut lc = String::from("<array>\n");
    let mut lcg = vec![];
    for l in &u.layers {
        let _ = write!(lc, "<array><string>{}</string><string>{}</string></array>\n", l.name, l.written);
        lcg.push(format!("({},{})", gq(&l.name), grel_text(&l.written)));
    }
    lc.push_str("</array>\n");
    f("layercontents.plist", pl(&lc), format!("LLayerContents [{}]", lcg.join(";")));
    for l in &u.layers {
        v.push((l.dir.clone(), None));
        let mut f = |p: String, b: String, g: String| v.push((p, Some((b.into_bytes(), g))));
        let mut c = String::from("<dict>\n");
        let mut cg = vec![];
        // contents.plist is read into a map ordered by glyph name
        let mut by_name = l.glyphs.clone();
        by_name.sort();
        for (gn, gf, _) in &by_name {
            let _ = write!(c, "<key>{}</key><string>{}</string>\n", gn, gf);
            cg.push(format!("({},{})", gq(gn), grel_text(gf)));
        }
        c.push_str("</dict>\n");
        f(format!("{}/contents.plist", l.dir), pl(&c), format!("LContents [{}]", cg.join(";")));
        for (gn, gf, id) in &l.glyphs {
            f(
                format!("{}/{}", l.dir, gf),
                format!("<?xml version=\"1.0\" encoding=\"UTF-8\"?>\n<glyph name=\"{}\" format=\"2\">\n<advance width=\"{}\"/>\n</glyph>\n", gn, id),
                format!("LGlif {}", id),
            );
        }
        if l.info != 0 {
            f(format!("{}/layerinfo.plist", l.dir), pl(&format!("<dict>\n<key>lib</key><dict><key>tok</key><integer>{}</integer></dict>\n</dict>\n", l.info)), format!("LLayerInfo {}", l.info));
        }
    }
    if u.data_is_file {
        v.push(("data".into(), Some((b"i am a file".to_vec(), "LBytes 1".into()))));
    } else if !u.data.is_empty() {
        v.push(("data".into(), None));
        let mut dirs = std::collections::BTreeSet::new();
        for k in &u.data {
            let parts: Vec<&str> = k.split('/').collect();
            for j in 1..parts.len() {
                dirs.insert(format!("data/{}", parts[..j].join("/")));
            }
        }
        for d in dirs {
            v.push((d, None));
        }
        for k in &u.data {
            v.push((format!("data/{}", k), Some((k.as_bytes().to_vec(), "LBytes 2".into()))));
        }
    }
    if !u.images.is_empty() || u.images_subdir {
        v.push(("images".into(), None));
        for k in &u.images {
            let mut b = PNG.to_vec();
            b.extend_from_slice(k.as_bytes());
            v.push((format!("images/{}", k), Some((b, "LBytes 3".into()))));
        }
        if u.images_subdir {
            v.push(("images/sub".into(), None));
        }
    }
    v
}

/// damage to a whole entry (a top-level file, the data / images directory, a layer directory)
#[derive(Clone, Copy, Debug, PartialEq)]
pub enum Damage {
    PlainFile,   // a directory replaced by a plain file
    Dangling,    // replaced by a symbolic link to nothing
    Loop,        // replaced by a symbolic link to itself
    LinkToFile,  // replaced by a symbolic link to a file
    AsDirectory, // a file replaced by a directory
}
pub fn apply_damage(root: &Path, entry: &str, d: Damage) {
    let p = root.join(entry);
    if p.is_dir() && !p.is_symlink() {
        let _ = std::fs::remove_dir_all(&p);
    } else {
        let _ = std::fs::remove_file(&p);
    }
    let name = p.file_name().unwrap().to_string_lossy().to_string();
    match d {
        Damage::PlainFile => std::fs::write(&p, GARBAGE).unwrap(),
        Damage::Dangling => std::os::unix::fs::symlink("no-such-entry", &p).unwrap(),
        Damage::Loop => std::os::unix::fs::symlink(&name, &p).unwrap(),
        Damage::LinkToFile => std::os::unix::fs::symlink("metainfo.plist", &p).unwrap(),
        Damage::AsDirectory => {
            std::fs::create_dir_all(p.join("inside")).unwrap();
            std::fs::write(p.join("inside/x"), b"x").unwrap();
        }
    }
}

pub fn write_ufo(root: &Path, u: &Ufo, garbage: &[String], removed: &[String]) {
    let _ = std::fs::remove_dir_all(root);
    std::fs::create_dir_all(root).unwrap();
    for (p, c) in files(u) {
        if removed.iter().any(|r| *r == p) {
            continue;
        }
        match c {
            None => std::fs::create_dir_all(root.join(&p)).unwrap(),
            Some((b, _)) => {
                let q = root.join(&p);
                std::fs::create_dir_all(q.parent().unwrap()).unwrap();
                if garbage.iter().any(|g| *g == p) {
                    std::fs::write(q, GARBAGE).unwrap();
                } else {
                    std::fs::write(q, b).unwrap();
                }
            }
        }
    }
}

/// a path as written in a plist, as Rust's `components()` sees it
fn grel_text(w: &str) -> String {
    let mut v = vec![];
    for c in Path::new(w).components() {
        v.push(match c {
            std::path::Component::Normal(s) => format!("Normal {}", gq(&s.to_string_lossy())),
            std::path::Component::ParentDir => "ParentDir".to_string(),
            std::path::Component::CurDir => "CurDir".to_string(),
            _ => "RootDir".to_string(),
        });
    }
    format!("[{}]", v.join(";"))
}
/// the former finding F23 (fixed by 8d15b4b): a default layer directory that is not written
/// exactly `glyphs`; such a UFO must now be refused by every load
pub fn class_f23(u: &Ufo) -> bool {
    // not a single normal component (`glyphs/`, `glyphs//`, `glyphs/.` ARE one: Path::components)
    u.layers.iter().any(|l| {
        let p = Path::new(&l.written);
        let mut c = p.components();
        let plain = matches!((c.next(), c.next()), (Some(std::path::Component::Normal(_)), None));
        p.file_name().map(|f| f == "glyphs").unwrap_or(false) && !plain
    })
}
fn gpath(rel: &str) -> String {
    let mut parts = vec!["\"u\"".to_string()];
    if !rel.is_empty() {
        parts.extend(rel.split('/').map(gq));
    }
    format!("[{}]", parts.join(";"))
}
/// the abstract file system of the pristine UFO at ["u"], as a Gallina entry list
pub fn gfs(u: &Ufo) -> String {
    let mut es = vec!["([],Dir)".to_string(), "([\"u\"],Dir)".to_string()];
    for (p, c) in files(u) {
        match c {
            None => es.push(format!("({},Dir)", gpath(&p))),
            Some((_, g)) => es.push(format!("({},File ({}))", gpath(&p), g)),
        }
    }
    format!("[{}]", es.join(";"))
}

// ---------------------------------------------------------------- requests
#[derive(Clone, Debug)]
pub struct Req {
    pub mask: u32, // bit0 lib 1 groups 2 kerning 3 features 4 data 5 images
    pub all: bool,
    pub default: bool,
    pub custom: Option<Vec<(String, String)>>, // accepted (name, dir) pairs
    pub shape: &'static str,
}
pub fn mk_request<'a>(q: &'a Req) -> DataRequest<'a> {
    let m = q.mask;
    let mut dr = DataRequest::none().lib(m & 1 != 0).groups(m & 2 != 0).kerning(m & 4 != 0).features(m & 8 != 0).data(m & 16 != 0).images(m & 32 != 0);
    if q.default {
        dr = dr.default_layer(true);
    }
    if let Some(set) = &q.custom {
        dr = dr.filter_layers(move |n, p| set.iter().any(|(a, b)| a == n && Path::new(b) == p));
    }
    if q.all {
        dr = dr.layers(true);
    }
    dr
}
fn greq(q: &Req) -> String {
    let b = |k: u32| g_bool(q.mask & k != 0);
    let custom = match &q.custom {
        None => "None".to_string(),
        Some(s) => format!("(Some [{}])", s.iter().map(|(n, d)| format!("({},{})", gq(n), grel_text(d))).collect::<Vec<_>>().join(";")),
    };
    format!("(Request {} {} {} {} {} {} (LFilter {} {} {}))", b(1), b(2), b(4), b(8), b(16), b(32), g_bool(q.all), g_bool(q.default), custom)
}
pub fn filter_shapes(u: &Ufo, r: &mut Rng) -> Vec<Req> {
    let all_pairs: Vec<(String, String)> = u.layers.iter().map(|l| (l.name.clone(), l.written.clone())).collect();
    let non_default: Vec<(String, String)> = all_pairs.iter().filter(|(_, d)| Path::new(d) != Path::new("glyphs")).cloned().collect();
    let mut by_name = vec![];
    for p in &all_pairs {
        if r.chance(1, 2) {
            by_name.push(p.clone());
        }
    }
    vec![
        Req { mask: 0, all: true, default: false, custom: None, shape: "all" },
        Req { mask: 0, all: false, default: true, custom: None, shape: "default-only" },
        Req { mask: 0, all: false, default: false, custom: Some(by_name), shape: "by-name" },
        Req { mask: 0, all: false, default: false, custom: Some(vec![]), shape: "none-via-predicate" },
        Req { mask: 0, all: false, default: false, custom: None, shape: "none" },
        Req { mask: 0, all: false, default: false, custom: Some(all_pairs.clone()), shape: "predicate-true" },
        Req { mask: 0, all: false, default: true, custom: Some(non_default), shape: "default+predicate" },
    ]
}
fn selected(q: &Req, name: &str, dir: &str) -> bool {
    // paths are compared as paths (component-wise), like `path == Path::new("glyphs")` in the filter
    q.all
        || (q.default && Path::new(dir) == Path::new("glyphs"))
        || q.custom.as_ref().map(|s| s.iter().any(|(a, b)| a == name && Path::new(b) == Path::new(dir))).unwrap_or(false)
}

/// files of un-requested parts (relative paths of plain files)
pub fn unrequested_files(u: &Ufo, q: &Req) -> Vec<String> {
    let mut v = vec![];
    for (p, c) in files(u) {
        if c.is_none() {
            continue;
        }
        let top = p.split('/').next().unwrap().to_string();
        let un = match p.as_str() {
            "lib.plist" => q.mask & 1 == 0,
            "groups.plist" => q.mask & 2 == 0,
            "kerning.plist" => q.mask & 4 == 0,
            "features.fea" => q.mask & 8 == 0,
            _ => {
                if top == "data" {
                    q.mask & 16 == 0
                } else if top == "images" {
                    q.mask & 32 == 0
                } else if let Some(l) = u.layers.iter().find(|l| l.dir == top) {
                    !selected(q, &l.name, &l.written)
                } else {
                    false
                }
            }
        };
        if un {
            v.push(p);
        }
    }
    v
}

// ---------------------------------------------------------------- dumps
fn int_of(v: Option<&plist::Value>) -> u64 {
    v.and_then(|x| x.as_unsigned_integer()).unwrap_or(999_999)
}
/// a loaded font as the Gallina `lfont` of coq/Model/Request.v; ids are read back from the values
pub fn dump(f: &Font) -> String {
    let meta = f.meta.creator.as_ref().and_then(|c| c.strip_prefix('c')).and_then(|s| s.parse::<u64>().ok()).unwrap_or(999_999);
    let lib_tok = if f.lib.contains_key("com.tok") { int_of(f.lib.get("com.tok")) } else { 0 };
    let other_keys = f.lib.keys().filter(|k| *k != "com.tok" && *k != "public.objectLibs").count();
    let ol = match f.lib.get("public.objectLibs") {
        None => "ONone".to_string(),
        Some(plist::Value::Dictionary(d)) => format!("(OGood {})", int_of(d.get("G1").and_then(|g| g.as_dictionary()).and_then(|g| g.get("tok")))),
        Some(_) => "OBad".to_string(),
    };
    let lib_tok = if other_keys > 0 { 999_999 } else { lib_tok };
    let info_tok = match &f.font_info.family_name {
        Some(s) => s.strip_prefix('F').and_then(|x| x.parse::<u64>().ok()).unwrap_or(999_999),
        None => 0,
    };
    let attached = match f.guidelines().first().and_then(|g| g.lib()) {
        Some(l) => format!("(Some {})", int_of(l.get("tok"))),
        None => "None".to_string(),
    };
    let groups = match f.groups.keys().next() {
        Some(k) => k.strip_prefix('g').and_then(|x| x.parse::<u64>().ok()).unwrap_or(999_999),
        None => 0,
    };
    let kerning = match f.kerning.get("a").and_then(|m| m.get("b")) {
        Some(v) => *v as u64,
        None => {
            if f.kerning.is_empty() {
                0
            } else {
                999_999
            }
        }
    };
    let features = if f.features.is_empty() { 0 } else { f.features.trim().trim_start_matches("# ").parse::<u64>().unwrap_or(999_999) };
    let mut layers = vec![];
    for l in f.layers.iter() {
        let mut gl = vec![];
        let mut fl = vec![];
        for g in l.iter() {
            gl.push(format!("({},{})", gq(g.name()), g.width as u64));
            if let Some(p) = l.get_path(g.name()) {
                fl.push(grel_text(&p.to_string_lossy()));
            }
        }
        let info = if l.lib.is_empty() && l.color.is_none() { 0 } else { int_of(l.lib.get("tok")) };
        let d = l.path().to_string_lossy().to_string();
        layers.push(format!("LLayer {} [Normal {}] {} [{}] [{}] {}", gq(l.name()), gq(&d), gq(&d), gl.join(";"), fl.join(";"), info));
    }
    let keys = |ks: Vec<&PathBuf>| {
        let mut v: Vec<String> = ks.iter().map(|k| k.to_string_lossy().to_string()).collect();
        v.sort();
        format!("[{}]", v.iter().map(|k| format!("[{}]", k.split('/').map(gq).collect::<Vec<_>>().join(";"))).collect::<Vec<_>>().join(";"))
    };
    format!(
        "(LFont {} ({},{}) ({},{}) {} {} {} [{}] {} {})",
        meta,
        lib_tok,
        ol,
        info_tok,
        attached,
        groups,
        kerning,
        features,
        layers.join(";"),
        keys(f.data.keys().collect()),
        keys(f.images.keys().collect())
    )
}
pub fn gerr(e: &FontLoadError) -> (String, String) {
    let t: String = match e {
        FontLoadError::AccessUfoDir(_) => "AccessUfoDir".into(),
        FontLoadError::UfoNotADir => "UfoNotADir".into(),
        FontLoadError::MissingMetaInfoFile => "MissingMetaInfoFile".into(),
        FontLoadError::ParsePlist { name, .. } => format!("(ParsePlist {})", gq(name)),
        FontLoadError::LibFileMustBeDictionary => "LibFileMustBeDictionary".into(),
        FontLoadError::FontInfo(_) => "FontInfoErr".into(),
        FontLoadError::InvalidGroups(_) => "InvalidGroupsL".into(),
        FontLoadError::FeatureFile(_) => "FeatureFileL".into(),
        FontLoadError::MissingLayerContentsFile => "MissingLayerContentsFile".into(),
        FontLoadError::MissingDefaultLayer => "MissingDefaultLayer".into(),
        FontLoadError::InvalidLayerDirectory { name, .. } => format!("(InvalidLayerDirectory {})", gq(name)),
        FontLoadError::DuplicateLayerName(name) => format!("(DuplicateLayerName {})", gq(name)),
        FontLoadError::DuplicateLayerDirectory(_) => "DuplicateLayerDirectory".into(),
        FontLoadError::ReservedLayerName => "ReservedLayerName".into(),
        FontLoadError::DataStore(_) => "DataStoreL".into(),
        FontLoadError::ImagesStore(_) => "ImagesStoreL".into(),
        FontLoadError::Layer { name, source, .. } => {
            let le = match &**source {
                LayerLoadError::MissingContentsFile => "LMissingContents",
                LayerLoadError::ParsePlist { name: "contents.plist", .. } => "LParseContents",
                LayerLoadError::ParsePlist { name: "layerinfo.plist", .. } => "LParseLayerInfo",
                LayerLoadError::Glyph { .. } => "LGlyph",
                LayerLoadError::InvalidGlyphFileName { .. } => "LInvalidGlyphFileName",
                LayerLoadError::DuplicateGlyphFileName(_) => "LDuplicateGlyphFileName",
                _ => return ("OOther".into(), "Layer(other)".into()),
            };
            format!("(LayerL {} {})", gq(name), le)
        }
        _ => return ("OOther".into(), "other".into()),
    };
    (format!("(OErr {})", t), t)
}
pub fn observe(root: &Path, q: &Req) -> (String, String, Option<Font>) {
    match catch(|| Font::load_requested_data(root, mk_request(q))) {
        Err(_) => ("OPanic".into(), "PANIC".into(), None),
        Ok(Err(e)) => {
            let (g, s) = gerr(&e);
            (g, s, None)
        }
        Ok(Ok(f)) => (format!("(OOk {})", dump(&f)), "Ok".into(), Some(f)),
    }
}

// ---------------------------------------------------------------- oracle
/// the full load restricted to the request, through the public API only
pub fn restrict(full: &Font, q: &Req, u: &Ufo) -> Font {
    // the filter sees the directory as layercontents.plist spells it
    let written = |name: &str, dir: &str| -> String {
        u.layers.iter().find(|l| l.name == name).map(|l| l.written.clone()).unwrap_or_else(|| dir.to_string())
    };
    let mut f = full.clone();
    if q.mask & 1 == 0 {
        f.lib = Plist::new();
        if let Some(gs) = f.font_info.guidelines.as_mut() {
            for g in gs.iter_mut() {
                g.take_lib();
            }
        }
    }
    if q.mask & 2 == 0 {
        f.groups = Default::default();
    }
    if q.mask & 4 == 0 {
        f.kerning = Default::default();
    }
    if q.mask & 8 == 0 {
        f.features = String::new();
    }
    if q.mask & 16 == 0 {
        f.data = Default::default();
    }
    if q.mask & 32 == 0 {
        f.images = Default::default();
    }
    // `remove` (not `retain`): it also releases the directory in the index of taken directories,
    // which is what a load that never saw the layer leaves behind
    let drop: Vec<String> = f
        .layers
        .iter()
        .skip(1)
        .filter(|l| !selected(q, l.name(), &written(l.name(), &l.path().to_string_lossy())))
        .map(|l| l.name().to_string())
        .collect();
    for n in &drop {
        f.layers.remove(n);
    }
    let d = f.layers.default_layer();
    // "default only" means the default layer, however its directory is spelt
    let default_selected = q.all || q.default || selected(q, d.name(), &written(d.name(), "glyphs"));
    if !default_selected {
        let old = d.name().to_string();
        if old != "public.default" {
            f.layers.rename_layer(&old, "public.default", false).unwrap();
        }
        let d = f.layers.default_layer_mut();
        d.clear();
        d.color = None;
        d.lib = Plist::new();
    }
    f
}

fn swap_case(s: &str) -> String {
    s.chars().map(|c| if c.is_lowercase() { c.to_ascii_uppercase() } else { c.to_ascii_lowercase() }).collect()
}
/// The same short script on a loaded font, to observe what the getters do not show (the index of
/// taken layer directories / glif names): layers created and renamed to the names of the layers
/// that were left out (and case variants), glyphs of left-out layers inserted.  Returns every
/// layer's name, directory and glyph file names afterwards.
pub fn post_load_script(f: &Font, u: &Ufo, q: &Req) -> Vec<(String, String, Vec<(String, String)>)> {
    let mut f = f.clone();
    let left_out: Vec<&LayerU> = u.layers.iter().filter(|l| l.dir != "glyphs" && !selected(q, &l.name, &l.written)).collect();
    for l in &left_out {
        let _ = f.layers.new_layer(&l.name);
        let _ = f.layers.get_or_create_layer(&swap_case(&l.name));
        for (gn, _, _) in &l.glyphs {
            if norad::Name::new(gn).is_ok() {
                f.default_layer_mut().insert_glyph(norad::Glyph::new(gn));
                f.default_layer_mut().insert_glyph(norad::Glyph::new(&swap_case(gn)));
            }
        }
    }
    // rename a loaded non-default layer to a name derived from a left-out layer's directory
    let loaded_nd: Option<String> = f.layers.iter().skip(1).map(|l| l.name().to_string()).find(|n| !left_out.iter().any(|l| l.name == *n || swap_case(&l.name) == *n));
    if let (Some(n), Some(l)) = (loaded_nd, left_out.first()) {
        let target = l.dir.strip_prefix("glyphs.").unwrap_or(&l.dir).replace('_', "");
        let _ = f.layers.rename_layer(&n, &target, false);
    }
    f.layers
        .iter()
        .map(|l| {
            let mut g: Vec<(String, String)> =
                l.iter().filter_map(|g| l.get_path(g.name()).map(|p| (g.name().to_string(), p.to_string_lossy().to_string()))).collect();
            g.sort();
            (l.name().to_string(), l.path().to_string_lossy().to_string(), g)
        })
        .collect()
}

pub struct Out {
    pub coq: String,   // one `(fs index, request, garbage list, removed list, observation)` per line
    pub json: String,
}

fn glist_paths(ps: &[String]) -> String {
    format!("[{}]", ps.iter().map(|p| gpath(p)).collect::<Vec<_>>().join(";"))
}

/// `c17 probe <ufo dir>`: full load and default-layer-only load of an existing directory
fn probe(dir: &Path) {
    let full = catch(|| Font::load(dir));
    println!("Font::load: {}", match &full { Ok(Ok(f)) => format!("Ok, layers {:?}", f.layers.iter().map(|l| (l.name().to_string(), l.path().to_path_buf())).collect::<Vec<_>>()), Ok(Err(e)) => format!("Err {:?}", e), Err(_) => "PANIC".into() });
    let part = catch(|| Font::load_requested_data(dir, DataRequest::none().default_layer(true)));
    println!("load_requested_data(none().default_layer(true)): {}", match &part { Ok(Ok(f)) => format!("Ok, layers {:?}", f.layers.iter().map(|l| (l.name().to_string(), l.path().to_path_buf())).collect::<Vec<_>>()), Ok(Err(e)) => format!("Err {:?}", e), Err(_) => "PANIC".into() });
}

pub fn main(a: &Args) {
    if a.extra.first().map(|s| s.as_str()) == Some("probe") {
        probe(Path::new(&a.extra[1]));
        return;
    }
    std::fs::create_dir_all(&a.out).unwrap();
    let (n_ufos, masks): (u64, Vec<u32>) = if a.thorough() { (120, (0..64).collect()) } else { (8, (0..64).collect()) };
    let replay: Option<(u64, u64)> = a.replay.as_ref().map(|rp| {
        let t = std::fs::read_to_string(rp).unwrap();
        let w: Vec<u64> = t.split_whitespace().map(|x| x.parse().unwrap()).collect();
        (w[0], w[1])
    });
    let mut fs_defs = String::new();
    let mut cases = String::new();
    let mut json = String::new();
    let mut case_no = 0u64;
    let mut row_no = 0u64;
    // the witness of F23 (corpus/C17/f23_dot_glyphs.txt) runs first, as UFO number n_ufos
    let order: Vec<u64> = std::iter::once(n_ufos).chain(0..n_ufos).collect();
    for ui in order {
        let mut r = Rng::new(a.seed.wrapping_mul(0x9E37_79B9_7F4A_7C15) ^ ui.wrapping_mul(0xD1B5_4A32_D192_ED03) ^ 0x1717);
        // most UFOs are fully valid (the theorem's premise); some have invalid parts
        let mut u = gen_ufo(&mut r, ui % 4 != 3 || ui == n_ufos);
        // some UFOs always spell the default directory differently (same path, other text)
        if ui != n_ufos && ui % 4 != 3 && ui % 3 != 0 {
            let sfx = ["/", "/.", "//"][(ui % 3) as usize % 3];
            for l in u.layers.iter_mut() {
                if l.dir == "glyphs" {
                    l.written = format!("glyphs{}", sfx);
                }
            }
        }
        if ui == n_ufos {
            for l in u.layers.iter_mut() {
                if l.dir == "glyphs" {
                    l.written = "./glyphs".into();
                }
            }
            // and a layer in a nested directory: only the last component becomes Layer::path
            u.layers.push(LayerU {
                name: "deep".into(),
                dir: "nested/glyphs.deep".into(),
                written: "nested/glyphs.deep".into(),
                glyphs: vec![("n".into(), "n.glif".into(), 77)],
                info: 78,
            });
        }
        let root = a.out.join(format!("u17_{}", ui)).join("u");
        write_ufo(&root, &u, &[], &[]);
        let full = catch(|| Font::load(&root)).ok().and_then(|x| x.ok());
        let _ = writeln!(fs_defs, "Definition m{} : lfs := list_to_map {}.", ui, gfs(&u));
        let shapes = filter_shapes(&u, &mut r);
        for shape in &shapes {
            for &mask in &masks {
                let q = Req { mask, ..shape.clone() };
                let this = case_no;
                case_no += 1;
                if let Some((_, want)) = replay {
                    if want != this {
                        continue;
                    }
                }
                // 1. the pristine tree
                write_ufo(&root, &u, &[], &[]);
                let (g1, s1, f1) = observe(&root, &q);
                // 2. every un-requested file replaced by garbage (some removed instead)
                let un = unrequested_files(&u, &q);
                let mut garbage = vec![];
                let mut removed = vec![];
                for p in &un {
                    if r.chance(1, 6) {
                        removed.push(p.clone());
                    } else {
                        garbage.push(p.clone());
                    }
                }
                // ... and whole entries of un-requested parts replaced: a directory by a plain file or
                // a link (dangling, loop, to a file), a plist by a directory or a link
                let all_files = files(&u);
                let mut entries: Vec<(String, bool)> = vec![]; // (entry, is a directory)
                for (name, bit) in [("lib.plist", 1u32), ("groups.plist", 2), ("kerning.plist", 4), ("features.fea", 8)] {
                    if mask & bit == 0 && all_files.iter().any(|(p, _)| p == name) {
                        entries.push((name.to_string(), false));
                    }
                }
                for (name, bit) in [("data", 16u32), ("images", 32)] {
                    if mask & bit == 0 && all_files.iter().any(|(p, c)| p == name && c.is_none()) {
                        entries.push((name.to_string(), true));
                    }
                }
                for l in &u.layers {
                    if !selected(&q, &l.name, &l.written) && !l.dir.contains('/') && u.layers.iter().filter(|x| x.dir == l.dir).count() == 1 {
                        entries.push((l.dir.clone(), true));
                    }
                }
                let mut dirs_made: Vec<String> = vec![];
                let mut damage: Vec<(String, Damage)> = vec![];
                for (e, is_dir) in entries {
                    if !r.chance(1, 2) {
                        continue;
                    }
                    let d = if is_dir {
                        *r.pick(&[Damage::PlainFile, Damage::Dangling, Damage::Loop, Damage::LinkToFile])
                    } else {
                        *r.pick(&[Damage::AsDirectory, Damage::Dangling, Damage::Loop])
                    };
                    let below: Vec<String> = all_files.iter().map(|(p, _)| p.clone()).filter(|p| p.starts_with(&format!("{}/", e))).collect();
                    garbage.retain(|p| *p != e && !below.contains(p));
                    removed.retain(|p| *p != e && !below.contains(p));
                    match d {
                        Damage::PlainFile | Damage::LinkToFile => {
                            garbage.push(e.clone());
                            removed.extend(below);
                        }
                        Damage::Dangling | Damage::Loop => {
                            removed.push(e.clone());
                            removed.extend(below);
                        }
                        Damage::AsDirectory => dirs_made.push(e.clone()),
                    }
                    damage.push((e, d));
                }
                write_ufo(&root, &u, &garbage, &removed);
                for (e, d) in &damage {
                    apply_damage(&root, e, *d);
                }
                let (g2, s2, f2) = observe(&root, &q);
                let mut why: Vec<String> = vec![];
                if let Some(full) = &full {
                    match &f1 {
                        None => why.push(format!("the full load succeeds but the partial load fails: {}", s1)),
                        Some(f1) => {
                            let want = restrict(full, &q, &u);
                            if *f1 != want {
                                why.push("partial load differs from the restricted full load".into());
                                if f1.layers != want.layers {
                                    why.push(format!(
                                        "layers: got {:?} want {:?}",
                                        f1.layers.iter().map(|l| (l.name().to_string(), l.len())).collect::<Vec<_>>(),
                                        want.layers.iter().map(|l| (l.name().to_string(), l.len())).collect::<Vec<_>>()
                                    ));
                                }
                            }
                            if f1.layers.default_layer().path() != Path::new("glyphs") {
                                why.push("no default layer at the front".into());
                            }
                            // the state the getters do not show: both fonts must react alike to the
                            // same edits (directories and glif names assigned afterwards)
                            let a = post_load_script(f1, &u, &q);
                            let b = post_load_script(&want, &u, &q);
                            if a != b {
                                let d: Vec<String> = a
                                    .iter()
                                    .zip(b.iter())
                                    .filter(|(x, y)| x != y)
                                    .map(|(x, y)| format!("layer {:?}: directory {} vs {}, files {:?} vs {:?}", x.0, x.1, y.1, x.2, y.2))
                                    .take(3)
                                    .collect();
                                why.push(format!(
                                    "after the same edits (layers named like the left-out ones, their glyphs inserted) the partially loaded font and the restricted full load differ: {}{}",
                                    d.join("; "),
                                    if a.len() != b.len() { " (different number of layers)" } else { "" }
                                ));
                            }
                        }
                    }
                }
                match (&f1, &f2) {
                    (Some(x), Some(y)) => {
                        if x != y || dump(x) != dump(y) {
                            why.push("corrupting un-requested files changed the result".into());
                        }
                    }
                    (Some(_), None) => why.push(format!("corrupting un-requested files made the load fail: {}", s2)),
                    (None, _) => {
                        if s1 != s2 {
                            why.push(format!("corrupting un-requested files changed the error: {} vs {}", s1, s2));
                        }
                    }
                }
                let _ = writeln!(cases, "{}\tpristine\tLCase m{} {} [] [] [] {}", row_no, ui, greq(&q), g1);
                let _ = writeln!(cases, "{}\tunrequested-corrupted\tLCase m{} {} {} {} {} {}", row_no, ui, greq(&q), glist_paths(&garbage), glist_paths(&dirs_made), glist_paths(&removed), g2);
                // 3. sometimes: one REQUESTED file damaged (model and implementation must fail alike)
                let mut s3 = String::from("-");
                if r.chance(1, 3) {
                    let req_files: Vec<String> =
                        files(&u).into_iter().filter(|(p, c)| c.is_some() && !un.contains(p)).map(|(p, _)| p).collect();
                    if !req_files.is_empty() {
                        let victim = r.pick(&req_files).clone();
                        let (gb, rm) = if r.chance(2, 3) { (vec![victim.clone()], vec![]) } else { (vec![], vec![victim.clone()]) };
                        write_ufo(&root, &u, &gb, &rm);
                        let (g3, st3, _) = observe(&root, &q);
                        s3 = format!("{} ({} {})", st3, if rm.is_empty() { "garbage in" } else { "removed" }, victim);
                        let _ = writeln!(cases, "{}\trequested-damaged\tLCase m{} {} {} [] {} {}", row_no, ui, greq(&q), glist_paths(&gb), glist_paths(&rm), g3);
                    }
                }
                row_no += 1;
                let _ = writeln!(
                    json,
                    "{{\"case\":{},\"ufo\":{},\"must_be_rejected\":{},\"mask\":{},\"shape\":{},\"pristine\":{},\"corrupted\":{},\"damaged\":{},\"entry_damage\":{},\"n_unrequested\":{},\"full_ok\":{},\"oracle_ok\":{},\"why\":{}}}",
                    this,
                    ui,
                    class_f23(&u),
                    mask,
                    json_str(shape.shape),
                    json_str(&s1),
                    json_str(&s2),
                    json_str(&s3),
                    json_str(&format!("{:?}", damage)),
                    un.len(),
                    full.is_some(),
                    why.is_empty(),
                    serde_json::to_string(&why).unwrap()
                );
                if replay.is_some() {
                    println!("ufo {}: {:?}", ui, u);
                    println!("request: mask={:06b} (lib,groups,kerning,features,data,images from the right) filter={} {:?}", mask, shape.shape, q.custom);
                    println!("pristine: {}\nwith un-requested files corrupted ({} garbage, {} removed): {}", s1, garbage.len(), removed.len(), s2);
                    println!("oracle: {}", if why.is_empty() { "ok".to_string() } else { why.join("; ") });
                }
            }
        }
        let _ = std::fs::remove_dir_all(a.out.join(format!("u17_{}", ui)));
    }
    write_file(&a.out.join("fs.txt"), &fs_defs);
    write_file(&a.out.join("cases.txt"), &cases);
    write_file(&a.out.join("oracle.jsonl"), &json);
}
