//! C04: the implementation side is shared with C05 (see c05.rs); `lib/props/c04.py` drives it.
use crate::util::Args;

pub fn main(a: &Args) {
    crate::c05::main(a)
}
