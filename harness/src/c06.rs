//! C06 / C07 (containers): histories of Layer / LayerContents operations on `Font::new()` and on
//! loaded generated fonts. After every operation the outcome and the state through the public
//! getters are written for the model run (coq/Run/C06.v), and the property oracle (C06: the
//! invariant through getters, error => unchanged, save+load exact, no panic; C07: assigned
//! paths distinct ignoring case, stable, portable) is evaluated on what norad did.
use crate::c07::{portable_clauses, DOCUMENTED_PANIC};
use crate::util::*;
use norad::{Font, Glyph, Name};
use std::collections::{BTreeMap, BTreeSet, HashSet};
use std::fmt::Write as _;
use std::path::{Path, PathBuf};

pub const NAMES: [&str; 35] = [
    "a", "A", "a_", "b", "B", "public.default", "fore", "con", "A_", ".a", "aa", "é", "", "a\u{1}",
    // non-ASCII cased letters whose lower-casing matters, in case-variant pairs: the second of
    // each pair is what the first one's file name lower-cases to
    "Äb", "ä_b", "Ä", "ä_", "É", "é_", "İ", "i\u{307}_", "\u{212A}", "k_", "ẞ", "ß_", "\u{2126}", "ω_",
    // families of names that collapse to ONE file name stem (illegal characters and a leading
    // period become '_'): second, third and fourth clashes on one stem
    "a_b", "a*b", "a?b", "a:b", ".alt", "_alt", ":alt",
];
/// indices of the valid names (12 and 13 are the invalid ones)
fn valid_index(k: usize) -> usize {
    if k < 12 {
        k
    } else {
        k + 2
    }
}
const NVALID: usize = 33;
const FAM: [usize; 7] = [28, 29, 30, 31, 32, 33, 34];
const UNI: [usize; 14] = [14, 15, 16, 17, 18, 19, 20, 21, 22, 23, 24, 25, 26, 27];
const PD: usize = 5;

fn ic(i: usize) -> char {
    if i < 10 {
        (b'0' + i as u8) as char
    } else {
        (b'a' + (i - 10) as u8) as char
    }
}

#[derive(Clone, Debug)]
pub enum Op {
    InsertGlyph(usize, usize),
    RemoveGlyph(usize, usize),
    RenameGlyph(usize, usize, usize, bool),
    ClearLayer(usize),
    RetainGlyphs(usize, Vec<usize>),
    EntryOrInsert(usize, usize, usize),
    EntryRemove(usize, usize),
    TouchGlyphs(usize),
    NewLayer(usize),
    GetOrCreateLayer(usize),
    RemoveLayer(usize),
    RenameLayer(usize, usize, bool),
    RetainLayers(Vec<usize>),
    RemoveEmptyLayers,
    SaveLoad,
}
use Op::*;

pub fn op_text(o: &Op) -> String {
    let b = |w: &bool| if *w { '1' } else { '0' };
    let ks = |k: &Vec<usize>| k.iter().map(|i| ic(*i)).collect::<String>() + ".";
    match o {
        InsertGlyph(l, g) => format!("I{}{}", ic(*l), ic(*g)),
        RemoveGlyph(l, g) => format!("R{}{}", ic(*l), ic(*g)),
        RenameGlyph(l, o, n, w) => format!("N{}{}{}{}", ic(*l), ic(*o), ic(*n), b(w)),
        ClearLayer(l) => format!("C{}", ic(*l)),
        RetainGlyphs(l, k) => format!("T{}{}", ic(*l), ks(k)),
        EntryOrInsert(l, k, g) => format!("E{}{}{}", ic(*l), ic(*k), ic(*g)),
        EntryRemove(l, k) => format!("X{}{}", ic(*l), ic(*k)),
        TouchGlyphs(l) => format!("U{}", ic(*l)),
        NewLayer(x) => format!("n{}", ic(*x)),
        GetOrCreateLayer(x) => format!("g{}", ic(*x)),
        RemoveLayer(x) => format!("r{}", ic(*x)),
        RenameLayer(o, n, w) => format!("m{}{}{}", ic(*o), ic(*n), b(w)),
        RetainLayers(k) => format!("t{}", ks(k)),
        RemoveEmptyLayers => "e".into(),
        SaveLoad => "S".into(),
    }
}

pub fn parse_ops(s: &str) -> Vec<Op> {
    let cs: Vec<char> = s.chars().collect();
    let ix = |c: char| -> usize {
        if c.is_ascii_digit() {
            c as usize - '0' as usize
        } else {
            c as usize - 'a' as usize + 10
        }
    };
    let mut i = 0;
    let mut out = Vec::new();
    let keep = |i: &mut usize| -> Vec<usize> {
        let mut v = Vec::new();
        while *i < cs.len() && cs[*i] != '.' {
            v.push(ix(cs[*i]));
            *i += 1;
        }
        *i += 1;
        v
    };
    while i < cs.len() {
        let c = cs[i];
        i += 1;
        match c {
            'I' => { out.push(InsertGlyph(ix(cs[i]), ix(cs[i + 1]))); i += 2 }
            'R' => { out.push(RemoveGlyph(ix(cs[i]), ix(cs[i + 1]))); i += 2 }
            'N' => { out.push(RenameGlyph(ix(cs[i]), ix(cs[i + 1]), ix(cs[i + 2]), cs[i + 3] == '1')); i += 4 }
            'C' => { out.push(ClearLayer(ix(cs[i]))); i += 1 }
            'T' => { let l = ix(cs[i]); i += 1; let k = keep(&mut i); out.push(RetainGlyphs(l, k)) }
            'E' => { out.push(EntryOrInsert(ix(cs[i]), ix(cs[i + 1]), ix(cs[i + 2]))); i += 3 }
            'X' => { out.push(EntryRemove(ix(cs[i]), ix(cs[i + 1]))); i += 2 }
            'U' => { out.push(TouchGlyphs(ix(cs[i]))); i += 1 }
            'n' => { out.push(NewLayer(ix(cs[i]))); i += 1 }
            'g' => { out.push(GetOrCreateLayer(ix(cs[i]))); i += 1 }
            'r' => { out.push(RemoveLayer(ix(cs[i]))); i += 1 }
            'm' => { out.push(RenameLayer(ix(cs[i]), ix(cs[i + 1]), cs[i + 2] == '1')); i += 3 }
            't' => { let k = keep(&mut i); out.push(RetainLayers(k)) }
            'e' => out.push(RemoveEmptyLayers),
            'S' => out.push(SaveLoad),
            _ => break,
        }
    }
    out
}

fn panic_code(msg: &str) -> String {
    if msg.contains(DOCUMENTED_PANIC) {
        "P1".into()
    } else if msg.contains("is_valid") {
        "P3".into()
    } else if msg.contains("all glyphs in contents must exist") {
        "P4".into()
    } else {
        "P9".into()
    }
}

fn err_code(e: &norad::error::NamingError) -> &'static str {
    use norad::error::NamingError::*;
    match e {
        Duplicate(_) => "D",
        Missing(_) => "M",
        Invalid(_) => "V",
        ReservedName => "Z",
        _ => "?",
    }
}

static TMP_COUNTER: std::sync::atomic::AtomicU64 = std::sync::atomic::AtomicU64::new(0);
fn fresh_dir(base: &Path) -> PathBuf {
    let n = TMP_COUNTER.fetch_add(1, std::sync::atomic::Ordering::Relaxed);
    base.join(format!("ufo{}", n))
}

/// save + load; Ok(font) / Err(code)
fn save_load(font: &Font, tmp: &Path) -> Result<Font, String> {
    let dir = fresh_dir(tmp);
    let r = catch(|| font.save(&dir));
    let res = match r {
        Err(m) => Err(panic_code(&m)),
        Ok(Err(_)) => Err("W".to_string()),
        Ok(Ok(())) => match catch(|| Font::load(&dir)) {
            Err(m) => Err(panic_code(&m)),
            Ok(Err(_)) => Err("Y".to_string()),
            Ok(Ok(f)) => Ok(f),
        },
    };
    let _ = std::fs::remove_dir_all(&dir);
    res
}

/// apply one operation; returns the outcome code. `eff_raw` is set when a raw entry access
/// changed the glyph map (the known class "entry-raw").
pub fn apply(font: &mut Font, op: &Op, tmp: &Path, eff_raw: &mut bool) -> String {
    let nm = |i: &usize| NAMES[*i];
    let r = catch(|| -> String {
        match op {
            InsertGlyph(l, g) => {
                let glyph = Glyph::new(nm(g));
                match font.layers.get_mut(nm(l)) {
                    None => "L".into(),
                    Some(layer) => {
                        layer.insert_glyph(glyph);
                        "k".into()
                    }
                }
            }
            RemoveGlyph(l, g) => match font.layers.get_mut(nm(l)) {
                None => "L".into(),
                Some(layer) => match layer.remove_glyph(nm(g)) {
                    Some(_) => "s".into(),
                    None => "n".into(),
                },
            },
            RenameGlyph(l, o, n, w) => match font.layers.get_mut(nm(l)) {
                None => "L".into(),
                Some(layer) => match layer.rename_glyph(nm(o), nm(n), *w) {
                    Ok(()) => "k".into(),
                    Err(e) => err_code(&e).into(),
                },
            },
            ClearLayer(l) => match font.layers.get_mut(nm(l)) {
                None => "L".into(),
                Some(layer) => {
                    layer.clear();
                    "k".into()
                }
            },
            RetainGlyphs(l, k) => match font.layers.get_mut(nm(l)) {
                None => "L".into(),
                Some(layer) => {
                    let keep: Vec<&str> = k.iter().map(|i| NAMES[*i]).collect();
                    layer.retain(|name, _| keep.contains(&name.as_str()));
                    "k".into()
                }
            },
            EntryOrInsert(l, k, g) => match Name::new(nm(k)) {
                Err(_) => "V".into(),
                Ok(key) => {
                    let glyph = Glyph::new(nm(g));
                    match font.layers.get_mut(nm(l)) {
                        None => "L".into(),
                        Some(layer) => {
                            if !layer.contains_glyph(nm(k)) {
                                *eff_raw = true;
                            }
                            layer.entry(key).or_insert(glyph);
                            "k".into()
                        }
                    }
                }
            },
            EntryRemove(l, k) => match font.layers.get_mut(nm(l)) {
                None => "L".into(),
                Some(layer) => {
                    if let Ok(key) = Name::new(nm(k)) {
                        if let std::collections::btree_map::Entry::Occupied(e) = layer.entry(key) {
                            *eff_raw = true;
                            e.remove();
                        }
                    }
                    "k".into()
                }
            },
            TouchGlyphs(l) => match font.layers.get_mut(nm(l)) {
                None => "L".into(),
                Some(layer) => {
                    for g in layer.iter_mut() {
                        g.width += 1.0;
                    }
                    for n in NAMES {
                        if let Some(g) = layer.get_glyph_mut(n) {
                            g.height += 1.0;
                        }
                    }
                    "k".into()
                }
            },
            NewLayer(x) => match font.layers.new_layer(nm(x)) {
                Ok(_) => "k".into(),
                Err(e) => err_code(&e).into(),
            },
            GetOrCreateLayer(x) => match font.layers.get_or_create_layer(nm(x)) {
                Ok(_) => "k".into(),
                Err(e) => err_code(&e).into(),
            },
            RemoveLayer(x) => match font.layers.remove(nm(x)) {
                Some(_) => "s".into(),
                None => "n".into(),
            },
            RenameLayer(o, n, w) => match font.layers.rename_layer(nm(o), nm(n), *w) {
                Ok(()) => "k".into(),
                Err(e) => err_code(&e).into(),
            },
            RetainLayers(k) => {
                let keep: Vec<&str> = k.iter().map(|i| NAMES[*i]).collect();
                font.layers.retain(|l| keep.contains(&l.name().as_str()));
                "k".into()
            }
            RemoveEmptyLayers => {
                font.layers.remove_empty_layers();
                "k".into()
            }
            SaveLoad => match save_load(font, tmp) {
                Ok(f) => {
                    *font = f;
                    "k".into()
                }
                Err(code) => code,
            },
        }
    });
    match r {
        Ok(c) => c,
        Err(m) => panic_code(&m),
    }
}

fn name_text(n: &str) -> String {
    match NAMES.iter().position(|x| *x == n) {
        Some(i) => ic(i).to_string(),
        None => format!("?{}", n),
    }
}

/// the state through the public getters, probed over the name table
pub fn dump(font: &Font) -> String {
    let mut s = String::new();
    for layer in font.layers.iter() {
        s.push_str(&name_text(layer.name()));
        s.push(':');
        s.push_str(&layer.path().to_string_lossy());
        s.push(':');
        let mut present = 0;
        for (i, n) in NAMES.iter().enumerate() {
            let g = layer.get_glyph(n);
            let p = layer.get_path(n);
            if g.is_none() && p.is_none() {
                continue;
            }
            s.push(ic(i));
            match g {
                Some(g) => {
                    present += 1;
                    s.push_str(&name_text(g.name()))
                }
                None => s.push('-'),
            }
            s.push('=');
            match p {
                Some(p) => s.push_str(&p.to_string_lossy()),
                None => s.push('-'),
            }
            s.push(',');
        }
        if present != layer.len() {
            let _ = write!(s, "!{}", layer.len());
        }
        s.push(';');
    }
    s
}

type Report = Vec<(String, String, BTreeSet<String>, BTreeMap<String, String>)>;
fn report(font: &Font) -> Report {
    font.layers
        .iter()
        .map(|l| {
            let glyphs: BTreeSet<String> = l.iter().map(|g| g.name().to_string()).collect();
            let mut paths = BTreeMap::new();
            for g in &glyphs {
                if let Some(p) = l.get_path(g) {
                    paths.insert(g.clone(), p.to_string_lossy().to_string());
                }
            }
            (l.name().to_string(), l.path().to_string_lossy().to_string(), glyphs, paths)
        })
        .collect()
}

/// C06: the invariant, through public getters. Returns failed clauses.
fn inv_clauses(font: &Font) -> Vec<String> {
    let mut bad = Vec::new();
    let layers: Vec<_> = font.layers.iter().collect();
    let mut seen = HashSet::new();
    for l in &layers {
        if !seen.insert(l.name().to_string()) {
            bad.push(format!("layer name {:?} occurs twice", l.name().as_str()));
        }
    }
    let ndefault = layers.iter().filter(|l| l.path() == Path::new("glyphs")).count();
    if ndefault != 1 {
        bad.push(format!("{} layers live in directory 'glyphs'", ndefault));
    }
    if layers.first().map(|l| l.path() == Path::new("glyphs")) != Some(true) {
        bad.push("the first layer is not the default layer".into());
    }
    if layers.is_empty() {
        bad.push("the font has no layer at all".into());
        return bad;
    }
    match catch(|| font.layers.default_layer().path() == Path::new("glyphs")) {
        Ok(true) => {}
        Ok(false) => bad.push("default_layer() is not in 'glyphs'".into()),
        Err(_) => bad.push("default_layer() panics".into()),
    }
    for (i, l) in layers.iter().enumerate() {
        if i > 0 && l.name().as_str() == "public.default" {
            bad.push("a non-default layer is called public.default".into());
        }
        let mut names = HashSet::new();
        let mut count = 0;
        for g in l.iter() {
            count += 1;
            if !names.insert(g.name().to_string()) {
                bad.push(format!("glyph name {:?} occurs twice in layer {:?}", g.name().as_str(), l.name().as_str()));
            }
            match l.get_glyph(g.name()) {
                Some(h) if h.name() == g.name() => {}
                _ => bad.push(format!("glyph {:?} is not stored under its own name", g.name().as_str())),
            }
            if l.get_path(g.name()).is_none() {
                bad.push(format!("glyph {:?} has no file name", g.name().as_str()));
            }
        }
        if count != l.len() {
            bad.push("len() differs from the number of glyphs".into());
        }
        for n in NAMES {
            if l.get_path(n).is_some() && !l.contains_glyph(n) {
                bad.push(format!("file name recorded for {:?} which is not in the layer", n));
            }
        }
    }
    bad
}

/// C07 at container level: distinct ignoring case
fn distinct_clauses(font: &Font) -> Vec<String> {
    let mut bad = Vec::new();
    let mut dirs = HashSet::new();
    for l in font.layers.iter() {
        if !dirs.insert(l.path().to_string_lossy().to_lowercase()) {
            bad.push(format!("layer directory {:?} is used twice (ignoring case)", l.path()));
        }
        let mut files = HashSet::new();
        for g in l.iter() {
            if let Some(p) = l.get_path(g.name()) {
                if !files.insert(p.to_string_lossy().to_lowercase()) {
                    bad.push(format!("file name {:?} is used twice (ignoring case) in layer {:?}", p, l.name().as_str()));
                }
            }
        }
    }
    bad
}

fn touches_layer(op: &Op, ln: &str) -> bool {
    match op {
        RemoveLayer(x) => NAMES[*x] == ln,
        RenameLayer(o, n, _) => NAMES[*o] == ln || NAMES[*n] == ln,
        RetainLayers(k) => !k.iter().any(|i| NAMES[*i] == ln),
        RemoveEmptyLayers => true,
        _ => false,
    }
}
fn touches_glyph(op: &Op, ln: &str, g: &str) -> bool {
    match op {
        RemoveGlyph(l, x) => NAMES[*l] == ln && NAMES[*x] == g,
        RenameGlyph(l, o, n, _) => NAMES[*l] == ln && (NAMES[*o] == g || NAMES[*n] == g),
        ClearLayer(l) => NAMES[*l] == ln,
        RetainGlyphs(l, k) => NAMES[*l] == ln && !k.iter().any(|i| NAMES[*i] == g),
        _ => touches_layer(op, ln),
    }
}

pub struct Hist {
    pub start: String,
    pub start_wf: bool,
    pub start_case_clash: bool,
    pub font: Font,
    pub eff_raw: bool,
    pub initial_paths: HashSet<String>,
    pub ops: String,
}

#[derive(Default)]
pub struct Sink {
    pub oracle: String,
    pub failures: u64,
    pub steps: u64,
    pub saveloads: u64,
    pub outs: BTreeMap<String, u64>,
    pub known_hits: BTreeMap<String, u64>,
}

impl Hist {
    fn class(&self) -> &'static str {
        if self.eff_raw {
            "entry-raw"
        } else if self.start_case_clash {
            "load-case-clash"
        } else {
            ""
        }
    }
    fn fail(&self, sink: &mut Sink, what: Vec<String>, step_op: &str) {
        if what.is_empty() {
            return;
        }
        sink.failures += 1;
        if sink.failures > 4000 && !self.class().is_empty() {
            *sink.known_hits.entry(self.class().to_string()).or_insert(0) += 1;
            return;
        }
        let _ = writeln!(
            sink.oracle,
            "{}",
            serde_json::json!({"start": self.start, "ops": self.ops, "at": step_op, "failed": what, "class": self.class()})
        );
    }
    /// apply `op`, evaluate the per-step oracle, return (outcome code, dump)
    pub fn step(&mut self, op: &Op, tmp: &Path, sink: &mut Sink) -> (String, String) {
        let before_dump = dump(&self.font);
        let before = report(&self.font);
        let t = op_text(op);
        self.ops.push_str(&t);
        let code = apply(&mut self.font, op, tmp, &mut self.eff_raw);
        sink.steps += 1;
        *sink.outs.entry(code.clone()).or_insert(0) += 1;
        let after_dump = dump(&self.font);
        let mut bad = Vec::new();
        if code.starts_with('P') {
            bad.push(format!("C06: panic ({})", code));
            self.fail(sink, bad, &t);
            return (code, after_dump);
        }
        let is_err = matches!(code.as_str(), "D" | "M" | "V" | "Z" | "W" | "Y");
        if is_err && before_dump != after_dump {
            bad.push("C06: an operation that reported an error changed the container".into());
        }
        if matches!(op, SaveLoad) {
            sink.saveloads += 1;
            if code != "k" {
                bad.push(format!("C06: save + load failed ({})", code));
            } else if report(&self.font) != before {
                bad.push("C06: save + load does not yield exactly the layers and glyphs the containers reported".into());
            }
        }
        bad.extend(inv_clauses(&self.font).into_iter().map(|c| format!("C06: {}", c)));
        bad.extend(distinct_clauses(&self.font).into_iter().map(|c| format!("C07: {}", c)));
        // stability and portability of assigned names
        let after = report(&self.font);
        for (ln, dir, _, paths) in &before {
            if let Some((_, dir2, _, paths2)) = after.iter().find(|x| &x.0 == ln) {
                if !touches_layer(op, ln) && dir != dir2 {
                    bad.push(format!("C07: layer {:?} stayed but its directory changed {:?} -> {:?}", ln, dir, dir2));
                }
                for (g, p) in paths {
                    if let Some(p2) = paths2.get(g) {
                        if !touches_glyph(op, ln, g) && p != p2 {
                            bad.push(format!("C07: glyph {:?} stayed in layer {:?} but its file name changed {:?} -> {:?}", g, ln, p, p2));
                        }
                    }
                }
            }
        }
        for (i, (_, dir, _, paths)) in after.iter().enumerate() {
            if i > 0 && !self.initial_paths.contains(dir) {
                for c in portable_clauses(dir, 'l') {
                    bad.push(format!("C07: layer directory {:?}: {}", dir, c));
                }
            }
            for p in paths.values() {
                if !self.initial_paths.contains(p) {
                    for c in portable_clauses(p, 'g') {
                        bad.push(format!("C07: file name {:?}: {}", p, c));
                    }
                }
            }
        }
        self.fail(sink, bad, &t);
        (code, after_dump)
    }
    /// the clauses that speak about a state, on the start state (matters for loaded fonts)
    pub fn check_start(&self, sink: &mut Sink) {
        let mut bad: Vec<String> = inv_clauses(&self.font).into_iter().map(|c| format!("C06: {}", c)).collect();
        bad.extend(distinct_clauses(&self.font).into_iter().map(|c| format!("C07: {}", c)));
        self.fail(sink, bad, "(start)");
    }
    /// end of a history: saving and loading yields exactly what the containers report
    pub fn final_check(&self, tmp: &Path, sink: &mut Sink) {
        sink.saveloads += 1;
        let before = report(&self.font);
        let mut bad = Vec::new();
        match save_load(&self.font, tmp) {
            Ok(f) => {
                if report(&f) != before {
                    bad.push("C06: save + load at the end does not yield exactly the layers and glyphs the containers report".to_string());
                }
            }
            Err(code) => bad.push(format!("C06: save + load at the end failed ({})", code)),
        }
        self.fail(sink, bad, "(end)");
    }
}

fn xml_escape(s: &str) -> String {
    s.replace('&', "&amp;").replace('<', "&lt;").replace('>', "&gt;")
}

/// disk text -> UFO tree -> Font::load
fn parse_disk(text: &str) -> Vec<(usize, String, Vec<(usize, String)>)> {
    let mut v = Vec::new();
    for l in text.split(';').filter(|x| !x.is_empty()) {
        if l.matches(':').count() < 2 {
            continue;
        }
        let parts: Vec<&str> = l.splitn(3, ':').collect();
        let ni = parse_ops(&format!("C{}", parts[0]));
        let ni = match &ni[0] {
            ClearLayer(i) => *i,
            _ => 0,
        };
        let mut gs = Vec::new();
        for e in parts[2].split(',').filter(|x| !x.is_empty()) {
            let (g, f) = e.split_once('=').unwrap();
            let gi = match &parse_ops(&format!("C{}", g))[0] {
                ClearLayer(i) => *i,
                _ => 0,
            };
            gs.push((gi, f.to_string()));
        }
        v.push((ni, parts[1].to_string(), gs));
    }
    v
}

pub fn start_font(start: &str, tmp: &Path) -> Option<(Font, HashSet<String>)> {
    if start == "N" {
        return Some((Font::new(), HashSet::new()));
    }
    let d = parse_disk(start);
    let dir = fresh_dir(tmp);
    std::fs::create_dir_all(&dir).ok()?;
    let plist_head = "<?xml version=\"1.0\" encoding=\"UTF-8\"?>\n<!DOCTYPE plist PUBLIC \"-//Apple//DTD PLIST 1.0//EN\" \"http://www.apple.com/DTDs/PropertyList-1.0.dtd\">\n<plist version=\"1.0\">\n";
    write_file(&dir.join("metainfo.plist"), &format!("{}<dict>\n<key>creator</key>\n<string>org.verif</string>\n<key>formatVersion</key>\n<integer>3</integer>\n</dict>\n</plist>\n", plist_head));
    let mut lc = format!("{}<array>\n", plist_head);
    let mut initial = HashSet::new();
    for (ni, ldir, gs) in &d {
        let _ = write!(lc, "<array>\n<string>{}</string>\n<string>{}</string>\n</array>\n", xml_escape(NAMES[*ni]), xml_escape(ldir));
        initial.insert(ldir.clone());
        let ld = dir.join(ldir);
        let _ = std::fs::create_dir_all(&ld);
        let mut c = format!("{}<dict>\n", plist_head);
        for (gi, f) in gs {
            let _ = write!(c, "<key>{}</key>\n<string>{}</string>\n", xml_escape(NAMES[*gi]), xml_escape(f));
            initial.insert(f.clone());
            write_file(&ld.join(f), &format!("<?xml version=\"1.0\" encoding=\"UTF-8\"?>\n<glyph name=\"{}\" format=\"2\">\n</glyph>\n", xml_escape(NAMES[*gi])));
        }
        c.push_str("</dict>\n</plist>\n");
        write_file(&ld.join("contents.plist"), &c);
    }
    lc.push_str("</array>\n</plist>\n");
    write_file(&dir.join("layercontents.plist"), &lc);
    let r = catch(|| Font::load(&dir));
    let _ = std::fs::remove_dir_all(&dir);
    match r {
        Ok(Ok(f)) => Some((f, initial)),
        _ => None,
    }
}

/// (text, well-formed?)
/// (text, loads and is well formed?, unused). The first NLOAD trees load; all others must be
/// refused by the checks at load — should one of them load, every oracle failure counts.
pub const NLOAD: usize = 7;
pub const STARTS: [(&str, bool, bool); 20] = [
    ("N", true, false),
    ("6:glyphs:0=a.glif,1=A_.glif,;3:glyphs.b:0=a.glif,;", true, false),
    ("0:glyphs.a:1=x.glif,2=X_.glif,;5:glyphs:3=b.glif,;1:glyphs.A_:;", true, false),
    ("5:glyphs:;3:glyphs.A_:0=a.glif,;", true, false),
    // default layer in the middle / last / first, three or four layers whose directories collide
    // (ignoring case) with what new_layer / rename_layer would assign for the names a, A, a_, aa
    ("3:glyphs.a:;5:glyphs:;4:glyphs.A_:;", true, false),
    ("3:glyphs.a:;4:glyphs.A_:;0:glyphs.aa:;5:glyphs:;", true, false),
    ("5:glyphs:;3:glyphs.a:;4:glyphs.a_:;", true, false),
    // refused: duplicate layer name, duplicate directory, non-default public.default, two defaults
    ("5:glyphs:;0:glyphs.a:;0:glyphs.b:;", false, false),
    ("5:glyphs:;0:glyphs.a:;1:glyphs.a:;", false, false),
    ("0:glyphs:;5:glyphs.x:;", false, false),
    ("5:glyphs:;0:glyphs:;", false, false),
    // refused since f6784f0: directories / file names equal ignoring case
    ("5:glyphs:;0:glyphs.a:;1:glyphs.A:;", false, false),
    ("5:glyphs:0=x.glif,1=X.glif,;", false, false),
    ("5:glyphs:;3:glyphs.A_:;4:glyphs.a_:;", false, false),
    ("5:glyphs:;0:Glyphs:;", false, false),
    // refused: directories / file names that are not plain, exact duplicates
    ("5:glyphs:;0:..:;", false, false),
    ("5:glyphs:;0:sub/x:;", false, false),
    ("5:glyphs:;0:.:;", false, false),
    ("5:glyphs:0=../a.glif,;", false, false),
    ("5:glyphs:0=a.glif,1=a.glif,;", false, false),
];

fn new_hist(start: &str, wf: bool, tmp: &Path) -> Option<Hist> {
    let (font, initial) = start_font(start, tmp)?;
    let clash = STARTS.iter().find(|(s, _, _)| *s == start).map(|(_, _, c)| *c).unwrap_or(false);
    Some(Hist { start: start.to_string(), start_wf: wf, start_case_clash: clash, font, eff_raw: false, initial_paths: initial, ops: String::new() })
}

fn clone_hist(h: &Hist) -> Hist {
    Hist {
        start: h.start.clone(),
        start_wf: h.start_wf,
        start_case_clash: h.start_case_clash,
        font: h.font.clone(),
        eff_raw: h.eff_raw,
        initial_paths: h.initial_paths.clone(),
        ops: h.ops.clone(),
    }
}

/// depth-first enumeration; one line per node: outcome "|" (dump or "=" when unchanged)
fn trie(h: &Hist, alphabet: &[Op], depth: usize, prev: &str, tmp: &Path, sink: &mut Sink, lines: &mut String, idx: &mut String, final_every: bool) {
    if depth == 0 {
        return;
    }
    for op in alphabet {
        let mut c = clone_hist(h);
        let (code, d) = c.step(op, tmp, sink);
        let _ = writeln!(lines, "{}|{}", code, if d == prev { "=" } else { d.as_str() });
        let _ = writeln!(idx, "{}", c.ops);
        if code.starts_with('P') {
            continue;
        }
        if final_every && d != prev {
            c.final_check(tmp, sink);
        }
        trie(&c, alphabet, depth - 1, &d, tmp, sink, lines, idx, final_every);
    }
}

struct TrieSpec {
    id: String,
    start: usize,
    alphabet: Vec<Op>,
    depth: usize,
    /// how many leading operations are fixed per shard
    split: usize,
}

fn glyph_alphabet_small() -> Vec<Op> {
    let l = PD;
    vec![
        InsertGlyph(l, 1),
        InsertGlyph(l, 2),
        InsertGlyph(l, 0),
        RemoveGlyph(l, 1),
        RemoveGlyph(l, 2),
        RenameGlyph(l, 1, 2, false),
        RenameGlyph(l, 1, 2, true),
        RenameGlyph(l, 2, 1, true),
        ClearLayer(l),
        RetainGlyphs(l, vec![2]),
    ]
}
fn glyph_alphabet_wide() -> Vec<Op> {
    let l = PD;
    let mut v = glyph_alphabet_small();
    v.extend(vec![
        SaveLoad,
        RenameGlyph(l, 1, 1, true),
        RenameGlyph(l, 0, 1, false),
        RenameGlyph(l, 0, 12, false),
        RenameGlyph(l, 1, 13, true),
        RenameGlyph(l, 12, 0, false),
        RetainGlyphs(l, vec![]),
        RetainGlyphs(l, vec![1, 0]),
        EntryOrInsert(l, 2, 2),
        EntryOrInsert(l, 0, 1),
        EntryRemove(l, 1),
        EntryRemove(l, 2),
        TouchGlyphs(l),
        InsertGlyph(0, 1),
    ]);
    v
}
fn layer_alphabet_small() -> Vec<Op> {
    vec![
        NewLayer(1),
        NewLayer(2),
        NewLayer(0),
        RemoveLayer(1),
        RemoveLayer(2),
        RenameLayer(1, 2, false),
        RenameLayer(1, 2, true),
        RenameLayer(2, 1, true),
        RenameLayer(PD, 0, false),
        RenameLayer(1, PD, true),
    ]
}
fn layer_alphabet_wide() -> Vec<Op> {
    let mut v = layer_alphabet_small();
    v.extend(vec![
        SaveLoad,
        GetOrCreateLayer(1),
        NewLayer(PD),
        NewLayer(12),
        NewLayer(13),
        RemoveLayer(PD),
        RenameLayer(1, 1, true),
        RenameLayer(1, PD, false),
        RenameLayer(0, PD, true),
        RenameLayer(1, 0, true),
        RenameLayer(1, 12, false),
        RenameLayer(3, 1, false),
        RetainLayers(vec![]),
        RemoveEmptyLayers,
        InsertGlyph(1, 0),
    ]);
    v
}
fn mixed_alphabet() -> Vec<Op> {
    let mut v = Vec::new();
    for l in [PD, 6, 0, 1, 3] {
        v.extend(vec![
            InsertGlyph(l, 1),
            InsertGlyph(l, 2),
            RemoveGlyph(l, 0),
            RenameGlyph(l, 0, 1, true),
            RenameGlyph(l, 1, 8, false),
            ClearLayer(l),
            RetainGlyphs(l, vec![0]),
            EntryOrInsert(l, 3, 3),
            EntryRemove(l, 0),
        ]);
    }
    v.extend(vec![
        NewLayer(1),
        NewLayer(8),
        NewLayer(0),
        NewLayer(3),
        NewLayer(2),
        NewLayer(10),
        RenameLayer(4, 0, false),
        RenameLayer(3, 1, false),
        RenameLayer(0, 2, true),
        GetOrCreateLayer(4),
        RemoveLayer(0),
        RemoveLayer(3),
        RenameLayer(6, PD, false),
        RenameLayer(6, 0, true),
        RenameLayer(0, 1, false),
        RenameLayer(3, 1, true),
        RenameLayer(0, 6, true),
        RenameLayer(1, 8, false),
        RetainLayers(vec![0]),
        RemoveEmptyLayers,
        SaveLoad,
    ]);
    v
}

/// glyph-level operations with non-ASCII cased names (file names that differ only by case
/// under full Unicode lower-casing)
fn glyph_alphabet_unicode() -> Vec<Op> {
    let l = PD;
    let mut v = vec![
        InsertGlyph(l, 14),
        InsertGlyph(l, 15),
        InsertGlyph(l, 16),
        InsertGlyph(l, 17),
        InsertGlyph(l, 20),
        InsertGlyph(l, 21),
        InsertGlyph(l, 22),
        InsertGlyph(l, 23),
        InsertGlyph(l, 24),
        InsertGlyph(l, 25),
        RemoveGlyph(l, 14),
        RemoveGlyph(l, 16),
        RenameGlyph(l, 14, 15, false),
        RenameGlyph(l, 14, 15, true),
        RenameGlyph(l, 15, 14, true),
        RenameGlyph(l, 16, 21, false),
        ClearLayer(l),
        RetainGlyphs(l, UNI.to_vec()),
        RetainGlyphs(l, vec![15, 17, 20]),
        RetainGlyphs(l, vec![]),
        SaveLoad,
    ];
    v.push(InsertGlyph(l, 19));
    v
}
/// names that collapse to one file name stem: glyph level and layer level
fn glyph_alphabet_collapse() -> Vec<Op> {
    let l = PD;
    vec![
        InsertGlyph(l, 28),
        InsertGlyph(l, 29),
        InsertGlyph(l, 30),
        InsertGlyph(l, 31),
        InsertGlyph(l, 32),
        InsertGlyph(l, 33),
        InsertGlyph(l, 34),
        RemoveGlyph(l, 28),
        RemoveGlyph(l, 29),
        RemoveGlyph(l, 33),
        RenameGlyph(l, 28, 29, false),
        RenameGlyph(l, 28, 29, true),
        RenameGlyph(l, 29, 30, true),
        RenameGlyph(l, 30, 28, true),
        RenameGlyph(l, 31, 30, false),
        RenameGlyph(l, 32, 34, false),
        RenameGlyph(l, 33, 32, true),
        ClearLayer(l),
        RetainGlyphs(l, vec![29, 30, 34]),
        RetainGlyphs(l, FAM.to_vec()),
        SaveLoad,
    ]
}
fn layer_alphabet_collapse() -> Vec<Op> {
    vec![
        NewLayer(28),
        NewLayer(29),
        NewLayer(30),
        NewLayer(31),
        NewLayer(33),
        NewLayer(34),
        RemoveLayer(28),
        RemoveLayer(29),
        RenameLayer(28, 29, false),
        RenameLayer(28, 29, true),
        RenameLayer(29, 30, true),
        RenameLayer(30, 28, true),
        RenameLayer(31, 30, false),
        RenameLayer(33, 34, false),
        RenameLayer(PD, 31, false),
        RetainLayers(vec![29, 30]),
        RetainLayers(FAM.to_vec()),
        RemoveEmptyLayers,
        InsertGlyph(29, 28),
        SaveLoad,
    ]
}

fn layer_alphabet_unicode() -> Vec<Op> {
    vec![
        NewLayer(14),
        NewLayer(15),
        NewLayer(16),
        NewLayer(17),
        NewLayer(20),
        NewLayer(21),
        NewLayer(22),
        NewLayer(23),
        NewLayer(26),
        NewLayer(27),
        RemoveLayer(14),
        RemoveLayer(16),
        RenameLayer(14, 15, false),
        RenameLayer(14, 15, true),
        RenameLayer(16, 17, true),
        RenameLayer(17, 16, true),
        RenameLayer(PD, 20, false),
        RetainLayers(UNI.to_vec()),
        RetainLayers(vec![15, 17]),
        RemoveEmptyLayers,
        InsertGlyph(14, 16),
        SaveLoad,
    ]
}

fn random_op(rng: &mut Rng) -> Op {
    let layer_pool = [PD, PD, PD, PD, PD, 6, 0, 1, 2, 3, 8, 14, 16, 28, 29];
    let l = *rng.pick(&layer_pool);
    let vname = |rng: &mut Rng| valid_index(rng.below(NVALID as u64) as usize);
    let any = |rng: &mut Rng| if rng.chance(1, 12) { 12 + rng.below(2) as usize } else { valid_index(rng.below(NVALID as u64) as usize) };
    let few = |rng: &mut Rng| match rng.below(4) {
        0 => [14usize, 15, 16, 17, 20, 21, 22, 23][rng.below(8) as usize],
        1 => FAM[rng.below(7) as usize],
        _ => [0usize, 1, 2, 8, 3][rng.below(5) as usize],
    };
    let keep = |rng: &mut Rng| (0..NVALID).map(valid_index).filter(|_| rng.chance(1, 2)).collect::<Vec<_>>();
    match rng.below(100) {
        0..=24 => InsertGlyph(l, if rng.chance(2, 3) { few(rng) } else { vname(rng) }),
        25..=32 => RemoveGlyph(l, few(rng)),
        33..=46 => RenameGlyph(l, few(rng), if rng.chance(2, 3) { few(rng) } else { any(rng) }, rng.chance(1, 2)),
        47..=48 => ClearLayer(l),
        49..=52 => RetainGlyphs(l, keep(rng)),
        53..=54 => EntryOrInsert(l, any(rng), vname(rng)),
        55 => EntryRemove(l, few(rng)),
        56..=57 => TouchGlyphs(l),
        58..=69 => NewLayer(if rng.chance(2, 3) { few(rng) } else { any(rng) }),
        70..=73 => GetOrCreateLayer(any(rng)),
        74..=79 => RemoveLayer(if rng.chance(2, 3) { few(rng) } else { any(rng) }),
        80..=91 => {
            let pool = [PD, 6, 0, 1, 2, 3, 8];
            let o = if rng.chance(3, 4) { *rng.pick(&pool) } else { any(rng) };
            let n = if rng.chance(3, 4) { *rng.pick(&pool) } else { any(rng) };
            RenameLayer(o, n, rng.chance(1, 2))
        }
        92..=93 => RetainLayers(keep(rng)),
        94 => RemoveEmptyLayers,
        _ => SaveLoad,
    }
}

pub fn main(a: &Args) {
    if let Some(p) = &a.replay {
        replay(p, &a.out);
        return;
    }
    let light = a.extra.iter().any(|x| x == "--light");
    let tmp = a.out.join("tmp");
    std::fs::create_dir_all(&tmp).unwrap();
    let mut rng = Rng::new(a.seed);
    let mut sink = Sink::default();
    let mut shards: Vec<serde_json::Value> = Vec::new();
    let deep = if a.thorough() { 5 } else { 4 };
    let mut specs = vec![
        TrieSpec { id: "G".to_string(), start: 0, alphabet: glyph_alphabet_small(), depth: deep, split: 2 },
        TrieSpec { id: "L".to_string(), start: 0, alphabet: layer_alphabet_small(), depth: deep, split: 2 },
        TrieSpec { id: "Gw".to_string(), start: 0, alphabet: glyph_alphabet_wide(), depth: 3, split: 1 },
        TrieSpec { id: "Lw".to_string(), start: 0, alphabet: layer_alphabet_wide(), depth: 3, split: 1 },
        TrieSpec { id: "Gu".to_string(), start: 0, alphabet: glyph_alphabet_unicode(), depth: 3, split: 1 },
        TrieSpec { id: "Lu".to_string(), start: 0, alphabet: layer_alphabet_unicode(), depth: 3, split: 1 },
        TrieSpec { id: "Gc".to_string(), start: 0, alphabet: glyph_alphabet_collapse(), depth: 3, split: 1 },
        TrieSpec { id: "Lc".to_string(), start: 0, alphabet: layer_alphabet_collapse(), depth: 3, split: 1 },
    ];
    for s in 0..STARTS.len() {
        specs.push(TrieSpec { id: format!("M{}", s), start: s, alphabet: mixed_alphabet(), depth: if s < NLOAD { 2 } else { 1 }, split: if s < NLOAD { 1 } else { 0 } });
    }
    if light {
        // C07's container part: well-formed starts, no raw entry access (those belong to C06)
        specs.retain(|s| s.id == "M0" || s.id == "M2" || s.id == "M4" || s.id == "M5" || s.id == "Gu" || s.id == "Gc");
        for s in specs.iter_mut() {
            s.alphabet.retain(|o| !matches!(o, EntryOrInsert(..) | EntryRemove(..)));
        }
    }
    let mut nodes = 0u64;
    // which start trees load at all (the model must agree)
    let starts: Vec<serde_json::Value> = STARTS
        .iter()
        .map(|(t, wf, clash)| serde_json::json!({"start": t, "well_formed": wf, "case_clash": clash, "loads": start_font(t, &tmp).is_some()}))
        .collect();
    let tries: Vec<serde_json::Value> = specs
        .iter()
        .map(|s| serde_json::json!({"id": s.id, "start": STARTS[s.start].0, "well_formed_start": STARTS[s.start].1,
            "operations_in_alphabet": s.alphabet.len(), "max_length": s.depth,
            "alphabet": s.alphabet.iter().map(op_text).collect::<Vec<_>>().join(" ")}))
        .collect();
    for spec in &specs {
        let (start, wf, _) = STARTS[spec.start];
        let root = match new_hist(start, wf, &tmp) {
            Some(h) => h,
            None => continue,
        };
        root.check_start(&mut sink);
        let alpha_text: String = spec.alphabet.iter().map(op_text).collect();
        // the top of the trie (depth = split) and one shard per prefix of length `split`
        let mut prefixes: Vec<Vec<usize>> = vec![vec![]];
        for _ in 0..spec.split {
            prefixes = prefixes.iter().flat_map(|p| (0..spec.alphabet.len()).map(move |i| { let mut q = p.clone(); q.push(i); q })).collect();
        }
        let mut jobs: Vec<(String, Vec<usize>, usize)> = Vec::new();
        if spec.split > 0 {
            jobs.push((format!("{}_top", spec.id), vec![], spec.split));
        }
        for p in prefixes {
            let tag: String = p.iter().map(|i| ic(*i)).collect();
            jobs.push((format!("{}_{}", spec.id, if tag.is_empty() { "all".to_string() } else { tag }), p, spec.depth - spec.split));
        }
        for (sid, prefix, depth) in jobs {
            let mut h = clone_hist(&root);
            let mut dead = false;
            let mut scratch = Sink::default();
            for i in &prefix {
                let (code, _) = h.step(&spec.alphabet[*i], &tmp, &mut scratch);
                if code.starts_with('P') {
                    dead = true;
                    break;
                }
            }
            if dead {
                continue;
            }
            let prefix_text = h.ops.clone();
            let mut lines = String::new();
            let mut idx = String::new();
            let d0 = dump(&h.font);
            trie(&h, &spec.alphabet, depth, &d0, &tmp, &mut sink, &mut lines, &mut idx, true);
            let n = lines.lines().count();
            nodes += n as u64;
            write_file(&a.out.join(format!("{}.txt", sid)), &lines);
            write_file(&a.out.join(format!("{}.idx", sid)), &idx);
            shards.push(serde_json::json!({"id": sid, "kind": "trie", "start": start, "alphabet": alpha_text, "prefix": prefix_text,
                "state0": d0, "depth": depth, "nodes": n, "weight": lines.len() + 40 * n}));
        }
    }
    // random histories
    let nrand = if a.thorough() { 6_000 } else if light { 250 } else { 400 };
    let per = 40usize;
    let mut text = String::new();
    let mut in_shard = 0usize;
    let mut shard_no = 0usize;
    let mut hist_steps = 0u64;
    for i in 0..nrand {
        let si = if i % 3 == 0 { 0 } else { rng.below(NLOAD as u64) as usize };
        let (start, wf, _) = STARTS[si];
        let mut h = match new_hist(start, wf, &tmp) {
            Some(h) => h,
            None => continue,
        };
        let len = rng.range(1, 40) as usize;
        let mut prev = dump(&h.font);
        let mut obs: Vec<String> = vec![prev.clone()];
        let mut panicked = false;
        for _ in 0..len {
            let mut op = random_op(&mut rng);
            if light {
                if let EntryOrInsert(l, ..) | EntryRemove(l, _) = op {
                    op = TouchGlyphs(l);
                }
            }
            let (code, d) = h.step(&op, &tmp, &mut sink);
            obs.push(format!("{}|{}", code, if d == prev { "=" } else { d.as_str() }));
            prev = d;
            hist_steps += 1;
            if code.starts_with('P') {
                panicked = true;
                break;
            }
        }
        if !panicked {
            h.final_check(&tmp, &mut sink);
        }
        let _ = writeln!(text, "{}#{}#{}", start, h.ops, obs.join("#"));
        in_shard += 1;
        if in_shard == per || i + 1 == nrand {
            let sid = format!("H{}", shard_no);
            write_file(&a.out.join(format!("{}.txt", sid)), &text);
            shards.push(serde_json::json!({"id": sid, "kind": "listed", "histories": in_shard, "weight": text.len() + 2000 * in_shard}));
            text.clear();
            in_shard = 0;
            shard_no += 1;
        }
    }
    // tables from rustc's std for the characters that can occur
    let mut chars: BTreeSet<char> = "_0123456789.glifyphsxX".chars().collect();
    for n in NAMES {
        chars.extend(n.chars());
    }
    for (s, _, _) in STARTS {
        chars.extend(s.chars());
    }
    let mut up: Vec<String> = Vec::new();
    let mut low: Vec<String> = Vec::new();
    for ch in &chars {
        if ch.is_uppercase() {
            up.push(format!("{}", *ch as u32));
        }
        let l: Vec<char> = ch.to_lowercase().collect();
        if l != vec![*ch] {
            low.push(format!("({},{})", *ch as u32, g_nlist(l.iter().map(|c| *c as u64))));
        }
    }
    let names: Vec<String> = NAMES.iter().map(|n| g_str(n)).collect();
    write_file(
        &a.out.join("tables.v"),
        &format!(
            "Definition up : list N := {}.\nDefinition low : list (N * list N) := {}.\nDefinition names : list (list N) := {}.\n",
            g_list(&up),
            g_list(&low),
            g_list(&names)
        ),
    );
    write_file(&a.out.join("oracle.jsonl"), &sink.oracle);
    let summary = serde_json::json!({
        "shards": shards, "tries": tries, "starts": starts, "trie_nodes": nodes, "random_histories": nrand, "random_steps": hist_steps,
        "operations_applied": sink.steps, "save_load_round_trips": sink.saveloads, "outcomes": sink.outs,
        "oracle_failures": sink.failures, "oracle_failures_not_written": sink.known_hits,
        "names": NAMES.iter().map(|n| n.to_string()).collect::<Vec<_>>(),
    });
    write_file(&a.out.join("summary.json"), &summary.to_string());
    let _ = std::fs::remove_dir_all(&tmp);
}

fn replay(p: &Path, out: &Path) {
    let v: serde_json::Value = serde_json::from_str(&std::fs::read_to_string(p).expect("replay file")).expect("json");
    let inp = if v.get("input").is_some() { &v["input"] } else { &v };
    let start = inp["start"].as_str().unwrap_or("N").to_string();
    let ops = parse_ops(inp["ops"].as_str().unwrap_or(""));
    let tmp = out.join("tmp_replay");
    std::fs::create_dir_all(&tmp).unwrap();
    let wf = STARTS.iter().find(|(s, _, _)| *s == start).map(|(_, w, _)| *w).unwrap_or(true);
    let mut h = match new_hist(&start, wf, &tmp) {
        Some(h) => h,
        None => {
            println!("the start tree does not load: {}", start);
            return;
        }
    };
    println!("names: {:?}", NAMES.iter().enumerate().map(|(i, n)| format!("{}={:?}", ic(i), n)).collect::<Vec<_>>());
    println!("start: {}   state: {}", start, dump(&h.font));
    let mut sink = Sink::default();
    h.check_start(&mut sink);
    for op in &ops {
        let (code, d) = h.step(op, &tmp, &mut sink);
        println!("{:?} -> {}   state: {}", op, code, d);
        if code.starts_with('P') {
            break;
        }
    }
    h.final_check(&tmp, &mut sink);
    if sink.oracle.is_empty() {
        println!("oracle: every clause holds at every step");
    } else {
        for l in sink.oracle.lines() {
            println!("oracle failure: {}", l);
        }
    }
    let _ = std::fs::remove_dir_all(&tmp);
}
