//! C12: glif documents composed from legal building blocks with one rule violation (or one
//! surface variation) injected, both format versions, rendered with varied legal syntax, through
//! Glyph::parse_raw.  Output: one JSON line per case (document tree and f64 table as Gallina
//! terms, the implementation's outcome as a Tm, the generator's legality label and class).
use crate::util::*;
#[path = "glif_common.rs"]
mod common;
use common::*;

// ---------------------------------------------------------------- legality of a point sequence
// the specification predicate of C11 (positional, cyclic), ported from Model/Contour.v [legalb]
// t: 0 move 1 line 2 offcurve 3 curve 4 qcurve
fn seq_legal(pts: &[(u8, bool)]) -> bool {
    let n = pts.len();
    let closed = n == 0 || pts[0].0 != 0;
    let trail = |l: &[(u8, bool)]| l.iter().rev().take_while(|p| p.0 == 2).count();
    for i in 0..n {
        let (t, sm) = pts[i];
        let lin = trail(&pts[..i]);
        let run = if closed && lin == i { lin + trail(pts) } else { lin };
        let ok = match t {
            0 => i == 0,
            2 => !sm,
            1 => run == 0,
            3 => run <= 2,
            _ => true,
        };
        if !ok {
            return false;
        }
    }
    closed || trail(pts) == 0
}
const TYPES: [&str; 5] = ["move", "line", "offcurve", "curve", "qcurve"];

fn gen_seq(rng: &mut Rng, len: usize, want_legal: bool) -> Vec<(u8, bool)> {
    for _ in 0..200 {
        let mut v = Vec::new();
        let open = rng.chance(1, 3);
        for i in 0..len {
            let t = if i == 0 && open { 0 } else { *rng.pick(&[1u8, 1, 2, 2, 2, 3, 3, 4]) };
            let sm = t != 2 && rng.chance(1, 3);
            v.push((t, sm));
        }
        if !want_legal && !v.is_empty() {
            let i = rng.below(v.len() as u64) as usize;
            v[i] = (rng.below(5) as u8, rng.chance(1, 2));
        }
        if seq_legal(&v) == want_legal {
            return v;
        }
    }
    if want_legal {
        vec![(1, false); len]
    } else {
        vec![(1, false), (0, false)]
    }
}

// ---------------------------------------------------------------- vocabulary of values
const NUM_OK: [&str; 22] = [
    "0", "1", "-2.5", "500", "0.1", "1e3", "360", "45", "-1", "2", "-0", "1E2", ".5", "5.", "+7",
    "0.30000000000000004", "1e-320", "1.7976931348623157e308", "inf", "-inf", "1e400", "NaN",
];
const NUM_BAD: [&str; 9] = ["x", " 1", "", "1,0", "0x10", "1_000", "1 ", "--1", "1e"];
const ANGLE_OK: [&str; 8] = ["0", "360", "45", "90.5", "-0", "3.6e2", "359.99999999999994", "0.0"];
const ANGLE_BAD: [&str; 8] = ["-1", "360.00000000000006", "400", "inf", "NaN", "-0.0000001", "1e400", "-inf"];
const COLOR_OK: [&str; 7] = ["1,0,0,1", "0,0.1,1,0", "0.5,0.5,0.5,0.5", "1,1,1,1", "0,0,0,0", "-0,0,1,1", "1e0,0,0,0.25"];
const COLOR_BAD: [&str; 11] = [
    "1,0,0", "1,0,0,1,1", "2,0,0,1", "x,0,0,1", "1, 0,0,1", "-1,0,0,1", "", "1,0,0,1,", "NaN,0,0,1",
    "1.0000000000000002,0,0,0", "0,0,0,inf",
];
const HEX_OK: [&str; 10] = ["41", "0041", "1F600", "61", "10FFFF", "0", "D7FF", "E000", "00000041", "1f600"];
const HEX_BAD: [&str; 11] = ["D800", "DFFF", "110000", "zz", "", "FFFFFFFFF", "-41", "0x41", " 41", "+", "100000000"];
const NAME_OK: [&str; 8] = ["top", "a b", "\u{e9}", "\u{1d538}x", "a&b<c>\"'", "_", "A.alt", " "];
const NAME_BAD: [&str; 5] = ["", "a\tb", "a\u{7f}", "a\u{85}b", "\n"];
const FILE_OK: [&str; 6] = ["a.png", "img 1.png", "\u{e9}.png", "..", "a/", "a/."];
const FILE_BAD: [&str; 6] = ["", "/a.png", "a/b.png", "./a.png", "a/..", "a//b"];
const ID_BAD: [&str; 5] = ["\u{e9}", "a\u{7f}", "tab\tx", "\u{1d538}", "LONG"];
const TK: [&str; 6] = ["xScale", "xyScale", "yxScale", "yScale", "xOffset", "yOffset"];

struct Gen<'a> {
    rng: &'a mut Rng,
    ver: u32,
    next_id: usize,
    ids: Vec<String>,
}

impl<'a> Gen<'a> {
    fn fresh_id(&mut self) -> String {
        self.next_id += 1;
        let n = self.next_id;
        let s = match self.rng.below(8) {
            0 => format!("id{}", n),
            1 => format!("p q{}", n),
            2 => format!("<&\">'{}", n),
            3 => format!("{}{}", "a".repeat(100 - n.to_string().len()), n),
            4 => format!("~!{}#", n),
            5 => format!(" {}", n),
            _ => format!("i{}", n),
        };
        self.ids.push(s.clone());
        s
    }
    fn num(&mut self) -> String {
        if self.rng.chance(3, 4) {
            self.rng.pick(&NUM_OK[..10]).to_string()
        } else {
            self.rng.pick(&NUM_OK).to_string()
        }
    }
    fn name(&mut self) -> String {
        self.rng.pick(&NAME_OK).to_string()
    }
    fn maybe_id(&mut self, a: &mut Vec<(String, String)>, p: (u64, u64)) {
        if self.ver == 2 && self.rng.chance(p.0, p.1) {
            let id = self.fresh_id();
            a.push(at("identifier", &id));
        }
    }
    fn shuffle<T>(&mut self, v: &mut Vec<T>) {
        for i in (1..v.len()).rev() {
            let j = self.rng.below(i as u64 + 1) as usize;
            v.swap(i, j);
        }
    }
    fn transform(&mut self, a: &mut Vec<(String, String)>) {
        for k in TK {
            if self.rng.chance(1, 4) {
                let v = self.num();
                a.push(at(k, &v));
            }
        }
    }
    fn point(&mut self, t: u8, sm: bool, named: Option<String>) -> Node {
        let mut a = vec![at("x", &self.num()), at("y", &self.num())];
        if t != 2 || self.rng.chance(1, 2) {
            a.push(at("type", TYPES[t as usize]));
        }
        if sm {
            a.push(at("smooth", "yes"));
        } else if self.rng.chance(1, 8) {
            a.push(at("smooth", "no"));
        }
        if let Some(n) = named {
            a.push(at("name", &n));
        } else if self.rng.chance(1, 6) {
            let n = self.name();
            a.push(at("name", &n));
        }
        self.maybe_id(&mut a, (1, 4));
        self.shuffle(&mut a);
        em("point", a)
    }
    fn contour(&mut self) -> Node {
        let mut a = Vec::new();
        self.maybe_id(&mut a, (1, 3));
        let r = self.rng.below(12);
        if r == 0 {
            return em("contour", vec![]);
        }
        if r == 1 {
            return el("contour", a, vec![]);
        }
        if r == 2 || (self.ver == 1 && r >= 9) {
            // a single move point, named or not: an anchor in format 1
            let nm = if self.rng.chance(2, 3) { Some(self.name()) } else { None };
            let p = self.point(0, false, nm);
            return el("contour", a, vec![p]);
        }
        let len = self.rng.range(1, 6) as usize;
        let seq = gen_seq(self.rng, len, true);
        let pts = seq.iter().map(|(t, sm)| self.point(*t, *sm, None)).collect();
        el("contour", a, pts)
    }
    fn component(&mut self) -> Node {
        let mut a = vec![at("base", &self.name())];
        self.transform(&mut a);
        self.maybe_id(&mut a, (1, 3));
        self.shuffle(&mut a);
        em("component", a)
    }
    fn outline(&mut self) -> Node {
        if self.rng.chance(1, 10) {
            return em("outline", vec![]);
        }
        let n = self.rng.below(5);
        let mut k = Vec::new();
        for _ in 0..n {
            if self.rng.chance(3, 5) {
                k.push(self.contour());
            } else {
                k.push(self.component());
            }
        }
        el("outline", vec![], k)
    }
    fn anchor(&mut self) -> Node {
        let mut a = vec![at("x", &self.num()), at("y", &self.num())];
        if self.rng.chance(1, 2) {
            a.push(at("name", &self.name()));
        }
        if self.rng.chance(1, 3) {
            a.push(at("color", *self.rng.pick(&COLOR_OK)));
        }
        self.maybe_id(&mut a, (1, 2));
        self.shuffle(&mut a);
        em("anchor", a)
    }
    fn guideline(&mut self) -> Node {
        let mut a = Vec::new();
        match self.rng.below(3) {
            0 => a.push(at("x", &self.num())),
            1 => a.push(at("y", &self.num())),
            _ => {
                a.push(at("x", &self.num()));
                a.push(at("y", &self.num()));
                a.push(at("angle", *self.rng.pick(&ANGLE_OK)));
            }
        }
        if self.rng.chance(1, 3) {
            a.push(at("name", &self.name()));
        }
        if self.rng.chance(1, 3) {
            a.push(at("color", *self.rng.pick(&COLOR_OK)));
        }
        self.maybe_id(&mut a, (1, 2));
        self.shuffle(&mut a);
        em("guideline", a)
    }
    fn image(&mut self) -> Node {
        let f = if self.rng.chance(1, 4) { *self.rng.pick(&FILE_OK) } else { "a.png" };
        let mut a = vec![at("fileName", f)];
        self.transform(&mut a);
        if self.rng.chance(1, 3) {
            a.push(at("color", *self.rng.pick(&COLOR_OK)));
        }
        self.shuffle(&mut a);
        em("image", a)
    }
    fn advance(&mut self) -> Node {
        let mut a = Vec::new();
        if self.rng.chance(2, 3) {
            a.push(at("width", &self.num()));
        }
        if self.rng.chance(1, 3) {
            a.push(at("height", &self.num()));
        }
        self.shuffle(&mut a);
        em("advance", a)
    }
    fn pv(&mut self, depth: u32) -> Node {
        let k = if depth >= 3 { self.rng.below(7) } else { self.rng.below(10) };
        match k {
            0 | 1 => {
                let s = *self.rng.pick(&["v", "a b", "x&y<z>", " lead", "trail ", "l1\nl2", "", "\u{e9}\u{1d538}", "\"q\"'", "a\u{7f}b", "\u{85}nel", "end\u{9f}", "\u{80}"]);
                if s.is_empty() && self.rng.chance(1, 2) {
                    em("string", vec![])
                } else {
                    el("string", vec![], if s.is_empty() { vec![] } else { vec![Node::Text(s.to_string())] })
                }
            }
            2 => el("integer", vec![], vec![Node::Text(self.rng.pick(&["1", "-5", "70000", "0", "-9223372036854775808", "18446744073709551615", "0x1F", "+3"]).to_string())]),
            3 => el("real", vec![], vec![Node::Text(self.rng.pick(&["0.1", "-2.5", "1e3", "3", "inf", "-0"]).to_string())]),
            4 => {
                if self.rng.chance(1, 2) {
                    em("true", vec![])
                } else {
                    el("true", vec![], vec![])
                }
            }
            5 => em("false", vec![]),
            6 => {
                let n = self.rng.below(7) as usize;
                let bytes: Vec<u8> = (0..n).map(|_| self.rng.below(256) as u8).collect();
                let mut b = b64(&bytes);
                if b.len() > 4 && self.rng.chance(1, 2) {
                    b.insert(4, '\n');
                    b.insert(0, '\t');
                }
                el("data", vec![], if b.is_empty() { vec![] } else { vec![Node::Text(b)] })
            }
            7 => el("date", vec![], vec![Node::Text(self.rng.pick(&["2020-01-31T10:00:00Z", "1999-12-31T23:59:59Z", "2001-01-01T00:00:00Z"]).to_string())]),
            8 => {
                let n = self.rng.below(3);
                let k = (0..n).map(|_| self.pv(depth + 1)).collect();
                el("array", vec![], k)
            }
            _ => self.dict(depth + 1, vec![]),
        }
    }
    fn dict(&mut self, depth: u32, extra: Vec<Node>) -> Node {
        let mut keys = vec!["k1", "k2", "com.x", "a key", "\u{e9}", "<&>", "k\u{7f}", "\u{85}k\u{9f}"];
        self.shuffle(&mut keys);
        let n = self.rng.below(3) as usize;
        let mut k = Vec::new();
        for key in keys.into_iter().take(n) {
            k.push(el("key", vec![], vec![Node::Text(key.to_string())]));
            k.push(self.pv(depth));
        }
        k.extend(extra);
        if k.is_empty() && self.rng.chance(1, 2) {
            return em("dict", vec![]);
        }
        el("dict", vec![], k)
    }
    fn lib(&mut self) -> Node {
        let mut extra = Vec::new();
        if self.rng.chance(1, 2) {
            // public.objectLibs: entries for some identifiers of the document, and orphans
            let mut inner = Vec::new();
            let ids = self.ids.clone();
            for id in ids {
                if self.rng.chance(1, 2) {
                    inner.push(el("key", vec![], vec![Node::Text(id)]));
                    inner.push(self.dict(2, vec![]));
                }
            }
            if self.rng.chance(1, 4) {
                inner.push(el("key", vec![], vec![Node::Text("orphan".into())]));
                let v = if self.rng.chance(1, 2) { self.dict(2, vec![]) } else { el("string", vec![], vec![Node::Text("no".into())]) };
                inner.push(v);
            }
            extra.push(el("key", vec![], vec![Node::Text("public.objectLibs".into())]));
            extra.push(el("dict", vec![], inner));
        }
        let d = self.dict(0, extra);
        el("lib", vec![], vec![d])
    }
    fn note(&mut self) -> Node {
        let t = *self.rng.pick(&[" hi ", "a<b & c", "", "line1\n  line2", "x", "\u{e9}", "a\u{7f}b", "\u{85}start", "end\u{9f}", "\u{80}\u{85}"]);
        el("note", vec![], if t.is_empty() { vec![] } else { vec![Node::Text(t.to_string())] })
    }
    /// a legal document: (nodes before the root, root, nodes after)
    fn doc(&mut self) -> Vec<Node> {
        let v2 = self.ver == 2;
        let mut kids = Vec::new();
        for _ in 0..self.rng.below(3) {
            kids.push(em("unicode", vec![at("hex", *self.rng.pick(&HEX_OK))]));
        }
        if self.rng.chance(2, 3) {
            kids.push(self.advance());
        }
        if v2 && self.rng.chance(1, 3) {
            kids.push(self.image());
        }
        if self.rng.chance(4, 5) {
            kids.push(self.outline());
        }
        if v2 {
            for _ in 0..self.rng.below(3) {
                kids.push(self.anchor());
            }
            for _ in 0..self.rng.below(3) {
                kids.push(self.guideline());
            }
            if self.rng.chance(1, 3) {
                kids.push(self.note());
            }
        }
        // the lib last, so that object libs can refer to the identifiers handed out
        let lib = if self.rng.chance(1, 2) { Some(self.lib()) } else { None };
        if let Some(l) = lib {
            kids.push(l);
        }
        self.shuffle(&mut kids);
        let mut a = vec![at("name", &self.name()), at("format", if v2 { "2" } else { "1" })];
        if self.rng.chance(1, 10) {
            a.push(at("formatMinor", "0"));
        }
        if self.rng.chance(1, 20) {
            a[1].1 = if v2 { "02".into() } else { "+1".into() };
        }
        self.shuffle(&mut a);
        let mut d = Vec::new();
        if self.rng.chance(4, 5) {
            d.push(Node::Decl);
        }
        if self.rng.chance(1, 6) {
            d.push(Node::Comment(" generated ".into()));
        }
        d.push(el("glyph", a, kids));
        if self.rng.chance(1, 10) {
            d.push(Node::Comment("end".into()));
        }
        d
    }
}

fn b64(data: &[u8]) -> String {
    const A: &[u8] = b"ABCDEFGHIJKLMNOPQRSTUVWXYZabcdefghijklmnopqrstuvwxyz0123456789+/";
    let mut o = String::new();
    for ch in data.chunks(3) {
        let b = [ch[0], *ch.get(1).unwrap_or(&0), *ch.get(2).unwrap_or(&0)];
        o.push(A[(b[0] >> 2) as usize] as char);
        o.push(A[(((b[0] & 3) << 4) | (b[1] >> 4)) as usize] as char);
        if ch.len() > 1 {
            o.push(A[(((b[1] & 15) << 2) | (b[2] >> 6)) as usize] as char);
        } else {
            o.push('=');
        }
        if ch.len() > 2 {
            o.push(A[(b[2] & 63) as usize] as char);
        } else {
            o.push('=');
        }
    }
    o
}

// ---------------------------------------------------------------- tree navigation
type Path = Vec<usize>;
struct Site {
    path: Path,
    name: String,
    empty_form: bool,
    parent: String,
}
fn sites(doc: &[Node]) -> Vec<Site> {
    fn walk(n: &Node, path: &mut Path, parent: &str, out: &mut Vec<Site>) {
        match n {
            Node::Empty(name, _) => out.push(Site { path: path.clone(), name: name.clone(), empty_form: true, parent: parent.into() }),
            Node::Elem(name, _, k) => {
                out.push(Site { path: path.clone(), name: name.clone(), empty_form: false, parent: parent.into() });
                if name == "lib" {
                    return;
                }
                for (i, c) in k.iter().enumerate() {
                    path.push(i);
                    walk(c, path, name, out);
                    path.pop();
                }
            }
            _ => {}
        }
    }
    let mut out = Vec::new();
    for (i, n) in doc.iter().enumerate() {
        let mut p = vec![i];
        walk(n, &mut p, "", &mut out);
    }
    out
}
fn node_mut<'a>(doc: &'a mut [Node], path: &[usize]) -> &'a mut Node {
    let mut n = &mut doc[path[0]];
    for i in &path[1..] {
        n = &mut n.kids_mut().unwrap()[*i];
    }
    n
}
fn pick_site(doc: &[Node], rng: &mut Rng, pred: impl Fn(&Site) -> bool) -> Option<Path> {
    let s: Vec<Site> = sites(doc).into_iter().filter(|s| pred(s)).collect();
    if s.is_empty() {
        None
    } else {
        Some(s[rng.below(s.len() as u64) as usize].path.clone())
    }
}
fn root_index(doc: &[Node]) -> usize {
    doc.iter().position(|n| n.name() == Some("glyph")).unwrap()
}
fn insert_child(doc: &mut [Node], parent: &[usize], rng: &mut Rng, n: Node) {
    let k = node_mut(doc, parent).kids_mut().unwrap();
    let i = rng.below(k.len() as u64 + 1) as usize;
    k.insert(i, n);
}
fn set_attr(n: &mut Node, k: &str, v: &str, rng: &mut Rng) {
    let a = n.attrs_mut().unwrap();
    if let Some(e) = a.iter_mut().find(|e| e.0 == k) {
        e.1 = v.to_string();
    } else {
        let i = rng.below(a.len() as u64 + 1) as usize;
        a.insert(i, at(k, v));
    }
}
fn del_attr(n: &mut Node, k: &str) -> bool {
    let a = n.attrs_mut().unwrap();
    let l = a.len();
    a.retain(|e| e.0 != k);
    a.len() != l
}
fn all_ids(doc: &[Node]) -> Vec<String> {
    let mut v = Vec::new();
    fn walk(n: &Node, out: &mut Vec<String>) {
        if let Some(a) = n.attrs() {
            if matches!(n.name(), Some("anchor" | "guideline" | "contour" | "point" | "component")) {
                for (k, val) in a {
                    if k == "identifier" {
                        out.push(val.clone());
                    }
                }
            }
        }
        if n.name() != Some("lib") {
            if let Some(k) = n.kids() {
                for c in k {
                    walk(c, out);
                }
            }
        }
    }
    for n in doc {
        walk(n, &mut v);
    }
    v
}


// ---------------------------------------------------------------- class predicates (as in Model/GlifSpec.v)
fn blank(s: &str) -> bool {
    s.chars().all(|c| c == ' ' || c == '\t' || c == '\n' || c == '\r')
}
fn prolog_node(n: &Node) -> bool {
    match n {
        Node::Decl | Node::Comment(_) | Node::DocType(_) => true,
        Node::Text(s) => blank(s),
        _ => false,
    }
}
fn root_of(doc: &[Node]) -> Option<&Node> {
    doc.iter().find(|n| !prolog_node(n))
}
fn tview(l: &[Node]) -> Vec<&Node> {
    l.iter().filter(|n| !matches!(n, Node::Text(s) if blank(s))).collect()
}
fn sig_kids(l: &[Node]) -> Vec<&Node> {
    l.iter().filter(|n| !matches!(n, Node::Comment(_)) && !matches!(n, Node::Text(s) if blank(s))).collect()
}
fn kids_of(n: &Node) -> &[Node] {
    match n {
        Node::Elem(_, _, k) => k,
        _ => &[],
    }
}
fn is_kind(n: &Node, k: &str) -> bool {
    n.name() == Some(k)
}
fn texts_of(n: &Node, out: &mut Vec<String>) {
    match n {
        Node::Text(s) => out.push(s.clone()),
        Node::Elem(_, _, k) => k.iter().for_each(|c| texts_of(c, out)),
        _ => {}
    }
}
fn textless(n: &Node) -> bool {
    let mut t = Vec::new();
    kids_of(n).iter().for_each(|c| texts_of(c, &mut t));
    t.iter().all(|s| blank(s))
}
fn f16_child(n: &Node) -> bool {
    matches!(n, Node::Elem(name, _, k) if name == "note" && k.iter().any(|c| matches!(c, Node::Elem(..) | Node::Empty(..))))
}
fn f16(doc: &[Node]) -> bool {
    match root_of(doc) {
        None => false,
        Some(root) => tview(kids_of(root)).iter().any(|n| f16_child(n)),
    }
}
fn f14_node(depth: u32, n: &Node) -> bool {
    let leaf = matches!(n, Node::Elem(name, _, _) if matches!(name.as_str(), "advance" | "unicode" | "image" | "anchor" | "guideline" | "component" | "point"));
    leaf || match n {
        Node::Elem(name, _, k) if depth > 0 => {
            matches!(name.as_str(), "glyph" | "outline" | "contour") && k.iter().any(|c| matches!(c, Node::Comment(_)) || f14_node(depth - 1, c))
        }
        Node::Empty(name, _) => name == "note",
        _ => false,
    }
}
fn f14(doc: &[Node]) -> bool {
    root_of(doc).map_or(false, |r| f14_node(3, r))
}
fn version_of(a: &[(String, String)]) -> Option<u32> {
    let f = a.iter().find(|e| e.0 == "format")?;
    let major = f.1.parse::<u32>().ok()?;
    let minor_ok = match a.iter().find(|e| e.0 == "formatMinor") {
        None => true,
        Some(m) => m.1.parse::<u32>() == Ok(0),
    };
    if (major == 1 || major == 2) && minor_ok {
        Some(major)
    } else {
        None
    }
}
fn f17(doc: &[Node]) -> bool {
    doc.iter().any(|n| matches!(n, Node::DocType(_)))
        || match root_of(doc) {
            None => false,
            Some(root) => {
                matches!(root, Node::Empty(..))
                    || (root.attrs().and_then(|a| version_of(a)) == Some(1) && sig_kids(kids_of(root)).iter().any(|n| is_kind(n, "note")))
            }
        }
}

// ---------------------------------------------------------------- injections
/// label of a case: what was done, whether the document obeys the rules of the property, and the
/// known surface class it falls into ("" = none)
#[derive(Clone)]
struct Label {
    inj: String,
    legal: bool,
    class: &'static str,
}
fn lab(inj: &str, legal: bool, class: &'static str) -> Option<Label> {
    Some(Label { inj: inj.to_string(), legal, class })
}

const N_INJ: u64 = 64;
const OBJ_KINDS: [&str; 5] = ["anchor", "guideline", "contour", "point", "component"];
const NUM_ATTRS: [(&str, &str); 22] = [
    ("advance", "width"), ("advance", "height"), ("anchor", "x"), ("anchor", "y"), ("guideline", "x"),
    ("guideline", "y"), ("guideline", "angle"), ("point", "x"), ("point", "y"),
    ("component", "xScale"), ("component", "xyScale"), ("component", "yxScale"), ("component", "yScale"),
    ("component", "xOffset"), ("component", "yOffset"), ("image", "xScale"), ("image", "xyScale"),
    ("image", "yxScale"), ("image", "yScale"), ("image", "xOffset"), ("image", "yOffset"), ("point", "x"),
];

/// make sure the document has an element of that kind (inserting a legal one); returns its path
fn ensure(doc: &mut Vec<Node>, g: &mut Gen, kind: &str) -> Option<Path> {
    let want_elem_contour = kind == "contour";
    let pred = |s: &Site| s.name == kind && (!want_elem_contour || !s.empty_form) && (kind != "point" || s.parent == "contour");
    if let Some(p) = pick_site(doc, g.rng, pred) {
        if kind == "outline" {
            if let Node::Empty(_, _) = node_mut(doc, &p) {
                *node_mut(doc, &p) = el("outline", vec![], vec![]);
            }
        }
        return Some(p);
    }
    let ri = root_index(doc);
    match kind {
        "anchor" | "guideline" | "image" | "note" if g.ver == 1 => None,
        "anchor" => {
            let n = g.anchor();
            insert_child(doc, &[ri], g.rng, n);
            pick_site(doc, g.rng, pred)
        }
        "guideline" => {
            let n = g.guideline();
            insert_child(doc, &[ri], g.rng, n);
            pick_site(doc, g.rng, pred)
        }
        "image" => {
            let n = g.image();
            insert_child(doc, &[ri], g.rng, n);
            pick_site(doc, g.rng, pred)
        }
        "advance" => {
            let n = g.advance();
            insert_child(doc, &[ri], g.rng, n);
            pick_site(doc, g.rng, pred)
        }
        "unicode" => {
            insert_child(doc, &[ri], g.rng, em("unicode", vec![at("hex", "41")]));
            pick_site(doc, g.rng, pred)
        }
        "note" => {
            let n = g.note();
            insert_child(doc, &[ri], g.rng, n);
            pick_site(doc, g.rng, pred)
        }
        "lib" => {
            let n = g.lib();
            insert_child(doc, &[ri], g.rng, n);
            pick_site(doc, g.rng, pred)
        }
        "outline" | "contour" | "point" | "component" => {
            // an outline in start form
            let op = match pick_site(doc, g.rng, |s| s.name == "outline") {
                Some(p) => {
                    if let Node::Empty(_, _) = node_mut(doc, &p) {
                        *node_mut(doc, &p) = el("outline", vec![], vec![]);
                    }
                    p
                }
                None => {
                    insert_child(doc, &[ri], g.rng, el("outline", vec![], vec![]));
                    pick_site(doc, g.rng, |s| s.name == "outline")?
                }
            };
            match kind {
                "outline" => Some(op),
                "component" => {
                    let n = g.component();
                    insert_child(doc, &op, g.rng, n);
                    pick_site(doc, g.rng, pred)
                }
                _ => {
                    let mut a = Vec::new();
                    g.maybe_id(&mut a, (1, 3));
                    let seq = gen_seq(g.rng, 3, true);
                    let pts = seq.iter().map(|(t, sm)| g.point(*t, *sm, None)).collect();
                    insert_child(doc, &op, g.rng, el("contour", a, pts));
                    pick_site(doc, g.rng, pred)
                }
            }
        }
        _ => None,
    }
}

fn text_el(name: &str, t: &str) -> Node {
    el(name, vec![], vec![Node::Text(t.to_string())])
}

/// a name that is NOT the known name but looks like it: namespace-style prefixes (with or without a
/// declaration on <glyph>), other letter case, a prefix or a suffix.  Returns the twin, the
/// declaration attribute to put on the root (if any) and a description.
fn twin(name: &str, rng: &mut Rng) -> (String, Option<&'static str>, &'static str) {
    let cap = |s: &str| {
        let mut c = s.chars();
        match c.next() {
            Some(f) => f.to_uppercase().collect::<String>() + c.as_str(),
            None => String::new(),
        }
    };
    match rng.below(11) {
        0 => (format!("p:{}", name), None, "prefix p:, undeclared"),
        1 => (format!("p:{}", name), Some("xmlns:p"), "prefix p:, declared"),
        2 => (format!("ext:{}", name), None, "prefix ext:, undeclared"),
        3 => (format!("ext:{}", name), Some("xmlns:ext"), "prefix ext:, declared"),
        4 => (format!(":{}", name), None, "leading colon"),
        5 => (cap(name), None, "capitalised"),
        6 => (name.to_uppercase(), None, "upper case"),
        7 => {
            // another mixed case: lower-case a camelCase name, or raise the last letter
            let l = name.to_lowercase();
            if l != name {
                (l, None, "lower case")
            } else {
                let n = name.len();
                (format!("{}{}", &name[..n - 1], name[n - 1..].to_uppercase()), None, "last letter raised")
            }
        }
        8 => (format!("{}2", name), None, "suffix"),
        9 => (format!("a{}", name), None, "prefix letter"),
        _ => (format!("{}:p", name), None, "known name used as the prefix"),
    }
}
const ELEMENT_NAMES: [&str; 12] =
    ["glyph", "advance", "unicode", "image", "guideline", "anchor", "outline", "lib", "note", "contour", "component", "point"];
const KNOWN_ATTRS: [(&str, &[&str]); 9] = [
    ("glyph", &["name", "format", "formatMinor"]),
    ("advance", &["width", "height"]),
    ("unicode", &["hex"]),
    ("image", &["fileName", "xScale", "xyScale", "yxScale", "yScale", "xOffset", "yOffset", "color"]),
    ("guideline", &["x", "y", "angle", "name", "color", "identifier"]),
    ("anchor", &["x", "y", "name", "color", "identifier"]),
    ("contour", &["identifier"]),
    ("component", &["base", "xScale", "xyScale", "yxScale", "yScale", "xOffset", "yOffset", "identifier"]),
    ("point", &["x", "y", "type", "smooth", "name", "identifier"]),
];
fn default_value(key: &str) -> &'static str {
    match key {
        "name" => "n",
        "format" => "2",
        "formatMinor" => "0",
        "hex" => "41",
        "fileName" => "a.png",
        "color" => "1,0,0,1",
        "identifier" => "twin-id",
        "base" => "a",
        "type" => "line",
        "smooth" => "yes",
        _ => "1",
    }
}
const NS_URI: &str = "http://example.com/ns";

fn inject(doc: &mut Vec<Node>, g: &mut Gen, which: u64) -> Option<Label> {
    let ri = root_index(doc);
    let ver = g.ver;
    match which {
        0 => lab("none", true, ""),
        // ---- version / name
        1 => {
            let v = *g.rng.pick(&["0", "3", "", "-1", "2.0", "x", "4294967296"]);
            set_attr(&mut doc[ri], "format", v, g.rng);
            lab(&format!("format={:?}", v), false, "")
        }
        2 => {
            del_attr(&mut doc[ri], "format");
            lab("format missing", false, "")
        }
        3 => {
            let v = *g.rng.pick(&["1", "x", "2", ""]);
            set_attr(&mut doc[ri], "formatMinor", v, g.rng);
            lab(&format!("formatMinor={:?}", v), false, "")
        }
        4 => {
            del_attr(&mut doc[ri], "name");
            lab("glyph name missing", false, "")
        }
        5 => {
            let v = *g.rng.pick(&NAME_BAD);
            set_attr(&mut doc[ri], "name", v, g.rng);
            lab(&format!("glyph name={:?}", v), false, "")
        }
        // ---- repeated elements
        6 => {
            let kind = *g.rng.pick(&["advance", "outline", "lib", "image", "note"]);
            let p = ensure(doc, g, kind)?;
            let mut copy = node_mut(doc, &p).clone();
            if kind == "note" {
                // the first note must carry text for norad to notice the second
                *node_mut(doc, &p) = text_el("note", "first");
                copy = text_el("note", "second");
            }
            if g.rng.chance(1, 2) && kind != "note" {
                // a different second element of the same kind
                copy = match kind {
                    "advance" => em("advance", vec![]),
                    "outline" => em("outline", vec![]),
                    "lib" => el("lib", vec![], vec![em("dict", vec![])]),
                    _ => em("image", vec![at("fileName", "b.png")]),
                };
            }
            insert_child(doc, &[ri], g.rng, copy);
            lab(&format!("repeated {}", kind), false, "")
        }
        7 => {
            // repeated note where the one norad meets first has no text
            if ver == 1 {
                return None;
            }
            if let Some(p) = pick_site(doc, g.rng, |s| s.name == "note") {
                let i = *p.last().unwrap();
                doc[ri].kids_mut().unwrap().remove(i);
            }
            let first = if g.rng.chance(1, 2) { el("note", vec![], vec![]) } else { el("note", vec![], vec![Node::CData("x".into())]) };
            let k = doc[ri].kids_mut().unwrap();
            let i = g.rng.below(k.len() as u64 + 1) as usize;
            k.insert(i, text_el("note", "second"));
            k.insert(i, first);
            lab("repeated note, first one without text", false, "")
        }
        // ---- identifiers
        8 => {
            if ver == 1 {
                return None;
            }
            let kind = *g.rng.pick(&OBJ_KINDS);
            let p = ensure(doc, g, kind)?;
            let mut v = g.rng.pick(&ID_BAD).to_string();
            if v == "LONG" {
                v = "a".repeat(101);
            }
            set_attr(node_mut(doc, &p), "identifier", &v, g.rng);
            lab(&format!("malformed identifier on {}", kind), false, "")
        }
        9 => {
            if ver == 1 {
                return None;
            }
            let k1 = *g.rng.pick(&OBJ_KINDS);
            let k2 = *g.rng.pick(&OBJ_KINDS);
            ensure(doc, g, k1)?;
            ensure(doc, g, k2)?;
            let usable = |s: &Site, k: &str| s.name == k && (k != "contour" || !s.empty_form) && (k != "point" || s.parent == "contour");
            if k1 == k2 && sites(doc).iter().filter(|s| usable(s, k1)).count() < 2 {
                let ri2 = root_index(doc);
                match k2 {
                    "anchor" => {
                        let n = g.anchor();
                        insert_child(doc, &[ri2], g.rng, n)
                    }
                    "guideline" => {
                        let n = g.guideline();
                        insert_child(doc, &[ri2], g.rng, n)
                    }
                    "component" => {
                        let op = ensure(doc, g, "outline")?;
                        let n = g.component();
                        insert_child(doc, &op, g.rng, n)
                    }
                    _ => {
                        let op = ensure(doc, g, "outline")?;
                        let seq = gen_seq(g.rng, 2, true);
                        let pts = seq.iter().map(|(t, sm)| g.point(*t, *sm, None)).collect();
                        insert_child(doc, &op, g.rng, el("contour", vec![], pts))
                    }
                }
            }
            let p1 = pick_site(doc, g.rng, |s| usable(s, k1))?;
            let p2 = pick_site(doc, g.rng, |s| usable(s, k2) && s.path != p1)?;
            let id = g.fresh_id();
            set_attr(node_mut(doc, &p1), "identifier", &id, g.rng);
            set_attr(node_mut(doc, &p2), "identifier", &id, g.rng);
            lab(&format!("duplicate identifier {} / {}", k1, k2), false, "")
        }
        // ---- format 1 gating
        10 => {
            if ver != 1 {
                return None;
            }
            let mut g2 = Gen { rng: &mut *g.rng, ver: 2, next_id: 1000, ids: vec![] };
            let kind = g2.rng.below(3);
            let n = match kind {
                0 => g2.anchor(),
                1 => g2.guideline(),
                _ => g2.image(),
            };
            let mut n = n;
            del_attr(&mut n, "identifier");
            insert_child(doc, &[ri], g.rng, n);
            lab(&format!("format 1 with {}", ["anchor", "guideline", "image"][kind as usize]), false, "")
        }
        11 => {
            if ver != 1 {
                return None;
            }
            let kind = *g.rng.pick(&["contour", "point", "component"]);
            let p = ensure(doc, g, kind)?;
            set_attr(node_mut(doc, &p), "identifier", "v1id", g.rng);
            lab(&format!("format 1 with identifier on {}", kind), false, "")
        }
        // ---- required attributes
        12 => {
            let (kind, key) = *g.rng.pick(&[("anchor", "x"), ("anchor", "y"), ("point", "x"), ("point", "y"), ("component", "base"), ("image", "fileName")]);
            let p = ensure(doc, g, kind)?;
            if !del_attr(node_mut(doc, &p), key) {
                return None;
            }
            lab(&format!("{} without {}", kind, key), false, "")
        }
        13 => {
            let p = ensure(doc, g, "unicode")?;
            del_attr(node_mut(doc, &p), "hex");
            lab("unicode without hex", false, "")
        }
        // ---- guidelines
        14 => {
            if ver == 1 {
                return None;
            }
            let p = ensure(doc, g, "guideline")?;
            let n = node_mut(doc, &p);
            del_attr(n, "x");
            del_attr(n, "y");
            del_attr(n, "angle");
            let shape = *g.rng.pick(&["xy", "a", "xa", "ya", ""]);
            if shape.contains('x') {
                set_attr(n, "x", "1", g.rng);
            }
            if shape.contains('y') {
                set_attr(n, "y", "2", g.rng);
            }
            if shape.contains('a') {
                set_attr(n, "angle", "45", g.rng);
            }
            lab(&format!("guideline shape {:?}", shape), false, "")
        }
        15 => {
            if ver == 1 {
                return None;
            }
            let p = ensure(doc, g, "guideline")?;
            let n = node_mut(doc, &p);
            set_attr(n, "x", "1", g.rng);
            set_attr(n, "y", "2", g.rng);
            let v = *g.rng.pick(&ANGLE_BAD);
            set_attr(n, "angle", v, g.rng);
            lab(&format!("guideline angle {}", v), false, "")
        }
        // ---- unknown elements / attributes
        16 => {
            let parent = *g.rng.pick(&["glyph", "outline", "contour"]);
            let p = if parent == "glyph" { vec![ri] } else { ensure(doc, g, parent)? };
            let n = match g.rng.below(4) {
                0 => em("foo", vec![]),
                1 => el("foo", vec![], vec![]),
                2 => {
                    // a known element in the wrong place
                    match parent {
                        "glyph" => g.rng.pick(&[em("point", vec![at("x", "1"), at("y", "1")]), em("component", vec![at("base", "a")]), el("contour", vec![], vec![]), em("glyph", vec![])]).clone(),
                        "outline" => g.rng.pick(&[em("point", vec![at("x", "1"), at("y", "1")]), em("advance", vec![]), el("outline", vec![], vec![]), em("unicode", vec![at("hex", "41")])]).clone(),
                        _ => g.rng.pick(&[em("component", vec![at("base", "a")]), em("contour", vec![]), el("contour", vec![], vec![]), em("advance", vec![])]).clone(),
                    }
                }
                _ => Node::Text("stray".into()),
            };
            let what = format!("{:?}", n);
            insert_child(doc, &p, g.rng, n);
            lab(&format!("unexpected content in {}: {}", parent, &what[..what.len().min(40)]), false, "")
        }
        17 => {
            let kind = *g.rng.pick(&["glyph", "advance", "unicode", "image", "anchor", "guideline", "contour", "point", "component"]);
            let p = if kind == "glyph" { vec![ri] } else { ensure(doc, g, kind)? };
            set_attr(node_mut(doc, &p), "bogus", "1", g.rng);
            lab(&format!("unknown attribute on {}", kind), false, "")
        }
        18 => {
            let kind = *g.rng.pick(&["outline", "lib", "note"]);
            let p = ensure(doc, g, kind)?;
            let n = node_mut(doc, &p);
            let k = *g.rng.pick(&["bogus", "identifier", "name"]);
            set_attr(n, k, "1", g.rng);
            lab(&format!("attribute on {}", kind), false, "")
        }
        // ---- lib
        19 => {
            let p = ensure(doc, g, "lib")?;
            let (k, what): (Vec<Node>, &str) = match g.rng.below(7) {
                0 => (vec![el("array", vec![], vec![])], "array"),
                1 => (vec![text_el("string", "x")], "string"),
                2 => (vec![em("true", vec![])], "true"),
                3 => (vec![], "empty"),
                4 => (vec![em("dict", vec![]), em("dict", vec![])], "two values"),
                5 => (vec![text_el("integer", "7")], "integer"),
                _ => (vec![Node::Text("words".into())], "text"),
            };
            *node_mut(doc, &p) = el("lib", vec![], k);
            lab(&format!("lib is {}", what), false, "")
        }
        20 => {
            let p = ensure(doc, g, "lib")?;
            *node_mut(doc, &p) = em("lib", vec![]);
            lab("lib self-closing", false, "")
        }
        21 => {
            let p = ensure(doc, g, "lib")?;
            let bad = match g.rng.below(6) {
                0 => el("dict", vec![], vec![text_el("key", "a")]),
                1 => el("dict", vec![], vec![text_el("integer", "1"), text_el("integer", "2")]),
                2 => el("dict", vec![], vec![text_el("key", "a"), text_el("integer", "1x")]),
                3 => el("dict", vec![], vec![text_el("key", "a"), text_el("real", "abc")]),
                4 => el("dict", vec![], vec![text_el("key", "a"), el("widget", vec![], vec![])]),
                _ => el("dict", vec![], vec![Node::Text("zz".into()), text_el("key", "a"), em("true", vec![])]),
            };
            *node_mut(doc, &p) = el("lib", vec![], vec![bad]);
            lab("lib is not a property list", false, "")
        }
        22 => {
            let p = ensure(doc, g, "lib")?;
            let v = match g.rng.below(3) {
                0 => text_el("string", "x"),
                1 => el("array", vec![], vec![]),
                _ => text_el("integer", "3"),
            };
            *node_mut(doc, &p) = el("lib", vec![], vec![el("dict", vec![], vec![text_el("key", "public.objectLibs"), v])]);
            lab("public.objectLibs is not a dictionary", false, "")
        }
        23 => {
            if ver == 1 {
                return None;
            }
            let kind = *g.rng.pick(&OBJ_KINDS);
            let op = ensure(doc, g, kind)?;
            // an empty contour is dropped by the reader, its entry then belongs to no object
            if kind == "contour" && node_mut(doc, &op).kids().map_or(true, |k| k.is_empty()) {
                return None;
            }
            let id = g.fresh_id();
            set_attr(node_mut(doc, &op), "identifier", &id, g.rng);
            let p = ensure(doc, g, "lib")?;
            let v = match g.rng.below(3) {
                0 => text_el("string", "x"),
                1 => el("array", vec![], vec![]),
                _ => em("true", vec![]),
            };
            *node_mut(doc, &p) = el("lib", vec![], vec![el("dict", vec![], vec![text_el("key", "public.objectLibs"), el("dict", vec![], vec![text_el("key", &id), v])])]);
            lab(&format!("object lib of {} is not a dictionary", kind), false, "")
        }
        // ---- malformed numbers, colours, code points, types, names
        24 => {
            let (kind, key) = *g.rng.pick(&NUM_ATTRS);
            let p = ensure(doc, g, kind)?;
            let v = *g.rng.pick(&NUM_BAD);
            let n = node_mut(doc, &p);
            if kind == "guideline" {
                set_attr(n, "x", "1", g.rng);
                set_attr(n, "y", "1", g.rng);
                set_attr(n, "angle", "1", g.rng);
            }
            set_attr(n, key, v, g.rng);
            lab(&format!("{} {}={:?}", kind, key, v), false, "")
        }
        25 => {
            let kind = *g.rng.pick(&["anchor", "guideline", "image"]);
            let p = ensure(doc, g, kind)?;
            let v = *g.rng.pick(&COLOR_BAD);
            set_attr(node_mut(doc, &p), "color", v, g.rng);
            lab(&format!("{} color={:?}", kind, v), false, "")
        }
        26 => {
            let p = ensure(doc, g, "unicode")?;
            let v = *g.rng.pick(&HEX_BAD);
            set_attr(node_mut(doc, &p), "hex", v, g.rng);
            lab(&format!("unicode hex={:?}", v), false, "")
        }
        27 => {
            let p = ensure(doc, g, "point")?;
            let v = *g.rng.pick(&["bogus", "", "Move", "line ", "off"]);
            set_attr(node_mut(doc, &p), "type", v, g.rng);
            lab(&format!("point type={:?}", v), false, "")
        }
        28 => {
            let (kind, key) = *g.rng.pick(&[("anchor", "name"), ("guideline", "name"), ("point", "name"), ("component", "base")]);
            let p = ensure(doc, g, kind)?;
            let v = *g.rng.pick(&NAME_BAD);
            set_attr(node_mut(doc, &p), key, v, g.rng);
            lab(&format!("{} {}={:?}", kind, key, v), false, "")
        }
        29 => {
            let p = ensure(doc, g, "image")?;
            let v = *g.rng.pick(&FILE_BAD);
            set_attr(node_mut(doc, &p), "fileName", v, g.rng);
            lab(&format!("image fileName={:?}", v), false, "")
        }
        // ---- contour sequences
        30 => {
            let p = ensure(doc, g, "contour")?;
            let len = g.rng.range(1, 6) as usize;
            let seq = gen_seq(g.rng, len, false);
            let pts: Vec<Node> = seq.iter().map(|(t, sm)| g.point(*t, *sm, None)).collect();
            *node_mut(doc, &p).kids_mut().unwrap() = pts;
            lab("illegal point sequence", false, "")
        }
        // ---- XML level
        31 => {
            let p = pick_site(doc, g.rng, |s| s.parent != "" || s.name == "glyph")?;
            let n = node_mut(doc, &p);
            let a = n.attrs_mut().unwrap();
            if a.is_empty() {
                return None;
            }
            let e = a[g.rng.below(a.len() as u64) as usize].clone();
            a.push(e);
            lab("repeated attribute", false, "")
        }
        // ---- legal surface forms norad rejects (F14, F17)
        32 => {
            let kind = *g.rng.pick(&["advance", "unicode", "image", "anchor", "guideline", "component", "point"]);
            let p = ensure(doc, g, kind)?;
            let n = node_mut(doc, &p);
            let a = n.attrs().unwrap().clone();
            *n = el(kind, a, vec![]);
            lab(&format!("{} in start-tag form", kind), true, "F14")
        }
        33 => {
            if ver == 1 {
                return None;
            }
            let p = ensure(doc, g, "note")?;
            *node_mut(doc, &p) = em("note", vec![]);
            lab("note self-closing", true, "F14")
        }
        34 => {
            let parent = *g.rng.pick(&["glyph", "outline", "contour"]);
            let p = if parent == "glyph" { vec![ri] } else { ensure(doc, g, parent)? };
            insert_child(doc, &p, g.rng, Node::Comment(" c ".into()));
            lab(&format!("comment inside {}", parent), true, "F14")
        }
        35 => {
            doc.insert(ri, Node::DocType("glyph".into()));
            lab("DOCTYPE before glyph", true, "F17")
        }
        36 => {
            let a = doc[ri].attrs().unwrap().clone();
            doc[ri] = em("glyph", a);
            lab("glyph self-closing", true, "F17")
        }
        37 => {
            if ver != 1 {
                return None;
            }
            let mut g2 = Gen { rng: &mut *g.rng, ver: 2, next_id: 0, ids: vec![] };
            let n = g2.note();
            insert_child(doc, &[ri], g.rng, n);
            lab("format 1 with note", true, "F17")
        }
        // ---- self-closing contour: attributes are never read (F16)
        38 => {
            let op = ensure(doc, g, "outline")?;
            let (a, legal, what): (Vec<(String, String)>, bool, &str) = match g.rng.below(5) {
                0 => (vec![at("bogus", "1")], false, "unknown attribute"),
                1 if ver == 1 => (vec![at("identifier", "c1")], false, "identifier in format 1"),
                1 => (vec![at("identifier", "\u{e9}")], false, "malformed identifier"),
                2 if ver == 2 => {
                    let ids = all_ids(doc);
                    if ids.is_empty() {
                        return None;
                    }
                    (vec![at("identifier", &g.rng.pick(&ids).clone())], false, "duplicate identifier")
                }
                3 if ver == 2 => (vec![at("identifier", &g.fresh_id())], true, "fresh identifier"),
                _ => (vec![at("identifier", "x"), at("identifier", "x")], false, "repeated attribute"),
            };
            insert_child(doc, &op, g.rng, em("contour", a));
            lab(&format!("self-closing contour with {}", what), legal, "")
        }
        39 => {
            // the identifier of a self-closing contour is not registered: a later duplicate passes
            if ver != 2 {
                return None;
            }
            let op = ensure(doc, g, "outline")?;
            let id = g.fresh_id();
            insert_child(doc, &op, g.rng, em("contour", vec![at("identifier", &id)]));
            let kind = *g.rng.pick(&["anchor", "guideline", "component", "point"]);
            let p = ensure(doc, g, kind)?;
            set_attr(node_mut(doc, &p), "identifier", &id, g.rng);
            lab(&format!("identifier of a self-closing contour repeated on {}", kind), false, "")
        }
        40 => {
            if ver == 1 {
                return None;
            }
            let p = ensure(doc, g, "note")?;
            let k = match g.rng.below(3) {
                0 => vec![Node::Text("x".into()), el("b", vec![], vec![Node::Text("in".into())]), Node::Text("y".into())],
                1 => vec![el("b", vec![], vec![Node::Text("only inside".into())])],
                _ => vec![Node::Text("t".into()), em("br", vec![])],
            };
            *node_mut(doc, &p) = el("note", vec![], k);
            lab("element inside note", false, "F16")
        }
        // ---- things the rules do not forbid (must be accepted)
        41 => {
            if ver == 1 {
                return None;
            }
            let p = ensure(doc, g, "note")?;
            let k = match g.rng.below(3) {
                0 => vec![Node::CData("cdata note".into())],
                1 => vec![Node::Comment("c".into()), Node::Text(" after comment ".into())],
                _ => vec![Node::Text("a".into()), Node::Comment("c".into()), Node::Text("b".into())],
            };
            *node_mut(doc, &p) = el("note", vec![], k);
            lab("note with CDATA / comments", true, "")
        }
        42 => {
            let p = ensure(doc, g, "point")?;
            let v = *g.rng.pick(&["maybe", "", "YES", "no"]);
            set_attr(node_mut(doc, &p), "smooth", v, g.rng);
            // smooth on an off-curve is a contour error only when it reads as yes
            lab(&format!("smooth={:?}", v), true, "")
        }
        43 => {
            let p = ensure(doc, g, "unicode")?;
            set_attr(node_mut(doc, &p), "hex", "+41", g.rng);
            lab("hex=+41", true, "")
        }
        44 => {
            if ver == 1 {
                return None;
            }
            let kind = *g.rng.pick(&OBJ_KINDS);
            let p = ensure(doc, g, kind)?;
            if all_ids(doc).iter().any(|i| i.is_empty()) {
                return None;
            }
            set_attr(node_mut(doc, &p), "identifier", "", g.rng);
            lab("empty identifier", true, "")
        }
        45 => {
            let p = ensure(doc, g, "lib")?;
            *node_mut(doc, &p) = el(
                "lib",
                vec![],
                vec![el(
                    "dict",
                    vec![],
                    vec![
                        text_el("key", "public.objectLibs"),
                        el("dict", vec![], vec![text_el("key", "nobody"), text_el("string", "orphan, not a dictionary")]),
                        text_el("key", "k"),
                        text_el("string", "v"),
                    ],
                )],
            );
            lab("orphan object lib that is not a dictionary", true, "")
        }
        46 => {
            // boundary identifiers / names / angles that are legal
            if ver == 1 {
                return None;
            }
            let p = ensure(doc, g, "guideline")?;
            let n = node_mut(doc, &p);
            set_attr(n, "x", "1", g.rng);
            set_attr(n, "y", "2", g.rng);
            let v = *g.rng.pick(&ANGLE_OK);
            set_attr(n, "angle", v, g.rng);
            lab(&format!("guideline angle {} (boundary, legal)", v), true, "")
        }
        47 => {
            if ver == 1 {
                return None;
            }
            let kind = *g.rng.pick(&OBJ_KINDS);
            let p = ensure(doc, g, kind)?;
            let id = "b".repeat(100);
            if all_ids(doc).contains(&id) {
                return None;
            }
            set_attr(node_mut(doc, &p), "identifier", &id, g.rng);
            lab("identifier of 100 characters (legal)", true, "")
        }
        48 => {
            // duplicate identifier between a point and its own contour / nested kinds
            if ver == 1 {
                return None;
            }
            let p = ensure(doc, g, "point")?;
            let cp = p[..p.len() - 1].to_vec();
            let id = g.fresh_id();
            set_attr(node_mut(doc, &cp), "identifier", &id, g.rng);
            set_attr(node_mut(doc, &p), "identifier", &id, g.rng);
            lab("point repeats the identifier of its contour", false, "")
        }
        49 => {
            // format 1: unknown attribute / any attribute on a contour in start form
            if ver != 1 {
                return None;
            }
            let p = ensure(doc, g, "contour")?;
            set_attr(node_mut(doc, &p), *g.rng.pick(&["bogus", "identifier"]), "1", g.rng);
            lab("format 1 contour with attribute", false, "")
        }
        50 => {
            // empty component base
            let p = ensure(doc, g, "component")?;
            set_attr(node_mut(doc, &p), "base", "", g.rng);
            lab("component base empty", false, "")
        }
        51 => {
            // second, identical code point: legal, de-duplicated
            let p = ensure(doc, g, "unicode")?;
            let n = node_mut(doc, &p).clone();
            insert_child(doc, &[ri], g.rng, n);
            lab("repeated code point (legal)", true, "")
        }
        52 => {
            // wrong root
            let a = doc[ri].attrs().unwrap().clone();
            let k = doc[ri].kids().cloned().unwrap_or_default();
            doc[ri] = el(*g.rng.pick(&["glif", "Glyph", "outline"]), a, k);
            lab("root element is not glyph", false, "")
        }
        53 => {
            // text or element before the root
            let n = if g.rng.chance(1, 2) { Node::Text("hello".into()) } else { em("pre", vec![]) };
            doc.insert(ri, n);
            lab("content before glyph", false, "")
        }
        54 => {
            // CDATA / text directly inside glyph, outline or contour
            let parent = *g.rng.pick(&["glyph", "outline", "contour"]);
            let p = if parent == "glyph" { vec![ri] } else { ensure(doc, g, parent)? };
            insert_child(doc, &p, g.rng, Node::CData("x".into()));
            lab(&format!("CDATA inside {}", parent), false, "")
        }
        // ---- look-alike names: prefixed, other case, affixed (all unknown to the reader)
        55 => {
            let kind = *g.rng.pick(&ELEMENT_NAMES);
            let p = if kind == "glyph" { vec![ri] } else { ensure(doc, g, kind)? };
            let (nn, decl, what) = twin(kind, g.rng);
            match node_mut(doc, &p) {
                Node::Empty(n, _) | Node::Elem(n, _, _) => *n = nn.clone(),
                _ => return None,
            }
            if let Some(d) = decl {
                set_attr(&mut doc[ri], d, NS_URI, g.rng);
            }
            lab(&format!("element {} written {} ({})", kind, nn, what), false, "")
        }
        56 => {
            let (kind, keys) = *g.rng.pick(&KNOWN_ATTRS);
            let key = *g.rng.pick(keys);
            let p = if kind == "glyph" { vec![ri] } else { ensure(doc, g, kind)? };
            let (nk, decl, what) = twin(key, g.rng);
            let rename = g.rng.chance(1, 2);
            let n = node_mut(doc, &p);
            let a = n.attrs_mut().unwrap();
            let how = match a.iter_mut().find(|e| e.0 == key) {
                Some(e) if rename => {
                    e.0 = nk.clone();
                    "in place of"
                }
                Some(e) => {
                    let v = e.1.clone();
                    set_attr(n, &nk, &v, g.rng);
                    "next to"
                }
                None => {
                    set_attr(n, &nk, default_value(key), g.rng);
                    "without"
                }
            };
            if let Some(d) = decl {
                set_attr(&mut doc[ri], d, NS_URI, g.rng);
            }
            lab(&format!("{} attribute {} {} {} ({})", kind, nk, how, key, what), false, "")
        }
        57 => {
            // a namespace declaration alone is an unknown attribute
            let kind = *g.rng.pick(&ELEMENT_NAMES);
            let p = if kind == "glyph" { vec![ri] } else { ensure(doc, g, kind)? };
            let k = *g.rng.pick(&["xmlns", "xmlns:p", "xml:lang", "xml:space"]);
            set_attr(node_mut(doc, &p), k, if k.starts_with("xmlns") { NS_URI } else { "preserve" }, g.rng);
            lab(&format!("{} on {}", k, kind), false, "")
        }
        58 => {
            // an extra prefixed twin of a known child, next to the real children
            let (parent, n) = match g.rng.below(4) {
                0 => ("contour", em("point", vec![at("x", "10"), at("y", "10"), at("type", "line")])),
                1 => ("outline", em("component", vec![at("base", "a")])),
                2 => ("outline", el("contour", vec![], vec![em("point", vec![at("x", "1"), at("y", "1"), at("type", "move"), at("name", "top")])])),
                _ => ("glyph", em("unicode", vec![at("hex", "41")])),
            };
            let p = if parent == "glyph" { vec![ri] } else { ensure(doc, g, parent)? };
            let mut n = n;
            let known = n.name().unwrap().to_string();
            let (nn, decl, what) = twin(&known, g.rng);
            match &mut n {
                Node::Empty(x, _) | Node::Elem(x, _, _) => *x = nn.clone(),
                _ => {}
            }
            // at the end, so that a contour stays a legal sequence if the twin were read as a point
            let k = node_mut(doc, &p).kids_mut()?;
            k.push(n);
            if let Some(d) = decl {
                set_attr(&mut doc[ri], d, NS_URI, g.rng);
            }
            lab(&format!("extra {} inside {} ({})", nn, parent, what), false, "")
        }
        _ => lab("none", true, ""),
    }
}

/// a legal document of a chosen size: [n_ids] objects with identifiers (format 2), [n_plain]
/// without, [n_uni] code points, [n_keys] lib keys
fn big_doc(rng: &mut Rng, ver: u32, n_ids: usize, n_plain: usize, n_uni: usize, n_keys: usize) -> Vec<Node> {
    let mut pts: Vec<Node> = Vec::new();
    let mut contour_ids: Vec<Option<String>> = Vec::new();
    let mut comps: Vec<Node> = Vec::new();
    let mut anchors: Vec<Node> = Vec::new();
    let mut guides: Vec<Node> = Vec::new();
    let mut ids: Vec<String> = Vec::new();
    let n_ids = if ver == 2 { n_ids } else { 0 };
    for j in 0..(n_ids + n_plain) {
        let id = if j < n_ids {
            let s = format!("i{}", j);
            ids.push(s.clone());
            Some(s)
        } else {
            None
        };
        let kinds = if ver == 2 { 5 } else { 3 };
        let mut a: Vec<(String, String)> = Vec::new();
        match rng.below(kinds) {
            0 => {
                a.push(at("x", &format!("{}", j)));
                a.push(at("y", "1"));
                a.push(at("type", "line"));
                if let Some(i) = &id {
                    a.push(at("identifier", i));
                }
                pts.push(em("point", a));
            }
            1 => contour_ids.push(id),
            2 => {
                a.push(at("base", "b"));
                if let Some(i) = &id {
                    a.push(at("identifier", i));
                }
                comps.push(em("component", a));
            }
            3 => {
                a.push(at("x", "1"));
                a.push(at("y", &format!("{}", j)));
                if let Some(i) = &id {
                    a.push(at("identifier", i));
                }
                anchors.push(em("anchor", a));
            }
            _ => {
                a.push(at("x", &format!("{}", j)));
                if let Some(i) = &id {
                    a.push(at("identifier", i));
                }
                guides.push(em("guideline", a));
            }
        }
    }
    // the points go into the contours, up to 7 each; every contour gets at least one point
    let per = 7;
    let need = (pts.len() + per - 1) / per;
    while contour_ids.len() < need {
        contour_ids.push(None);
    }
    let mut contours: Vec<Node> = Vec::new();
    let nc = contour_ids.len();
    let mut it = pts.into_iter();
    for (ci, cid) in contour_ids.into_iter().enumerate() {
        let mut k: Vec<Node> = Vec::new();
        let take = if ci + 1 == nc { usize::MAX } else { per };
        for _ in 0..take {
            match it.next() {
                Some(p) => k.push(p),
                None => break,
            }
        }
        if k.is_empty() {
            k.push(em("point", vec![at("x", "0"), at("y", "0"), at("type", "line")]));
        }
        let a = cid.map(|i| vec![at("identifier", &i)]).unwrap_or_default();
        contours.push(el("contour", a, k));
    }
    let mut kids: Vec<Node> = Vec::new();
    for u in 0..n_uni {
        kids.push(em("unicode", vec![at("hex", &format!("{:04X}", 0x41 + u))]));
    }
    kids.push(em("advance", vec![at("width", "500")]));
    let mut ok = contours;
    ok.extend(comps);
    if !ok.is_empty() {
        kids.push(el("outline", vec![], ok));
    }
    kids.extend(anchors);
    kids.extend(guides);
    if n_keys > 0 || !ids.is_empty() {
        let mut d: Vec<Node> = Vec::new();
        for k in 0..n_keys {
            d.push(text_el("key", &format!("key{}", (k * 7919) % 100_003)));
            d.push(text_el("string", "v"));
        }
        let mut inner: Vec<Node> = Vec::new();
        for (j, i) in ids.iter().enumerate() {
            if j % 3 == 0 {
                inner.push(text_el("key", i));
                inner.push(el("dict", vec![], vec![text_el("key", "n"), text_el("integer", &format!("{}", j))]));
            }
        }
        if !inner.is_empty() {
            d.push(text_el("key", "public.objectLibs"));
            d.push(el("dict", vec![], inner));
        }
        if !d.is_empty() {
            kids.push(el("lib", vec![], vec![el("dict", vec![], d)]));
        }
    }
    vec![Node::Decl, el("glyph", vec![at("name", "big"), at("format", if ver == 2 { "2" } else { "1" })], kids)]
}

fn node_ref<'a>(doc: &'a [Node], path: &[usize]) -> &'a Node {
    let mut n = &doc[path[0]];
    for i in &path[1..] {
        n = &n.kids().unwrap()[*i];
    }
    n
}

/// the rules a returned glyph must satisfy whatever the document was (C12_returned_glyph_rules)
fn returned_glyph_breaks_rules(g: &norad::Glyph, ver: u32) -> Option<String> {
    if g.contours.iter().any(|c| c.points.is_empty()) {
        return Some("a contour without points".into());
    }
    let mut ids: Vec<String> = Vec::new();
    ids.extend(g.anchors.iter().filter_map(|a| a.identifier().map(|i| i.as_str().to_string())));
    ids.extend(g.guidelines.iter().filter_map(|a| a.identifier().map(|i| i.as_str().to_string())));
    ids.extend(g.components.iter().filter_map(|a| a.identifier().map(|i| i.as_str().to_string())));
    for c in &g.contours {
        ids.extend(c.identifier().map(|i| i.as_str().to_string()));
        ids.extend(c.points.iter().filter_map(|p| p.identifier().map(|i| i.as_str().to_string())));
    }
    let n = ids.len();
    ids.sort();
    ids.dedup();
    if ids.len() != n {
        return Some("identifiers not unique within the glyph".into());
    }
    if g.lib.contains_key("public.objectLibs") {
        return Some("public.objectLibs left in the lib".into());
    }
    if ver == 1 && g.contours.iter().any(|c| c.points.len() == 1 && c.points[0].typ == norad::PointType::Move && c.points[0].name.is_some()) {
        return Some("format 1: a single named move point was not turned into an anchor".into());
    }
    None
}

fn node_of_json(v: &serde_json::Value) -> Node {
    let arr = v.as_array().expect("node");
    let tag = arr[0].as_str().unwrap_or("");
    let st = |i: usize| arr.get(i).and_then(|x| x.as_str()).unwrap_or("").to_string();
    let attrs = |i: usize| -> Vec<(String, String)> {
        arr.get(i)
            .and_then(|x| x.as_array())
            .map(|l| l.iter().map(|kv| (kv[0].as_str().unwrap_or("").to_string(), kv[1].as_str().unwrap_or("").to_string())).collect())
            .unwrap_or_default()
    };
    match tag {
        "E" => Node::Empty(st(1), attrs(2)),
        "S" => Node::Elem(st(1), attrs(2), arr.get(3).and_then(|x| x.as_array()).map(|l| l.iter().map(node_of_json).collect()).unwrap_or_default()),
        "T" => Node::Text(st(1)),
        "CD" => Node::CData(st(1)),
        "C" => Node::Comment(st(1)),
        "DT" => Node::DocType(st(1)),
        _ => Node::Decl,
    }
}

fn emit(out: &mut String, id: i64, ver: u32, label: &Label, doc: &[Node], xml: &str, corpus: &str) {
    emit_ex(out, id, ver, label, doc, xml, corpus, false)
}
/// [nomodel]: the document is too large for the Coq evaluation; the implementation-side oracle only
#[allow(clippy::too_many_arguments)]
fn emit_ex(out: &mut String, id: i64, ver: u32, label: &Label, doc: &[Node], xml: &str, corpus: &str, nomodel: bool) {
    let (tm, short, parsed) = parse_outcome(xml.as_bytes());
    let rules = parsed.as_ref().and_then(|g| returned_glyph_breaks_rules(g, ver)).unwrap_or_default();
    let (c14, c16, c17) = (f14(doc), f16(doc), f17(doc));
    let tm = Xt::L(vec![tm, Xt::L(vec![Xt::b(label.legal), Xt::b(c14), Xt::b(c16), Xt::b(c17)])]);
    let tbl = pf_table(doc);
    let _ = std::fmt::Write::write_fmt(
        out,
        format_args!(
            "{{\"id\":{},\"ver\":{},\"inj\":{},\"legal\":{},\"class\":{},\"f14\":{},\"f16\":{},\"f17\":{},\"rules\":{},\"impl\":{},\"case\":{},\"exp\":{},\"xml\":{},\"corpus\":{},\"nomodel\":{}}}\n",
            id,
            ver,
            json_str(&label.inj),
            label.legal,
            json_str(label.class),
            c14,
            c16,
            c17,
            json_str(&rules),
            json_str(&short),
            json_str(&if nomodel { String::from("[]") } else { Xt::L(vec![xt_doc(doc), xt_pf_table(&tbl)]).packed() }),
            json_str(&if nomodel { String::from("[]") } else { tm.packed() }),
            json_str(xml),
            json_str(corpus),
            nomodel
        ),
    );
}

pub fn main(a: &Args) {
    if std::env::var("VERIF_DEBUG").is_ok() {
        let _ = std::panic::take_hook();
    }
    if let Some(p) = &a.replay {
        let s = std::fs::read_to_string(p).expect("replay file");
        let v: serde_json::Value = serde_json::from_str(&s).expect("json");
        let xml = v["xml"].as_str().unwrap_or("");
        let (tm, short, _) = parse_outcome(xml.as_bytes());
        println!("{}", short);
        println!("{}", tm.to_tm().to_string());
        return;
    }
    let mut rng = Rng::new(a.seed);
    // committed witnesses first: --corpus DIR
    if let Some(i) = a.extra.iter().position(|x| x == "--corpus") {
        let dir = std::path::PathBuf::from(&a.extra[i + 1]);
        let mut names: Vec<_> = std::fs::read_dir(&dir).map(|d| d.filter_map(|e| e.ok()).map(|e| e.path()).collect()).unwrap_or_default();
        names.sort();
        let mut out = String::new();
        let mut k = 0i64;
        for p in names {
            if p.extension().and_then(|x| x.to_str()) != Some("json") {
                continue;
            }
            let v: serde_json::Value = serde_json::from_str(&std::fs::read_to_string(&p).expect("corpus file")).expect("corpus json");
            let doc: Vec<Node> = v["doc"].as_array().expect("doc").iter().map(node_of_json).collect();
            let class: &'static str = match v["class"].as_str().unwrap_or("") {
                "F14" => "F14",
                "F16" => "F16",
                "F17" => "F17",
                _ => "",
            };
            let label = Label { inj: v["inj"].as_str().unwrap_or("").to_string(), legal: v["legal"].as_bool().unwrap_or(false), class };
            let ver = 0;
            for vary in [false, true] {
                k -= 1;
                let xml = render(&doc, &mut rng, vary);
                emit(&mut out, k, ver, &label, &doc, &xml, p.file_name().and_then(|x| x.to_str()).unwrap_or(""));
            }
        }
        write_file(&a.out.join("cases_corpus.jsonl"), &out);
    }
    // ---- sizes: every identifier count 0..70, some large ones; many objects without identifiers,
    // many code points, many lib keys (thresholds in any per-glyph collection)
    {
        let mut out = String::new();
        let mut specs: Vec<(u32, usize, usize, usize, usize)> = Vec::new();
        for k in 0..=70usize {
            specs.push((2, k, (k * 3) % 5, k % 3, k % 4));
        }
        for k in [100usize, 150, 300, 1000] {
            specs.push((2, k, 3, 1, 2));
        }
        for k in [41usize, 100, 1000] {
            specs.push((1, 0, k, 1, 0));
            specs.push((2, 0, k, 1, 0));
        }
        for k in [41usize, 300] {
            specs.push((2, 2, 2, k, 1));
        }
        for k in [41usize, 300, 1000] {
            specs.push((2, 1, 2, 1, k));
        }
        let mut r2 = rng.fork();
        for (j, (ver, n_ids, n_plain, n_uni, n_keys)) in specs.into_iter().enumerate() {
            let doc = big_doc(&mut r2, ver, n_ids, n_plain, n_uni, n_keys);
            let label = Label { inj: format!("size: {} identifiers, {} objects without, {} code points, {} lib keys", n_ids, n_plain, n_uni, n_keys), legal: true, class: "" };
            let xml = render(&doc, &mut r2, j % 2 == 1);
            emit_ex(&mut out, -(10_000 + j as i64), ver, &label, &doc, &xml, "", n_ids + n_plain + n_uni + n_keys > 160);
        }
        write_file(&a.out.join("cases_sizes.jsonl"), &out);
    }
    let n = if a.thorough() { 100_000 } else { 16_000 };
    let mut out = String::new();
    let mut i = 0u64;
    let mut file_no = 0;
    let per_file = 1000;
    let mut in_file = 0;
    while i < n {
        let ver = if rng.chance(2, 5) { 1 } else { 2 };
        let mut r2 = rng.fork();
        let mut g = Gen { rng: &mut r2, ver, next_id: 0, ids: vec![] };
        let mut doc = g.doc();
        // 1..=58, the look-alike names (55, 56) three times as often as the others
        let which = if i % 7 == 0 {
            0
        } else {
            match 1 + g.rng.below(N_INJ - 2) {
                59 | 60 => 55,
                61 | 62 => 56,
                w => w,
            }
        };
        let label = match inject(&mut doc, &mut g, which) {
            Some(l) => l,
            None => continue,
        };
        let vary = i % 5 != 0;
        let xml = render(&doc, g.rng, vary);
        emit(&mut out, i as i64, ver, &label, &doc, &xml, "");
        i += 1;
        in_file += 1;
        if in_file == per_file {
            write_file(&a.out.join(format!("cases_{}.jsonl", file_no)), &out);
            out.clear();
            file_no += 1;
            in_file = 0;
        }
    }
    if in_file > 0 {
        write_file(&a.out.join(format!("cases_{}.jsonl", file_no)), &out);
        file_no += 1;
    }
    write_file(&a.out.join("summary.json"), &format!("{{\"cases\":{},\"files\":{}}}", n, file_no));
}
