//! Structured generator of VALID abstract fonts (JSON format of lib/ufoio.py / fontio.rs).
//!
//! Include with `#[path = "fontio_gen.rs"] mod fontio_gen;` next to `fontio`.
//! `gen_font(rng, size)` stays outside every known-finding class; `gen_font_with(rng, size, &opts)`
//! additionally produces the classes switched on in `GenOpts`.
#![allow(dead_code)]
use crate::util::Rng;
use serde_json::{json, Map, Value as J};

/// f64 -> Python float.hex() string (same function as fontio::f64_to_hex; duplicated so that the
/// generator can be included without fontio).
fn hx(x: f64) -> J {
    let s = if x.is_nan() {
        "nan".to_string()
    } else if x.is_infinite() {
        if x < 0.0 { "-inf".into() } else { "inf".into() }
    } else {
        let bits = x.to_bits();
        let sign = if bits >> 63 == 1 { "-" } else { "" };
        let exp = ((bits >> 52) & 0x7ff) as i64;
        let frac = bits & ((1u64 << 52) - 1);
        if exp == 0 && frac == 0 {
            format!("{}0x0.0p+0", sign)
        } else if exp == 0 {
            format!("{}0x0.{:013x}p-1022", sign, frac)
        } else {
            let e = exp - 1023;
            format!("{}0x1.{:013x}p{}{}", sign, frac, if e < 0 { "-" } else { "+" }, e.abs())
        }
    };
    J::String(s)
}

#[derive(Clone, Debug, Default)]
pub struct GenOpts {
    /// F3: line breaks in strings / keys of glyph libs and of object libs stored in a glif
    pub glyph_lib_linebreaks: bool,
    /// F3: notes with leading / trailing white space, and the empty note
    pub note_blanks: bool,
    /// F2 remainder: non-zero kerning / font-info numbers of magnitude <= 1e-12 (flushed to 0)
    pub f2_numbers: bool,
    /// F13: formatVersionMinor != 0 together with a creator that is not norad's
    pub f13_meta: bool,
    /// carriage returns in glyph notes (written literally by the glif writer)
    pub cr_in_note: bool,
    /// contours without points (dropped by the glif parser)
    pub empty_contours: bool,
    /// advance widths / heights that are sub-normal (not written by the glif writer)
    pub subnormal_advance: bool,
    /// tab / line break inside an image file name (attribute value normalisation)
    pub attr_ws: bool,
    /// carriage returns in plist strings outside glyph libs (font lib, font info, layer lib)
    pub cr_in_plist: bool,
}

impl GenOpts {
    pub fn all() -> GenOpts {
        GenOpts {
            glyph_lib_linebreaks: true,
            note_blanks: true,
            f2_numbers: true,
            f13_meta: true,
            cr_in_note: true,
            empty_contours: true,
            subnormal_advance: true,
            attr_ws: true,
            cr_in_plist: true,
        }
    }
    pub fn from_names(names: &[String]) -> GenOpts {
        let mut o = GenOpts::default();
        for n in names {
            match n.as_str() {
                "all" => o = GenOpts::all(),
                "glyph_lib_linebreaks" => o.glyph_lib_linebreaks = true,
                "note_blanks" => o.note_blanks = true,
                "f2_numbers" => o.f2_numbers = true,
                "f13_meta" => o.f13_meta = true,
                "cr_in_note" => o.cr_in_note = true,
                "empty_contours" => o.empty_contours = true,
                "subnormal_advance" => o.subnormal_advance = true,
                "attr_ws" => o.attr_ws = true,
                "cr_in_plist" => o.cr_in_plist = true,
                _ => {}
            }
        }
        o
    }
}

pub fn gen_font(rng: &mut Rng, size: u32) -> J {
    gen_font_with(rng, size, &GenOpts::default())
}

// ------------------------------------------------------------------------------------------
// strings

const WORDS: &[&str] = &[
    "a", "B", "xyz", "Hello", "0", "42", "_", "-", ".", "..", "a.b", "A_B", "con", "nul", "x y",
    "<", ">", "&", "\"", "'", "<&>", "&amp;", "&#65;", "]]>", "<![CDATA[", "<!--", "-->", "</string>",
    "\u{e9}", "\u{df}", "\u{3a9}", "\u{4e2d}\u{6587}", "\u{1F600}", "\u{1D49C}", "e\u{301}", "\u{a0}",
    "\u{2028}", "\u{fffd}", "\u{ff21}", "\u{1c5}", "=", "/", "\\", ":", "*", "?", "|", "+", "~", "%",
];

#[derive(Clone, Copy, PartialEq)]
enum Ctx {
    /// plist string outside a glif (line breaks allowed)
    Plist,
    /// string or key inside a glyph lib / glyph object lib (line breaks are class F3)
    GlyphLib,
    /// a norad `Name`: no control characters, not empty
    Name,
}

struct G<'a> {
    rng: &'a mut Rng,
    o: GenOpts,
    size: u32,
    uniq: u64,
}

impl<'a> G<'a> {
    fn below(&mut self, n: u64) -> u64 {
        self.rng.below(n)
    }
    fn chance(&mut self, num: u64, den: u64) -> bool {
        self.rng.chance(num, den)
    }
    fn uniq(&mut self) -> u64 {
        self.uniq += 1;
        self.uniq
    }

    fn text(&mut self, ctx: Ctx, allow_empty: bool) -> String {
        let mut s = String::new();
        let n = match self.below(10) {
            0 if allow_empty => 0,
            0..=5 => 1,
            6..=8 => 2 + self.below(2),
            _ => 4 + self.below(5),
        };
        if ctx != Ctx::Name || true {
            // leading blank
            if n > 0 && self.chance(1, 8) {
                s.push(' ');
            }
        }
        for i in 0..n {
            if i > 0 && self.chance(1, 3) {
                s.push(' ');
            }
            let w = WORDS[self.below(WORDS.len() as u64) as usize];
            s.push_str(w);
            let lb_ok = match ctx {
                Ctx::Plist => true,
                Ctx::GlyphLib => self.o.glyph_lib_linebreaks,
                Ctx::Name => false,
            };
            if ctx != Ctx::Name && self.chance(1, 12) {
                s.push('\t');
            }
            if lb_ok && self.chance(1, 8) {
                let cr_ok = match ctx {
                    Ctx::Plist => self.o.cr_in_plist,
                    Ctx::GlyphLib => true,
                    Ctx::Name => false,
                };
                match self.below(if cr_ok { 4 } else { 2 }) {
                    0 => s.push('\n'),
                    1 => s.push_str("\n  "),
                    2 => s.push_str("\r\n"),
                    _ => s.push('\r'),
                }
            }
        }
        if n > 0 && self.chance(1, 8) {
            s.push(' ');
        }
        if s.is_empty() && !allow_empty {
            s.push('x');
        }
        s
    }

    fn name(&mut self) -> String {
        self.text(Ctx::Name, false)
    }

    /// a short readable name, often ASCII
    fn glyph_name(&mut self) -> String {
        match self.below(6) {
            0 => self.name(),
            1 => ["a", "A", "a_", "A_", ".notdef", "con", "aux.alt", "f_f_i", "AE", "ae"][self.below(10) as usize].to_string(),
            _ => {
                let base = ["A", "B", "a", "b", "one", "space", "uni0041", "Aacute", "x.sc", "T_h"][self.below(10) as usize];
                if self.chance(1, 2) {
                    base.to_string()
                } else {
                    format!("{}.{}", base, self.below(20))
                }
            }
        }
    }

    fn identifier(&mut self) -> String {
        // unique by construction: a counter is embedded
        let u = self.uniq();
        let deco = [
            "", "id", "<", ">", "&", "\"", "'", " ", "  x ", "~", "{}", "a=b", "&lt;", "]]>", "0", "#", "%41",
        ];
        let a = deco[self.below(deco.len() as u64) as usize];
        let b = deco[self.below(deco.len() as u64) as usize];
        let mut s = format!("{}{}{}", a, u, b);
        if self.chance(1, 40) {
            // maximal length 100
            while s.len() < 100 {
                s.push('z');
            }
        }
        s
    }

    // --------------------------------------------------------------------------------------
    // numbers

    fn boundary(&mut self) -> f64 {
        const B: &[f64] = &[
            0.0,
            -0.0,
            0.5,
            1e-7,
            0.999_999_999_999_999_9, // 1 - 2^-53
            2147483647.0,
            2147483648.0,
            3e9,
            1e15,
            1.0,
            -1.0,
            0.1,
            1.0 / 3.0,
            255.0,
            256.5,
            1000.0,
            65535.0,
            1e-3,
            123456.789,
            4294967295.0,
            4294967296.0,
            9007199254740992.0,
            9007199254740993.0,
            1e21,
            1e22,
            1.7976931348623157e308,
            2.2250738585072014e-308,
            1e300,
            1e-300,
            1.0000000000000002,
            2147483647.5,
            -2147483648.0,
            -2147483649.0,
        ];
        let v = B[self.below(B.len() as u64) as usize];
        if self.chance(1, 2) {
            -v
        } else {
            v
        }
    }

    fn random_f64(&mut self) -> f64 {
        loop {
            let v = f64::from_bits(self.rng.next());
            if v.is_finite() && (v == 0.0 || v.is_normal()) {
                return v;
            }
        }
    }

    /// a finite coordinate-like number
    fn number(&mut self) -> f64 {
        match self.below(10) {
            0..=3 => self.rng.range(-1000, 1000) as f64,
            4 => (self.rng.range(-100000, 100000) as f64) / 8.0,
            5 => (self.rng.range(-100000, 100000) as f64) / 100.0,
            6 | 7 => self.boundary(),
            8 => self.random_f64(),
            _ => {
                let m = self.rng.range(-9999, 9999) as f64;
                let e = self.rng.range(-12, 18) as i32;
                m * 10f64.powi(e)
            }
        }
    }

    /// a number for the integer-or-float writers (kerning, font info)
    fn iof_number(&mut self) -> f64 {
        loop {
            let v = self.number();
            if self.o.f2_numbers || iof_safe(v) {
                return v;
            }
        }
    }

    fn advance_number(&mut self) -> f64 {
        if self.o.subnormal_advance && self.chance(1, 6) {
            return [5e-324, 2.2250738585072009e-308, -5e-324][self.below(3) as usize];
        }
        match self.below(6) {
            0 => 0.0,
            1..=3 => self.rng.range(0, 2000) as f64,
            _ => self.number(),
        }
    }

    fn color(&mut self) -> J {
        let mut c = Vec::new();
        for _ in 0..4 {
            let k = match self.below(5) {
                0 => 0,
                1 => 1000,
                2 => 500,
                _ => self.below(1001),
            };
            c.push(hx(k as f64 / 1000.0));
        }
        J::Array(c)
    }

    fn opt_color(&mut self) -> J {
        if self.chance(1, 3) {
            self.color()
        } else {
            J::Null
        }
    }

    fn transform(&mut self) -> J {
        let mut t = vec![1.0, 0.0, 0.0, 1.0, 0.0, 0.0];
        match self.below(4) {
            0 => {}
            1 => {
                t[4] = self.number();
                t[5] = self.number();
            }
            _ => {
                for (i, x) in t.iter_mut().enumerate() {
                    if self.rng.chance(1, 2) {
                        *x = match self.rng.below(4) {
                            0 => {
                                if i == 0 || i == 3 {
                                    1.0
                                } else {
                                    0.0
                                }
                            }
                            1 => -1.0,
                            2 => 0.5,
                            _ => 0.0,
                        };
                    }
                }
                if self.chance(1, 2) {
                    let i = self.below(6) as usize;
                    t[i] = self.number();
                }
            }
        }
        J::Array(t.into_iter().map(hx).collect())
    }

    // --------------------------------------------------------------------------------------
    // plist values

    fn pv(&mut self, depth: u32, ctx: Ctx) -> J {
        let k = if depth == 0 { self.below(7) } else { self.below(10) };
        match k {
            0 => {
                let v: J = match self.below(8) {
                    0 => json!(0),
                    1 => json!(-1),
                    2 => json!(i64::MAX),
                    3 => json!(i64::MIN),
                    4 => json!(u64::MAX),
                    5 => json!(2147483648u64),
                    _ => json!(self.rng.range(-100000, 100000)),
                };
                json!({"t": "int", "v": v})
            }
            1 => {
                let v = self.number();
                json!({"t": "real", "v": hx(v)})
            }
            2 | 3 => json!({"t": "str", "v": self.text(ctx, true)}),
            4 => json!({"t": "bool", "v": self.chance(1, 2)}),
            5 => {
                let n = match self.below(4) {
                    0 => 0,
                    1 => self.below(8),
                    2 => 40 + self.below(30),
                    _ => self.below(200),
                };
                let mut s = String::new();
                for _ in 0..n {
                    s.push_str(&format!("{:02x}", self.below(256)));
                }
                json!({"t": "data", "v": s})
            }
            6 => {
                let (y, mo, d, h, mi, s) = (
                    [1970, 1999, 2000, 2001, 2024, 2038, 2100, 1904, 1969][self.below(9) as usize],
                    1 + self.below(12),
                    1 + self.below(28),
                    self.below(24),
                    self.below(60),
                    self.below(60),
                );
                json!({"t": "date", "v": format!("{:04}-{:02}-{:02}T{:02}:{:02}:{:02}Z", y, mo, d, h, mi, s)})
            }
            7 | 8 => {
                let n = self.below(4);
                let v: Vec<J> = (0..n).map(|_| self.pv(depth - 1, ctx)).collect();
                json!({"t": "array", "v": v})
            }
            _ => json!({"t": "dict", "v": self.lib_dict(depth - 1, ctx, 3)}),
        }
    }

    /// {key: PV}
    fn lib_dict(&mut self, depth: u32, ctx: Ctx, max: u64) -> J {
        let n = self.below(max + 1);
        let mut m = Map::new();
        for _ in 0..n {
            let k = match self.below(5) {
                0 => self.text(ctx, true),
                1 => format!("com.example.{}", self.below(50)),
                2 => format!("public.{}", ["glyphOrder", "postscriptNames", "skipExportGlyphs", "markColor"][self.below(4) as usize]),
                _ => self.text(ctx, false),
            };
            if k == "public.objectLibs" {
                continue;
            }
            let v = self.pv(depth, ctx);
            m.insert(k, v);
        }
        J::Object(m)
    }

    fn lib(&mut self, ctx: Ctx) -> J {
        if self.chance(1, 2) {
            json!({})
        } else {
            let max = 2 + self.size as u64 * 2;
            self.lib_dict(3, ctx, max)
        }
    }

    /// object lib: null | {..}; only when an identifier is present
    fn obj_lib(&mut self, has_id: bool) -> J {
        if has_id && self.chance(1, 3) {
            self.lib_dict(2, Ctx::GlyphLib, 2)
        } else {
            J::Null
        }
    }

    fn opt_ident(&mut self) -> J {
        if self.chance(1, 3) {
            J::String(self.identifier())
        } else {
            J::Null
        }
    }

    fn opt_name(&mut self) -> J {
        if self.chance(1, 3) {
            J::String(self.name())
        } else {
            J::Null
        }
    }

    // --------------------------------------------------------------------------------------
    // glyph parts

    fn guideline(&mut self, in_glyph: bool) -> J {
        let (x, y, a) = match self.below(3) {
            0 => (hx(self.number()), J::Null, J::Null),
            1 => (J::Null, hx(self.number()), J::Null),
            _ => {
                let ang = match self.below(6) {
                    0 => 0.0,
                    1 => 360.0,
                    2 => 359.999_999_999,
                    3 => 0.5,
                    4 => 90.0,
                    _ => self.below(36000) as f64 / 100.0,
                };
                (hx(self.number()), hx(self.number()), hx(ang))
            }
        };
        let id = self.opt_ident();
        let lib = if id.is_null() || !self.chance(1, 3) {
            J::Null
        } else {
            self.lib_dict(2, if in_glyph { Ctx::GlyphLib } else { Ctx::Plist }, 2)
        };
        json!({"x": x, "y": y, "angle": a, "name": self.opt_name(), "color": self.opt_color(), "identifier": id, "lib": lib})
    }

    fn contour(&mut self) -> J {
        // legal point sequences: `move` only first; a `line` never directly after an off-curve
        // (cyclically for closed contours); at most two off-curves before a `curve`; any number
        // before a `qcurve`; open contours do not end with off-curves; off-curves are not smooth.
        let open = self.chance(1, 3);
        let nseg = match self.below(8) {
            0 => 0,
            1 => 1,
            _ => 1 + self.below(5),
        };
        let mut types: Vec<&str> = Vec::new();
        if nseg == 0 {
            if self.o.empty_contours && self.chance(1, 2) {
                // no points at all
            } else if open {
                types.push("move");
            } else if self.chance(1, 2) {
                // closed contour of off-curves only (TrueType style)
                for _ in 0..1 + self.below(4) {
                    types.push("offcurve");
                }
            } else {
                types.push(["line", "curve", "qcurve"][self.below(3) as usize]);
            }
        } else {
            if open {
                types.push("move");
            }
            for _ in 0..nseg {
                match self.below(3) {
                    0 => types.push("line"),
                    1 => {
                        for _ in 0..self.below(3) {
                            types.push("offcurve");
                        }
                        types.push("curve");
                    }
                    _ => {
                        for _ in 0..self.below(5) {
                            types.push("offcurve");
                        }
                        types.push("qcurve");
                    }
                }
            }
            if !open && self.chance(1, 2) {
                // rotate so that the contour may start with off-curves: the off-curves that are
                // moved to the end still precede (cyclically) the same on-curve point
                let k = self.below(types.len() as u64) as usize;
                types.rotate_left(k);
                // a closed contour must not start with a point that makes a `line` follow an
                // off-curve: rotation preserves cyclic order, so legality is preserved
            }
        }
        let mut pts = Vec::new();
        for t in &types {
            let smooth = *t != "offcurve" && self.chance(1, 4);
            let id = if self.chance(1, 6) { J::String(self.identifier()) } else { J::Null };
            let lib = self.obj_lib(!id.is_null());
            pts.push(json!({
                "x": hx(self.number()), "y": hx(self.number()), "type": t, "smooth": smooth,
                "name": if self.chance(1, 6) { J::String(self.name()) } else { J::Null },
                "identifier": id, "lib": lib,
            }));
        }
        let id = self.opt_ident();
        let lib = self.obj_lib(!id.is_null());
        json!({"identifier": id, "lib": lib, "points": pts})
    }

    fn note(&mut self) -> J {
        if !self.chance(1, 3) {
            return J::Null;
        }
        if self.o.note_blanks && self.chance(1, 3) {
            return J::String(["", " ", " x", "x ", "\nx\n", "\tx", "  multi\n  line  "][self.below(7) as usize].to_string());
        }
        let mut parts = Vec::new();
        for _ in 0..1 + self.below(3) {
            parts.push(self.text(Ctx::Name, false).trim().to_string());
        }
        let seps: &[&str] = if self.o.cr_in_note { &[" ", "\n", "\n\n  ", "\t", "\r\n", "\r"] } else { &[" ", "\n", "\n\n  ", "\t"] };
        let mut s = String::new();
        for (i, p) in parts.iter().enumerate() {
            if i > 0 {
                s.push_str(seps[self.below(seps.len() as u64) as usize]);
            }
            s.push_str(if p.is_empty() { "x" } else { p });
        }
        // the parts are trimmed with Rust's `trim` (Unicode White_Space), so the note neither
        // starts nor ends with a blank of any kind
        J::String(s)
    }

    fn glyph(&mut self, name: &str, all_names: &[String]) -> J {
        let unicodes: Vec<u32> = {
            let mut v: Vec<u32> = Vec::new();
            let n = match self.below(4) {
                0 => 0,
                1 | 2 => 1,
                _ => 2 + self.below(3),
            };
            for _ in 0..n {
                let c = match self.below(8) {
                    0 => 0x41,
                    1 => 0x10FFFF,
                    2 => 0,
                    3 => 0xFFFF,
                    4 => 0xE000,
                    5 => 0x1F600,
                    _ => loop {
                        let c = self.below(0x30000) as u32;
                        if !(0xD800..=0xDFFF).contains(&c) {
                            break c;
                        }
                    },
                };
                if !v.contains(&c) {
                    v.push(c);
                }
            }
            v
        };
        let image = if self.chance(1, 5) {
            let mut f = match self.below(4) {
                0 => "image.png".to_string(),
                1 => format!("img {}.png", self.below(10)),
                2 => self.name().replace('/', "_"),
                _ => "\u{e9}<&>'\".png".to_string(),
            };
            if f == "." || f == ".." {
                f.push('x');
            }
            if self.o.attr_ws && self.chance(1, 2) {
                f.push_str("\tx\ny");
            }
            json!({"fileName": f, "transform": self.transform(), "color": self.opt_color()})
        } else {
            J::Null
        };
        let ng = if self.chance(1, 3) { self.below(3) } else { 0 };
        let guidelines: Vec<J> = (0..ng).map(|_| self.guideline(true)).collect();
        let na = if self.chance(1, 3) { 1 + self.below(3) } else { 0 };
        let anchors: Vec<J> = (0..na)
            .map(|_| {
                let id = self.opt_ident();
                let lib = self.obj_lib(!id.is_null());
                json!({"x": hx(self.number()), "y": hx(self.number()), "name": self.opt_name(), "color": self.opt_color(), "identifier": id, "lib": lib})
            })
            .collect();
        let nc = if self.chance(2, 3) { self.below(2 + self.size as u64 * 2) } else { 0 };
        let contours: Vec<J> = (0..nc).map(|_| self.contour()).collect();
        let nk = if self.chance(1, 3) { 1 + self.below(3) } else { 0 };
        let components: Vec<J> = (0..nk)
            .map(|_| {
                let base = if !all_names.is_empty() && self.chance(2, 3) {
                    all_names[self.below(all_names.len() as u64) as usize].clone()
                } else {
                    self.glyph_name()
                };
                let id = self.opt_ident();
                let lib = self.obj_lib(!id.is_null());
                json!({"base": base, "transform": self.transform(), "identifier": id, "lib": lib})
            })
            .collect();
        json!({
            "name": name, "file": J::Null,
            "advance": [hx(self.advance_number()), if self.chance(1, 4) { hx(self.advance_number()) } else { hx(0.0) }],
            "unicodes": unicodes,
            "note": self.note(),
            "image": image,
            "guidelines": guidelines,
            "anchors": anchors,
            "contours": contours,
            "components": components,
            "lib": self.lib(Ctx::GlyphLib),
        })
    }

    fn layer(&mut self, name: String, max_glyphs: u64) -> J {
        let n = self.below(max_glyphs + 1);
        let mut names: Vec<String> = Vec::new();
        for _ in 0..n {
            let g = self.glyph_name();
            if !names.contains(&g) {
                names.push(g);
            }
        }
        names.sort();
        let glyphs: Vec<J> = names.iter().map(|g| self.glyph(g, &names)).collect();
        // layer info: colour only / lib only / both / none
        let (color, lib) = match self.below(4) {
            0 => (J::Null, json!({})),
            1 => (self.color(), json!({})),
            2 => (J::Null, self.lib_dict(3, Ctx::Plist, 3)),
            _ => (self.color(), self.lib_dict(3, Ctx::Plist, 3)),
        };
        json!({"name": name, "dir": J::Null, "color": color, "lib": lib, "glyphs": glyphs})
    }

    // --------------------------------------------------------------------------------------
    // font info

    fn info_str(&mut self) -> J {
        json!({"t": "str", "v": self.text(Ctx::Plist, true)})
    }

    fn woff_text_records(&mut self, allow_empty: bool) -> J {
        let n = if allow_empty { self.below(3) } else { 1 + self.below(2) };
        let v: Vec<J> = (0..n)
            .map(|_| {
                let mut m = Map::new();
                m.insert("text".into(), self.info_str());
                if self.chance(1, 2) {
                    m.insert("language".into(), json!({"t": "str", "v": (["en", "fr", "de-CH", ""][self.below(4) as usize])}));
                }
                if self.chance(1, 2) {
                    m.insert("dir".into(), json!({"t": "str", "v": (["ltr", "rtl"][self.below(2) as usize])}));
                }
                if self.chance(1, 2) {
                    m.insert("class".into(), self.info_str());
                }
                json!({"t": "dict", "v": m})
            })
            .collect();
        json!({"t": "array", "v": v})
    }

    fn opt_dir_class(&mut self, m: &mut Map<String, J>) {
        if self.chance(1, 2) {
            m.insert("dir".into(), json!({"t": "str", "v": (["ltr", "rtl"][self.below(2) as usize])}));
        }
        if self.chance(1, 2) {
            m.insert("class".into(), self.info_str());
        }
    }

    fn int_pv(&mut self, distinct: bool, idx: usize) -> J {
        let v: i64 = if distinct {
            1000 + idx as i64
        } else {
            match self.below(6) {
                0 => 0,
                1 => i32::MAX as i64,
                2 => i32::MIN as i64,
                3 => -1,
                _ => self.rng.range(-5000, 5000),
            }
        };
        json!({"t": "int", "v": v})
    }

    fn uint_pv(&mut self, distinct: bool, idx: usize) -> J {
        let v: u64 = if distinct {
            2000 + idx as u64
        } else {
            match self.below(5) {
                0 => 0,
                1 => u32::MAX as u64,
                2 => i32::MAX as u64 + 1,
                _ => self.below(5000),
            }
        };
        json!({"t": "int", "v": v})
    }

    fn iof_pv(&mut self, distinct: bool, idx: usize, nonneg: bool) -> J {
        let mut v = if distinct {
            3000.0 + idx as f64 + if idx % 2 == 0 { 0.25 } else { 0.0 }
        } else {
            self.iof_number()
        };
        if nonneg {
            v = v.abs(); // also turns -0.0 into +0.0: NonNegativeIntegerOrFloat::new refuses -0.0
        }
        // integral values are written as <integer> by norad; both spellings are the same value
        if v.fract() == 0.0 && v.abs() < 2147483648.0 && self.chance(1, 2) {
            json!({"t": "int", "v": v as i64})
        } else {
            json!({"t": "real", "v": hx(v)})
        }
    }

    fn num_list(&mut self, max: u64, even: bool, distinct: bool, idx: usize) -> J {
        let mut n = self.below(max + 1);
        if self.chance(1, 4) {
            n = max;
        }
        if even && n % 2 == 1 {
            n -= 1;
        }
        let v: Vec<J> = (0..n).map(|i| self.iof_pv(distinct, idx * 20 + i as usize, false)).collect();
        json!({"t": "array", "v": v})
    }

    fn bitlist(&mut self, allowed: &[u8]) -> J {
        let mut v = Vec::new();
        for b in allowed {
            if self.chance(1, 3) {
                v.push(json!({"t": "int", "v": *b}));
            }
        }
        if self.chance(1, 4) {
            v.reverse();
        }
        json!({"t": "array", "v": v})
    }

    fn info_value(&mut self, key: &str, kind: &str, distinct: bool, idx: usize) -> J {
        match kind {
            "str" => {
                if distinct {
                    json!({"t": "str", "v": format!("{} #{} {}", key, idx, self.text(Ctx::Plist, true))})
                } else {
                    self.info_str()
                }
            }
            "int" => self.int_pv(distinct, idx),
            "uint" => self.uint_pv(distinct, idx),
            "num" => self.iof_pv(distinct, idx, false),
            "nnnum" => self.iof_pv(distinct, idx, true),
            "float" => {
                let v = if distinct { 0.039625 + idx as f64 } else { self.number() };
                json!({"t": "real", "v": hx(v)})
            }
            "bool" => json!({"t": "bool", "v": self.chance(1, 2)}),
            "stylemap" => json!({"t": "str", "v": (["regular", "italic", "bold", "bold italic"][self.below(4) as usize])}),
            "date" => {
                let s = format!(
                    "{:04}/{:02}/{:02} {:02}:{:02}:{:02}",
                    [1970, 1, 1904, 1999, 2024, 9999, 2038][self.below(7) as usize],
                    1 + self.below(12),
                    1 + self.below(31),
                    self.below(24),
                    self.below(60),
                    self.below(60)
                );
                json!({"t": "str", "v": s})
            }
            "widthclass" => json!({"t": "int", "v": 1 + self.below(9)}),
            "charset" => json!({"t": "int", "v": 1 + self.below(20)}),
            "familyclass" => json!({"t": "array", "v": [{"t": "int", "v": self.below(15)}, {"t": "int", "v": self.below(16)}]}),
            "panose" => {
                let v: Vec<J> = (0..10)
                    .map(|i| {
                        let x = if distinct { i as u64 + 1 } else if self.rng.chance(1, 8) { u32::MAX as u64 } else { self.rng.below(16) };
                        json!({"t": "int", "v": x})
                    })
                    .collect();
                json!({"t": "array", "v": v})
            }
            "headflags" => self.bitlist(&[0, 1, 2, 3, 4, 5, 6, 7, 8, 9, 10, 11, 12, 13, 14, 15]),
            "selection" => self.bitlist(&[1, 2, 3, 4, 7, 8, 9]),
            "ostype" => self.bitlist(&[0, 1, 2, 3, 8, 9]),
            "uniranges" => self.bitlist(&[0, 1, 2, 7, 31, 32, 57, 64, 96, 122, 127]),
            "cpranges" => self.bitlist(&[0, 1, 2, 8, 16, 29, 30, 31, 32, 48, 63]),
            "blues14" => self.num_list(14, true, distinct, idx),
            "blues10" => self.num_list(10, true, distinct, idx),
            "stems" => self.num_list(12, false, distinct, idx),
            "gasp" => {
                let n = self.below(4);
                let mut ppem: Vec<u64> = (0..n)
                    .map(|_| match self.rng.below(4) {
                        0 => 65535,
                        1 => 0,
                        _ => self.rng.below(100),
                    })
                    .collect();
                ppem.sort();
                let v: Vec<J> = ppem
                    .into_iter()
                    .map(|p| {
                        let b = self.bitlist(&[0, 1, 2, 3]);
                        json!({"t": "dict", "v": {"rangeMaxPPEM": {"t": "int", "v": p}, "rangeGaspBehavior": b}})
                    })
                    .collect();
                json!({"t": "array", "v": v})
            }
            "namerecords" => {
                let n = self.below(3);
                let v: Vec<J> = (0..n)
                    .map(|i| {
                        json!({"t": "dict", "v": {
                            "nameID": {"t": "int", "v": self.below(300) + i},
                            "platformID": {"t": "int", "v": ([0u64, 1, 3, u32::MAX as u64][self.below(4) as usize])},
                            "encodingID": {"t": "int", "v": self.below(11)},
                            "languageID": {"t": "int", "v": ([0u64, 0x409, 0x7fff][self.below(3) as usize])},
                            "string": self.info_str(),
                        }})
                    })
                    .collect();
                json!({"t": "array", "v": v})
            }
            "woffuid" => json!({"t": "dict", "v": {"id": self.info_str()}}),
            "woffvendor" => {
                let mut m = Map::new();
                m.insert("name".into(), self.info_str());
                m.insert("url".into(), self.info_str());
                self.opt_dir_class(&mut m);
                json!({"t": "dict", "v": m})
            }
            "woffcredits" => {
                let n = 1 + self.below(2);
                let v: Vec<J> = (0..n)
                    .map(|_| {
                        let mut m = Map::new();
                        m.insert("name".into(), self.info_str());
                        if self.chance(1, 2) {
                            m.insert("url".into(), self.info_str());
                        }
                        if self.chance(1, 2) {
                            m.insert("role".into(), self.info_str());
                        }
                        self.opt_dir_class(&mut m);
                        json!({"t": "dict", "v": m})
                    })
                    .collect();
                json!({"t": "dict", "v": {"credits": {"t": "array", "v": v}}})
            }
            "woffdescription" => {
                let mut m = Map::new();
                if self.chance(1, 2) {
                    m.insert("url".into(), self.info_str());
                }
                m.insert("text".into(), self.woff_text_records(false));
                json!({"t": "dict", "v": m})
            }
            "wofflicense" => {
                let mut m = Map::new();
                if self.chance(1, 2) {
                    m.insert("url".into(), self.info_str());
                }
                if self.chance(1, 2) {
                    m.insert("id".into(), self.info_str());
                }
                m.insert("text".into(), self.woff_text_records(true));
                json!({"t": "dict", "v": m})
            }
            "wofftext" => json!({"t": "dict", "v": {"text": self.woff_text_records(false)}}),
            "wofflicensee" => {
                let mut m = Map::new();
                m.insert("name".into(), self.info_str());
                self.opt_dir_class(&mut m);
                json!({"t": "dict", "v": m})
            }
            "woffextensions" => {
                let n = 1 + self.below(2);
                let v: Vec<J> = (0..n)
                    .map(|_| {
                        let mut m = Map::new();
                        if self.chance(1, 2) {
                            m.insert("id".into(), self.info_str());
                        }
                        m.insert("names".into(), self.woff_text_records(true));
                        let ni = 1 + self.below(2);
                        let items: Vec<J> = (0..ni)
                            .map(|_| {
                                let mut im = Map::new();
                                if self.chance(1, 2) {
                                    im.insert("id".into(), self.info_str());
                                }
                                im.insert("names".into(), self.woff_text_records(false));
                                im.insert("values".into(), self.woff_text_records(false));
                                json!({"t": "dict", "v": im})
                            })
                            .collect();
                        m.insert("items".into(), json!({"t": "array", "v": items}));
                        json!({"t": "dict", "v": m})
                    })
                    .collect();
                json!({"t": "array", "v": v})
            }
            other => panic!("fontio_gen: unknown info kind {}", other),
        }
    }

    fn info(&mut self) -> (J, J) {
        let mode = self.below(6); // 0: empty, 1|2: everything, else sparse
        let mut m = Map::new();
        if mode != 0 {
            for (idx, (key, kind)) in INFO_KEYS.iter().enumerate() {
                let take = mode <= 2 || self.chance(1, 8);
                if take {
                    let v = self.info_value(key, kind, mode <= 2, idx);
                    m.insert(key.to_string(), v);
                }
            }
        }
        let guidelines = if mode == 0 || (mode > 2 && !self.chance(1, 3)) {
            J::Null
        } else {
            let n = self.below(4);
            J::Array((0..n).map(|_| self.guideline(false)).collect())
        };
        (J::Object(m), guidelines)
    }

    // --------------------------------------------------------------------------------------
    // groups, kerning, stores

    fn groups_kerning(&mut self, glyph_names: &[String]) -> (J, J) {
        let mut pool: Vec<String> = glyph_names.to_vec();
        for _ in 0..3 {
            pool.push(self.glyph_name());
        }
        pool.sort();
        pool.dedup();
        let mut groups = Map::new();
        let mut k1: Vec<String> = Vec::new();
        let mut k2: Vec<String> = Vec::new();
        if self.chance(2, 3) {
            // kerning groups: every glyph in at most one group per side
            for side in 1..=2 {
                let mut free = pool.clone();
                let ng = self.below(4);
                for _ in 0..ng {
                    let gname = format!("public.kern{}.{}", side, self.name());
                    let mut members = Vec::new();
                    let n = self.below(4);
                    for _ in 0..n {
                        if free.is_empty() {
                            break;
                        }
                        let i = self.below(free.len() as u64) as usize;
                        members.push(free.remove(i));
                    }
                    if groups.contains_key(&gname) {
                        // the members of the replaced group stay unavailable: still disjoint
                        continue;
                    }
                    groups.insert(gname.clone(), json!(members));
                    if side == 1 {
                        k1.push(gname)
                    } else {
                        k2.push(gname)
                    }
                }
            }
            // ordinary groups: anything goes, overlaps and repetitions included
            for _ in 0..self.below(3) {
                let gname = match self.below(4) {
                    0 => "public.kern3.x".to_string(),
                    1 => format!("@MMK_L_{}", self.below(5)),
                    _ => self.name(),
                };
                if gname.starts_with("public.kern1.") || gname.starts_with("public.kern2.") {
                    continue;
                }
                let n = self.below(4);
                let members: Vec<String> = (0..n).map(|_| pool[self.rng.below(pool.len() as u64) as usize].clone()).collect();
                groups.insert(gname, json!(members));
            }
        }
        let mut kerning = Map::new();
        if self.chance(2, 3) {
            let n = self.below(5);
            for _ in 0..n {
                let first = if !k1.is_empty() && self.chance(1, 2) {
                    k1[self.below(k1.len() as u64) as usize].clone()
                } else {
                    pool[self.below(pool.len() as u64) as usize].clone()
                };
                let mut inner = Map::new();
                let m = if self.chance(1, 10) { 0 } else { 1 + self.below(3) };
                for _ in 0..m {
                    let second = if !k2.is_empty() && self.chance(1, 2) {
                        k2[self.below(k2.len() as u64) as usize].clone()
                    } else {
                        pool[self.below(pool.len() as u64) as usize].clone()
                    };
                    inner.insert(second, hx(self.iof_number()));
                }
                kerning.insert(first, J::Object(inner));
            }
        }
        (J::Object(groups), J::Object(kerning))
    }

    fn bytes_hex(&mut self, prefix: &[u8]) -> String {
        let mut s = String::new();
        for b in prefix {
            s.push_str(&format!("{:02x}", b));
        }
        let n = match self.below(4) {
            0 => 0,
            1 => self.below(10),
            _ => self.below(300),
        };
        for _ in 0..n {
            s.push_str(&format!("{:02x}", self.below(256)));
        }
        s
    }

    fn file_component(&mut self) -> String {
        let u = self.uniq();
        let stem = ["a", "B", "data file", "caf\u{e9}", "x&y", "\u{1F600}", "com.example.plist", "UPPER", "'q'", "a<b>"][self.below(10) as usize];
        let ext = ["", ".txt", ".bin", ".PNG", "."][self.below(5) as usize];
        // the counter makes every component unique, so no key is a prefix of another
        format!("{}{}{}", stem, u, ext)
    }

    fn stores(&mut self) -> (J, J) {
        let mut data = Map::new();
        if self.chance(1, 3) {
            let n = 1 + self.below(3);
            let mut dirs: Vec<String> = Vec::new();
            for _ in 0..n {
                let mut parts = Vec::new();
                if !dirs.is_empty() && self.chance(1, 2) {
                    parts.push(dirs[self.below(dirs.len() as u64) as usize].clone());
                } else if self.chance(1, 2) {
                    let depth = 1 + self.below(2);
                    let d: Vec<String> = (0..depth).map(|_| format!("d{}", self.uniq())).collect();
                    let d = d.join("/");
                    dirs.push(d.clone());
                    parts.push(d);
                }
                parts.push(self.file_component());
                let b = self.bytes_hex(&[]);
                data.insert(parts.join("/"), J::String(b));
            }
        }
        let mut images = Map::new();
        if self.chance(1, 3) {
            let n = 1 + self.below(2);
            for _ in 0..n {
                let name = self.file_component();
                let b = self.bytes_hex(&[137, 80, 78, 71, 13, 10, 26, 10]);
                images.insert(name, J::String(b));
            }
        }
        (J::Object(data), J::Object(images))
    }

    fn features(&mut self) -> J {
        if !self.chance(1, 2) {
            return J::Null;
        }
        let lines = ["languagesystem DFLT dflt;", "feature liga {", "  sub f i by f_i;", "} liga;", "# caf\u{e9} \u{1F600} <&>", "", "\t"];
        let mut s = String::new();
        let n = 1 + self.below(5);
        for _ in 0..n {
            s.push_str(lines[self.below(lines.len() as u64) as usize]);
            s.push_str(match self.below(6) {
                0 => "\r\n",
                1 => "",
                _ => "\n",
            });
        }
        if s.is_empty() {
            return J::Null;
        }
        J::String(s)
    }

    fn font(&mut self) -> J {
        let (max_layers, max_glyphs) = match self.size {
            0 => (1, 2),
            1 => (2, 4),
            _ => (4, 6),
        };
        let mut layers = Vec::new();
        let default_name = match self.below(5) {
            0 => "foreground".to_string(),
            1 => self.name(),
            _ => "public.default".to_string(),
        };
        let mut lnames = vec![default_name.clone()];
        layers.push(self.layer(default_name, max_glyphs));
        let extra = self.below(max_layers + 1);
        for _ in 0..extra {
            let n = match self.below(4) {
                0 => "public.background".to_string(),
                1 => format!("Layer {}", self.below(10)),
                _ => self.name(),
            };
            if n == "public.default" || lnames.contains(&n) {
                continue;
            }
            lnames.push(n.clone());
            layers.push(self.layer(n, max_glyphs));
        }
        let gnames: Vec<String> = layers[0]["glyphs"].as_array().unwrap().iter().map(|g| g["name"].as_str().unwrap().to_string()).collect();
        let (groups, kerning) = self.groups_kerning(&gnames);
        let (info, guidelines) = self.info();
        let (data, images) = self.stores();
        let (creator, minor): (J, u64) = match self.below(4) {
            0 => (json!("org.linebender.norad"), self.below(3)),
            1 => (json!("com.example.other"), if self.o.f13_meta { self.below(3) } else { 0 }),
            2 => (J::Null, if self.o.f13_meta { self.below(3) } else { 0 }),
            _ => (json!("org.linebender.norad"), 0),
        };
        let lib = if self.chance(1, 2) { json!({}) } else { self.lib_dict(3, Ctx::Plist, 4) };
        json!({
            "meta": {"creator": creator, "formatVersion": 3, "formatVersionMinor": minor},
            "info": info,
            "guidelines": guidelines,
            "groups": groups,
            "kerning": kerning,
            "lib": lib,
            "features": self.features(),
            "layers": layers,
            "data": data,
            "images": images,
        })
    }
}

/// true iff norad's integer-or-float writers keep `v` within 1e-9: since the repair of the
/// number writers (b67254d) the only values they still change are non-zero values of magnitude
/// <= f64::EPSILON, which are written as `<integer>0</integer>` (flush to zero).
pub fn iof_safe(v: f64) -> bool {
    v.is_finite() && (v == 0.0 || v.abs() > 1e-12)
}

/// fontinfo.plist keys of the UFO 3 specification (without `guidelines`) and the kind of value
/// generated for each.
pub const INFO_KEYS: &[(&str, &str)] = &[
    ("ascender", "num"),
    ("capHeight", "num"),
    ("copyright", "str"),
    ("descender", "num"),
    ("familyName", "str"),
    ("italicAngle", "num"),
    ("macintoshFONDFamilyID", "int"),
    ("macintoshFONDName", "str"),
    ("note", "str"),
    ("openTypeGaspRangeRecords", "gasp"),
    ("openTypeHeadCreated", "date"),
    ("openTypeHeadFlags", "headflags"),
    ("openTypeHeadLowestRecPPEM", "uint"),
    ("openTypeHheaAscender", "int"),
    ("openTypeHheaCaretOffset", "int"),
    ("openTypeHheaCaretSlopeRise", "int"),
    ("openTypeHheaCaretSlopeRun", "int"),
    ("openTypeHheaDescender", "int"),
    ("openTypeHheaLineGap", "int"),
    ("openTypeNameCompatibleFullName", "str"),
    ("openTypeNameDescription", "str"),
    ("openTypeNameDesigner", "str"),
    ("openTypeNameDesignerURL", "str"),
    ("openTypeNameLicense", "str"),
    ("openTypeNameLicenseURL", "str"),
    ("openTypeNameManufacturer", "str"),
    ("openTypeNameManufacturerURL", "str"),
    ("openTypeNamePreferredFamilyName", "str"),
    ("openTypeNamePreferredSubfamilyName", "str"),
    ("openTypeNameRecords", "namerecords"),
    ("openTypeNameSampleText", "str"),
    ("openTypeNameUniqueID", "str"),
    ("openTypeNameVersion", "str"),
    ("openTypeNameWWSFamilyName", "str"),
    ("openTypeNameWWSSubfamilyName", "str"),
    ("openTypeOS2CodePageRanges", "cpranges"),
    ("openTypeOS2FamilyClass", "familyclass"),
    ("openTypeOS2Panose", "panose"),
    ("openTypeOS2Selection", "selection"),
    ("openTypeOS2StrikeoutPosition", "int"),
    ("openTypeOS2StrikeoutSize", "int"),
    ("openTypeOS2SubscriptXOffset", "int"),
    ("openTypeOS2SubscriptXSize", "int"),
    ("openTypeOS2SubscriptYOffset", "int"),
    ("openTypeOS2SubscriptYSize", "int"),
    ("openTypeOS2SuperscriptXOffset", "int"),
    ("openTypeOS2SuperscriptXSize", "int"),
    ("openTypeOS2SuperscriptYOffset", "int"),
    ("openTypeOS2SuperscriptYSize", "int"),
    ("openTypeOS2Type", "ostype"),
    ("openTypeOS2TypoAscender", "int"),
    ("openTypeOS2TypoDescender", "int"),
    ("openTypeOS2TypoLineGap", "int"),
    ("openTypeOS2UnicodeRanges", "uniranges"),
    ("openTypeOS2VendorID", "str"),
    ("openTypeOS2WeightClass", "uint"),
    ("openTypeOS2WidthClass", "widthclass"),
    ("openTypeOS2WinAscent", "uint"),
    ("openTypeOS2WinDescent", "uint"),
    ("openTypeVheaCaretOffset", "int"),
    ("openTypeVheaCaretSlopeRise", "int"),
    ("openTypeVheaCaretSlopeRun", "int"),
    ("openTypeVheaVertTypoAscender", "int"),
    ("openTypeVheaVertTypoDescender", "int"),
    ("openTypeVheaVertTypoLineGap", "int"),
    ("postscriptBlueFuzz", "num"),
    ("postscriptBlueScale", "float"),
    ("postscriptBlueShift", "num"),
    ("postscriptBlueValues", "blues14"),
    ("postscriptDefaultCharacter", "str"),
    ("postscriptDefaultWidthX", "num"),
    ("postscriptFamilyBlues", "blues14"),
    ("postscriptFamilyOtherBlues", "blues10"),
    ("postscriptFontName", "str"),
    ("postscriptForceBold", "bool"),
    ("postscriptFullName", "str"),
    ("postscriptIsFixedPitch", "bool"),
    ("postscriptNominalWidthX", "num"),
    ("postscriptOtherBlues", "blues10"),
    ("postscriptSlantAngle", "num"),
    ("postscriptStemSnapH", "stems"),
    ("postscriptStemSnapV", "stems"),
    ("postscriptUnderlinePosition", "num"),
    ("postscriptUnderlineThickness", "num"),
    ("postscriptUniqueID", "int"),
    ("postscriptWeightName", "str"),
    ("postscriptWindowsCharacterSet", "charset"),
    ("styleMapFamilyName", "str"),
    ("styleMapStyleName", "stylemap"),
    ("styleName", "str"),
    ("trademark", "str"),
    ("unitsPerEm", "nnnum"),
    ("versionMajor", "int"),
    ("versionMinor", "uint"),
    ("woffMajorVersion", "uint"),
    ("woffMetadataCopyright", "wofftext"),
    ("woffMetadataCredits", "woffcredits"),
    ("woffMetadataDescription", "woffdescription"),
    ("woffMetadataExtensions", "woffextensions"),
    ("woffMetadataLicense", "wofflicense"),
    ("woffMetadataLicensee", "wofflicensee"),
    ("woffMetadataTrademark", "wofftext"),
    ("woffMetadataUniqueID", "woffuid"),
    ("woffMetadataVendor", "woffvendor"),
    ("woffMinorVersion", "uint"),
    ("xHeight", "num"),
    ("year", "int"),
];

pub fn gen_font_with(rng: &mut Rng, size: u32, opts: &GenOpts) -> J {
    let mut g = G { rng, o: opts.clone(), size: size.min(2), uniq: 0 };
    g.font()
}
