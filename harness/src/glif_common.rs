//! Shared by the C12 and C02 harness parts: XML event trees, a renderer with varied (legal)
//! surface syntax, Gallina printing of trees / numbers, dumps of glyphs and parser outcomes as
//! `Tm` trees in the format of coq/Run/GlifDump.v.
#![allow(dead_code)]
use crate::util::*;
use norad::error::{ErrorKind, GlifLoadError};
use norad::{Glyph, Line, PointType};
use std::fmt::Write as _;

#[derive(Clone, Debug, PartialEq)]
pub enum Node {
    Empty(String, Vec<(String, String)>),
    Elem(String, Vec<(String, String)>, Vec<Node>),
    Text(String),
    CData(String),
    Comment(String),
    Decl,
    DocType(String),
}

impl Node {
    pub fn name(&self) -> Option<&str> {
        match self {
            Node::Empty(n, _) | Node::Elem(n, _, _) => Some(n),
            _ => None,
        }
    }
    pub fn attrs(&self) -> Option<&Vec<(String, String)>> {
        match self {
            Node::Empty(_, a) | Node::Elem(_, a, _) => Some(a),
            _ => None,
        }
    }
    pub fn attrs_mut(&mut self) -> Option<&mut Vec<(String, String)>> {
        match self {
            Node::Empty(_, a) | Node::Elem(_, a, _) => Some(a),
            _ => None,
        }
    }
    pub fn kids(&self) -> Option<&Vec<Node>> {
        match self {
            Node::Elem(_, _, k) => Some(k),
            _ => None,
        }
    }
    pub fn kids_mut(&mut self) -> Option<&mut Vec<Node>> {
        match self {
            Node::Elem(_, _, k) => Some(k),
            _ => None,
        }
    }
}

pub fn el(name: &str, attrs: Vec<(String, String)>, kids: Vec<Node>) -> Node {
    Node::Elem(name.to_string(), attrs, kids)
}
pub fn em(name: &str, attrs: Vec<(String, String)>) -> Node {
    Node::Empty(name.to_string(), attrs)
}
pub fn at(k: &str, v: &str) -> (String, String) {
    (k.to_string(), v.to_string())
}


// ---------------------------------------------------------------- transport (coq/Run/Pack.v)
/// generic tree sent to Coq: numbers, texts (code points on the Coq side), raw bytes, lists
#[derive(Clone, Debug, PartialEq)]
pub enum Xt {
    N(u64),
    S(String),
    B(Vec<u8>),
    L(Vec<Xt>),
}
fn varint(mut n: u64, out: &mut Vec<u8>) {
    loop {
        let b = (n & 127) as u8;
        n >>= 7;
        if n == 0 {
            out.push(b);
            break;
        }
        out.push(b | 128);
    }
}
impl Xt {
    pub fn s(t: &str) -> Xt {
        Xt::S(t.to_string())
    }
    pub fn b(b: bool) -> Xt {
        Xt::N(b as u64)
    }
    pub fn opt(o: Option<Xt>) -> Xt {
        match o {
            None => Xt::L(vec![]),
            Some(t) => Xt::L(vec![t]),
        }
    }
    pub fn ser(&self, out: &mut Vec<u8>) {
        match self {
            Xt::N(n) => {
                out.push(0);
                varint(*n, out);
            }
            Xt::S(s) => {
                out.push(1);
                varint(s.len() as u64, out);
                out.extend_from_slice(s.as_bytes());
            }
            Xt::B(b) => {
                out.push(4);
                varint(b.len() as u64, out);
                out.extend_from_slice(b);
            }
            Xt::L(l) => {
                out.push(2);
                for x in l {
                    x.ser(out);
                }
                out.push(3);
            }
        }
    }
    /// Gallina list of primitive integers: byte count, then 7 bytes per integer (little endian)
    pub fn packed(&self) -> String {
        let mut bytes = Vec::new();
        self.ser(&mut bytes);
        let mut o = String::from("[");
        let _ = write!(o, "{}", bytes.len());
        for ch in bytes.chunks(7) {
            let mut v: u64 = 0;
            for (i, b) in ch.iter().enumerate() {
                v |= (*b as u64) << (8 * i);
            }
            let _ = write!(o, ";{}", v);
        }
        o.push(']');
        o
    }
    /// the dump as the Coq side prints it (tm): N_ n | L_ [..]
    pub fn to_tm(&self) -> Tm {
        match self {
            Xt::N(n) => Tm::N(*n),
            Xt::S(s) => Tm::s(s),
            Xt::B(b) => Tm::L(b.iter().map(|c| Tm::N(*c as u64)).collect()),
            Xt::L(l) => Tm::L(l.iter().map(|x| x.to_tm()).collect()),
        }
    }
}
pub fn xt_attrs(a: &[(String, String)]) -> Xt {
    Xt::L(a.iter().map(|(k, v)| Xt::L(vec![Xt::s(k), Xt::s(v)])).collect())
}
pub fn xt_node(n: &Node) -> Xt {
    match n {
        Node::Empty(name, a) => Xt::L(vec![Xt::N(0), Xt::s(name), xt_attrs(a)]),
        Node::Elem(name, a, k) => Xt::L(vec![Xt::N(1), Xt::s(name), xt_attrs(a), Xt::L(k.iter().map(xt_node).collect())]),
        Node::Text(s) => Xt::L(vec![Xt::N(2), Xt::s(s)]),
        Node::CData(s) => Xt::L(vec![Xt::N(3), Xt::s(s)]),
        Node::Comment(s) => Xt::L(vec![Xt::N(4), Xt::s(s)]),
        Node::Decl => Xt::L(vec![Xt::N(5)]),
        Node::DocType(s) => Xt::L(vec![Xt::N(6), Xt::s(s)]),
    }
}
pub fn xt_doc(d: &[Node]) -> Xt {
    Xt::L(d.iter().map(xt_node).collect())
}
pub fn xt_pf_table(t: &[(String, Option<f64>)]) -> Xt {
    Xt::L(t.iter().map(|(s, r)| Xt::L(vec![Xt::s(s), Xt::opt(r.map(tm_fl))])).collect())
}

// ---------------------------------------------------------------- Gallina printing
pub fn g_attrs(a: &[(String, String)]) -> String {
    let v: Vec<String> = a.iter().map(|(k, v)| format!("({},{})", g_str(k), g_str(v))).collect();
    g_list(&v)
}
pub fn g_node(n: &Node) -> String {
    match n {
        Node::Empty(name, a) => format!("(Empty {} {})", g_str(name), g_attrs(a)),
        Node::Elem(name, a, k) => {
            let ks: Vec<String> = k.iter().map(g_node).collect();
            format!("(Elem {} {} {})", g_str(name), g_attrs(a), g_list(&ks))
        }
        Node::Text(s) => format!("(Text {})", g_str(s)),
        Node::CData(s) => format!("(CData {})", g_str(s)),
        Node::Comment(s) => format!("(Comment {})", g_str(s)),
        Node::Decl => "Decl".to_string(),
        Node::DocType(s) => format!("(DocType {})", g_str(s)),
    }
}
pub fn g_doc(d: &[Node]) -> String {
    let v: Vec<String> = d.iter().map(g_node).collect();
    g_list(&v)
}
/// Gallina term of type fl
pub fn g_fl(x: f64) -> String {
    let (s, m, e, c) = dyadic(x);
    match c {
        2 => "FNaN".to_string(),
        1 => format!("(FInf {})", g_bool(s)),
        _ => format!("(FFin {} {} ({})%Z)", g_bool(s), m, e),
    }
}
pub fn g_pf_table(t: &[(String, Option<f64>)]) -> String {
    let v: Vec<String> = t
        .iter()
        .map(|(s, r)| {
            format!(
                "({},{})",
                g_str(s),
                match r {
                    None => "None".to_string(),
                    Some(x) => format!("Some {}", g_fl(*x)),
                }
            )
        })
        .collect();
    g_list(&v)
}

/// every string of the document that the reader may hand to f64::from_str: attribute values,
/// their comma-separated pieces, the character data of <real> elements
pub fn pf_table(doc: &[Node]) -> Vec<(String, Option<f64>)> {
    fn walk(n: &Node, out: &mut Vec<String>) {
        match n {
            Node::Empty(_, a) => {
                for (_, v) in a {
                    out.push(v.clone());
                    if v.contains(',') {
                        for p in v.split(',') {
                            out.push(p.to_string());
                        }
                    }
                }
            }
            Node::Elem(name, a, k) => {
                for (_, v) in a {
                    out.push(v.clone());
                    if v.contains(',') {
                        for p in v.split(',') {
                            out.push(p.to_string());
                        }
                    }
                }
                if name == "real" {
                    let mut s = String::new();
                    for c in k {
                        if let Node::Text(t) = c {
                            s.push_str(t);
                        }
                    }
                    out.push(s);
                }
                for c in k {
                    walk(c, out);
                }
            }
            _ => {}
        }
    }
    let mut strs = Vec::new();
    for n in doc {
        walk(n, &mut strs);
    }
    strs.sort();
    strs.dedup();
    strs.into_iter().map(|s| { let r = s.parse::<f64>().ok(); (s, r) }).collect()
}

// ---------------------------------------------------------------- rendering
fn ws(rng: &mut Rng, vary: bool) -> &'static str {
    if !vary {
        return "\n";
    }
    *rng.pick(&["", "\n", "\n  ", " ", "\t", "\r\n", "\n\n\t\t"])
}
fn ws1(rng: &mut Rng, vary: bool) -> &'static str {
    if !vary {
        return " ";
    }
    *rng.pick(&[" ", " ", " ", "  ", "\n", "\n\t", "\t"])
}
fn ws0(rng: &mut Rng, vary: bool) -> &'static str {
    if !vary {
        return "";
    }
    *rng.pick(&["", "", "", "", " ", "\n"])
}
fn char_ref(c: char, rng: &mut Rng) -> String {
    if rng.chance(1, 2) {
        format!("&#{};", c as u32)
    } else if rng.chance(1, 2) {
        format!("&#x{:X};", c as u32)
    } else {
        format!("&#x{:x};", c as u32)
    }
}
pub fn esc_attr(s: &str, quote: char, rng: &mut Rng, vary: bool) -> String {
    let mut o = String::new();
    for c in s.chars() {
        match c {
            '&' => o.push_str("&amp;"),
            '<' => o.push_str("&lt;"),
            '>' => o.push_str(if vary && rng.chance(1, 2) { ">" } else { "&gt;" }),
            '"' if quote == '"' => o.push_str("&quot;"),
            '\'' if quote == '\'' => o.push_str("&apos;"),
            '"' | '\'' => {
                if vary && rng.chance(1, 3) {
                    o.push_str(if c == '"' { "&quot;" } else { "&apos;" })
                } else {
                    o.push(c)
                }
            }
            '\n' | '\t' | '\r' => {
                let _ = write!(o, "&#{};", c as u32);
            }
            _ => {
                if vary && rng.chance(1, 14) {
                    o.push_str(&char_ref(c, rng))
                } else {
                    o.push(c)
                }
            }
        }
    }
    o
}
pub fn esc_text(s: &str, rng: &mut Rng, vary: bool) -> String {
    let mut o = String::new();
    for c in s.chars() {
        match c {
            '&' => o.push_str("&amp;"),
            '<' => o.push_str("&lt;"),
            '>' => o.push_str("&gt;"),
            '\r' => o.push_str("&#13;"),
            ' ' | '\n' | '\t' => o.push(c),
            _ => {
                if vary && rng.chance(1, 14) {
                    o.push_str(&char_ref(c, rng))
                } else {
                    o.push(c)
                }
            }
        }
    }
    o
}
/// elements whose content is elements only, so blanks may be put between the children
fn element_only(name: &str) -> bool {
    matches!(name, "glyph" | "outline" | "contour" | "lib" | "dict" | "array")
}
fn render_tag(o: &mut String, name: &str, a: &[(String, String)], rng: &mut Rng, vary: bool) {
    o.push('<');
    o.push_str(name);
    for (k, v) in a {
        o.push_str(ws1(rng, vary));
        o.push_str(k);
        o.push_str(ws0(rng, vary));
        o.push('=');
        o.push_str(ws0(rng, vary));
        let q = if vary && rng.chance(1, 3) { '\'' } else { '"' };
        o.push(q);
        o.push_str(&esc_attr(v, q, rng, vary));
        o.push(q);
    }
    o.push_str(ws0(rng, vary));
}
pub fn render_node(o: &mut String, n: &Node, rng: &mut Rng, vary: bool) {
    match n {
        Node::Empty(name, a) => {
            render_tag(o, name, a, rng, vary);
            o.push_str("/>");
        }
        Node::Elem(name, a, k) => {
            render_tag(o, name, a, rng, vary);
            o.push('>');
            let eo = element_only(name);
            for c in k {
                if eo {
                    o.push_str(ws(rng, vary));
                }
                render_node(o, c, rng, vary);
            }
            if eo {
                o.push_str(ws(rng, vary));
            }
            o.push_str("</");
            o.push_str(name);
            o.push_str(ws0(rng, vary));
            o.push('>');
        }
        Node::Text(s) => o.push_str(&esc_text(s, rng, vary)),
        Node::CData(s) => {
            o.push_str("<![CDATA[");
            o.push_str(s);
            o.push_str("]]>");
        }
        Node::Comment(s) => {
            o.push_str("<!--");
            o.push_str(s);
            o.push_str("-->");
        }
        Node::Decl => {
            if vary && rng.chance(1, 3) {
                o.push_str("<?xml version='1.0' encoding='UTF-8'?>");
            } else {
                o.push_str("<?xml version=\"1.0\" encoding=\"UTF-8\"?>");
            }
        }
        Node::DocType(s) => {
            o.push_str("<!DOCTYPE ");
            o.push_str(s);
            o.push('>');
        }
    }
}
pub fn render(doc: &[Node], rng: &mut Rng, vary: bool) -> String {
    let mut o = String::new();
    for (i, n) in doc.iter().enumerate() {
        if i > 0 {
            o.push_str(ws(rng, vary));
        }
        render_node(&mut o, n, rng, vary);
    }
    o.push_str(ws(rng, vary));
    o
}

// ---------------------------------------------------------------- dumps
pub fn tm_fl(x: f64) -> Xt {
    let (s, m, e, c) = dyadic(x);
    match c {
        2 => Xt::L(vec![Xt::N(2)]),
        1 => Xt::L(vec![Xt::N(1), Xt::b(s)]),
        _ => Xt::L(vec![Xt::N(0), Xt::b(s), Xt::N(m), Xt::N((e + 2000) as u64)]),
    }
}
pub fn tm_bytes(b: &[u8]) -> Xt {
    Xt::B(b.to_vec())
}
pub fn tm_pv_o(v: &plist::Value, sorted: bool) -> Xt {
    match v {
        plist::Value::String(s) => Xt::L(vec![Xt::N(0), Xt::s(s)]),
        plist::Value::Integer(i) => {
            if let Some(x) = i.as_signed() {
                Xt::L(vec![Xt::N(1), Xt::b(x < 0), Xt::N(x.unsigned_abs())])
            } else {
                Xt::L(vec![Xt::N(1), Xt::b(false), Xt::N(i.as_unsigned().unwrap_or(0))])
            }
        }
        plist::Value::Real(r) => Xt::L(vec![Xt::N(2), tm_fl(*r)]),
        plist::Value::Boolean(b) => Xt::L(vec![Xt::N(3), Xt::b(*b)]),
        plist::Value::Data(d) => Xt::L(vec![Xt::N(4), tm_bytes(d)]),
        plist::Value::Date(d) => Xt::L(vec![Xt::N(5), Xt::s(&d.to_xml_format())]),
        plist::Value::Array(a) => Xt::L(vec![Xt::N(6), Xt::L(a.iter().map(|x| tm_pv_o(x, sorted)).collect())]),
        plist::Value::Dictionary(d) => tm_dict_o(d, sorted),
        _ => Xt::L(vec![Xt::N(9)]),
    }
}
pub fn tm_dict_o(d: &plist::Dictionary, sorted: bool) -> Xt {
    let mut kv: Vec<(&String, &plist::Value)> = d.iter().collect();
    if sorted {
        kv.sort_by(|a, b| a.0.as_bytes().cmp(b.0.as_bytes()));
    }
    Xt::L(vec![
        Xt::N(7),
        Xt::L(kv.into_iter().map(|(k, v)| Xt::L(vec![Xt::s(k), tm_pv_o(v, sorted)])).collect()),
    ])
}
fn tm_ostr<T: AsRef<str>>(o: Option<T>) -> Xt {
    Xt::opt(o.map(|s| Xt::s(s.as_ref())))
}
fn tm_olib(o: Option<&norad::Plist>, sorted: bool) -> Xt {
    Xt::opt(o.map(|d| tm_dict_o(d, sorted)))
}
fn tm_ocolor(c: &Option<norad::Color>) -> Xt {
    Xt::opt(c.as_ref().map(|c| {
        let (r, g, b, a) = c.channels();
        Xt::L(vec![tm_fl(r), tm_fl(g), tm_fl(b), tm_fl(a)])
    }))
}
fn tm_transform(t: &norad::AffineTransform) -> Xt {
    Xt::L(vec![
        tm_fl(t.x_scale),
        tm_fl(t.xy_scale),
        tm_fl(t.yx_scale),
        tm_fl(t.y_scale),
        tm_fl(t.x_offset),
        tm_fl(t.y_offset),
    ])
}
pub fn ptype_code(t: &PointType) -> u64 {
    match t {
        PointType::Move => 0,
        PointType::Line => 1,
        PointType::OffCurve => 2,
        PointType::Curve => 3,
        PointType::QCurve => 4,
    }
}
pub fn tm_glyph_o(g: &Glyph, sorted: bool) -> Xt {
    let guides = g
        .guidelines
        .iter()
        .map(|x| {
            let l = match x.line {
                Line::Vertical(x) => Xt::L(vec![Xt::N(0), tm_fl(x)]),
                Line::Horizontal(y) => Xt::L(vec![Xt::N(1), tm_fl(y)]),
                Line::Angle { x, y, degrees } => Xt::L(vec![Xt::N(2), tm_fl(x), tm_fl(y), tm_fl(degrees)]),
            };
            Xt::L(vec![l, tm_ostr(x.name.as_ref()), tm_ocolor(&x.color), tm_ostr(x.identifier()), tm_olib(x.lib(), sorted)])
        })
        .collect();
    let anchors = g
        .anchors
        .iter()
        .map(|a| {
            Xt::L(vec![
                tm_fl(a.x),
                tm_fl(a.y),
                tm_ostr(a.name.as_ref()),
                tm_ocolor(&a.color),
                tm_ostr(a.identifier()),
                tm_olib(a.lib(), sorted),
            ])
        })
        .collect();
    let comps = g
        .components
        .iter()
        .map(|c| Xt::L(vec![Xt::s(c.base.as_str()), tm_transform(&c.transform), tm_ostr(c.identifier()), tm_olib(c.lib(), sorted)]))
        .collect();
    let contours = g
        .contours
        .iter()
        .map(|c| {
            let pts = c
                .points
                .iter()
                .map(|p| {
                    Xt::L(vec![
                        tm_fl(p.x),
                        tm_fl(p.y),
                        Xt::N(ptype_code(&p.typ)),
                        Xt::b(p.smooth),
                        tm_ostr(p.name.as_ref()),
                        tm_ostr(p.identifier()),
                        tm_olib(p.lib(), sorted),
                    ])
                })
                .collect();
            Xt::L(vec![tm_ostr(c.identifier()), tm_olib(c.lib(), sorted), Xt::L(pts)])
        })
        .collect();
    let image = Xt::opt(g.image.as_ref().map(|i| {
        Xt::L(vec![Xt::s(&i.file_name().display().to_string()), tm_ocolor(&i.color), tm_transform(&i.transform)])
    }));
    Xt::L(vec![
        Xt::s(g.name().as_str()),
        tm_fl(g.width),
        tm_fl(g.height),
        Xt::L(g.codepoints.iter().map(|c| Xt::N(c as u64)).collect()),
        tm_ostr(g.note.as_ref()),
        image,
        Xt::L(guides),
        Xt::L(anchors),
        Xt::L(comps),
        Xt::L(contours),
        tm_dict_o(&g.lib, sorted),
    ])
}

pub fn tm_pv(v: &plist::Value) -> Xt {
    tm_pv_o(v, true)
}
pub fn tm_dict(d: &plist::Dictionary) -> Xt {
    tm_dict_o(d, true)
}
pub fn tm_glyph(g: &Glyph) -> Xt {
    tm_glyph_o(g, true)
}

pub fn err_code(e: &GlifLoadError) -> (u64, String) {
    let name = format!("{:?}", e);
    let short: String = name.chars().take(60).collect();
    let code = match e {
        GlifLoadError::Parse(k) => match k {
            ErrorKind::UnexpectedMove => 1,
            ErrorKind::UnexpectedPointAfterOffCurve => 2,
            ErrorKind::UnexpectedSmooth => 3,
            ErrorKind::TooManyOffCurves => 4,
            ErrorKind::TrailingOffCurves => 5,
            ErrorKind::UnsupportedGlifVersion => 10,
            ErrorKind::UnknownPointType => 11,
            ErrorKind::WrongFirstElement => 12,
            ErrorKind::MissingCloseTag => 13,
            ErrorKind::BadHexValue => 14,
            ErrorKind::BadNumber => 15,
            ErrorKind::BadColor => 16,
            ErrorKind::BadAnchor => 17,
            ErrorKind::BadPoint => 18,
            ErrorKind::BadGuideline => 19,
            ErrorKind::BadImage => 20,
            ErrorKind::BadIdentifier => 21,
            ErrorKind::InvalidName => 22,
            ErrorKind::BadLib => 23,
            ErrorKind::UnexpectedElement => 24,
            ErrorKind::UnexpectedAttribute => 25,
            ErrorKind::DuplicateIdentifier => 26,
            ErrorKind::UnexpectedPointField => 27,
            ErrorKind::UnexpectedComponentField => 28,
            ErrorKind::UnexpectedAnchorField => 29,
            ErrorKind::UnexpectedGuidelineField => 30,
            ErrorKind::UnexpectedImageField => 31,
            ErrorKind::DuplicateElement(_) => 32,
            ErrorKind::UnexpectedV1Element(_) => 33,
            ErrorKind::UnexpectedV1Attribute(_) => 34,
            ErrorKind::ComponentEmptyBase => 35,
            ErrorKind::ComponentMissingBase => 36,
            ErrorKind::LibMustBeDictionary => 37,
            ErrorKind::BadAngle => 38,
            _ => 98,
        },
        GlifLoadError::XmlAttr(_) => 39,
        GlifLoadError::PublicObjectLibsMustBeDictionary => 40,
        GlifLoadError::ObjectLibMustBeDictionary(_) => 41,
        GlifLoadError::Xml(_) => 42,
        _ => 99,
    };
    (code, short)
}

/// outcome of Glyph::parse_raw as a Tm in the format of GlifDump.tm_res, plus a short label
pub fn parse_outcome(xml: &[u8]) -> (Xt, String, Option<Glyph>) {
    match catch(|| Glyph::parse_raw(xml)) {
        Err(msg) => (Xt::L(vec![Xt::N(2), Xt::N(0)]), format!("PANIC {}", msg), None),
        Ok(Err(e)) => {
            let (c, s) = err_code(&e);
            (Xt::L(vec![Xt::N(1), Xt::N(c)]), format!("Err {}", s), None)
        }
        Ok(Ok(g)) => (Xt::L(vec![Xt::N(0), tm_glyph(&g)]), "Ok".to_string(), Some(g)),
    }
}

pub fn json_str(s: &str) -> String {
    serde_json::to_string(s).unwrap()
}
