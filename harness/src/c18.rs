//! C18: designspace documents. Generates documents, saves them with `DesignSpaceDocument::save`,
//! keeps every written file for the driver's independent reader (Python/expat), loads the file
//! again and reports what came back. Documents travel as JSON (floats as their `Display` text,
//! dates in plist XML form, data as hex), the driver turns them into Gallina terms.
//!
//! Modes:  (default) generate `cases.jsonl` + `f<i>.xml`;  `--replay F` the same for the
//! documents listed in the JSON-lines file F;  `--load-dir D` load every `p<i>.xml` of D and
//! report the outcome (decoder side of the correspondence, files written by the driver).
use crate::util::*;
use norad::designspace::*;
use norad::Name;
use plist::{Dictionary, Value};
use serde_json::{json, Value as J};
use std::path::Path;
use std::time::{Duration, SystemTime};

// ------------------------------------------------------------------------------------------
// documents <-> JSON
// ------------------------------------------------------------------------------------------
fn f32s(x: f32) -> String {
    if x.is_nan() {
        "NaN".into()
    } else {
        x.to_string()
    }
}
fn f64s(x: f64) -> String {
    if x.is_nan() {
        "NaN".into()
    } else {
        x.to_string()
    }
}
fn jf(x: f32) -> J {
    J::String(f32s(x))
}
fn jof(x: &Option<f32>) -> J {
    match x {
        None => J::Null,
        Some(v) => jf(*v),
    }
}
fn jos(x: &Option<String>) -> J {
    match x {
        None => J::Null,
        Some(v) => J::String(v.clone()),
    }
}
fn hex(b: &[u8]) -> String {
    b.iter().map(|x| format!("{:02x}", x)).collect()
}
fn unhex(s: &str) -> Vec<u8> {
    (0..s.len() / 2).map(|i| u8::from_str_radix(&s[2 * i..2 * i + 2], 16).unwrap()).collect()
}

/// A chain of containers that each hold exactly one value (a one-element array, a one-entry
/// dictionary) is written flat as ["n", [wrapper...], inner] with wrapper "a" or ["d", key]: JSON
/// readers (serde_json, Python) limit the nesting depth, the documents of the nesting-depth
/// dimension do not.
fn pv_to_json(v: &Value) -> J {
    let mut wrappers: Vec<J> = vec![];
    let mut cur = v;
    loop {
        match cur {
            Value::Array(a) if a.len() == 1 => {
                wrappers.push(json!("a"));
                cur = &a[0];
            }
            Value::Dictionary(d) if d.len() == 1 => {
                let (k, x) = d.iter().next().unwrap();
                wrappers.push(json!(["d", k]));
                cur = x;
            }
            _ => break,
        }
    }
    if wrappers.len() >= 2 {
        return json!(["n", wrappers, pv_to_json_plain(cur)]);
    }
    pv_to_json_plain(v)
}
fn pv_to_json_plain(v: &Value) -> J {
    match v {
        Value::String(s) => json!(["s", s]),
        Value::Integer(i) => json!(["i", i.to_string()]),
        Value::Real(r) => json!(["r", f64s(*r)]),
        Value::Boolean(b) => json!(["b", b]),
        Value::Data(d) => json!(["d", hex(d)]),
        Value::Date(t) => json!(["t", t.to_xml_format()]),
        Value::Array(a) => json!(["a", a.iter().map(pv_to_json).collect::<Vec<_>>()]),
        Value::Dictionary(d) => json!(["m", dict_to_json(d)]),
        other => json!(["?", format!("{:?}", other)]),
    }
}
fn dict_to_json(d: &Dictionary) -> J {
    J::Array(d.iter().map(|(k, v)| json!([k, pv_to_json(v)])).collect())
}
fn dims_to_json(l: &[Dimension]) -> J {
    J::Array(
        l.iter()
            .map(|d| json!({"name": d.name, "uservalue": jof(&d.uservalue), "xvalue": jof(&d.xvalue), "yvalue": jof(&d.yvalue)}))
            .collect(),
    )
}
pub fn doc_to_json(d: &DesignSpaceDocument) -> J {
    let axes: Vec<J> = d
        .axes
        .iter()
        .map(|a| {
            json!({
                "name": a.name, "tag": a.tag, "default": jf(a.default), "hidden": a.hidden,
                "minimum": jof(&a.minimum), "maximum": jof(&a.maximum),
                "values": match &a.values { None => J::Null, Some(v) => J::Array(v.iter().map(|x| jf(*x)).collect()) },
                "map": match &a.map { None => J::Null, Some(v) => J::Array(v.iter().map(|m| json!([jf(m.input), jf(m.output)])).collect()) },
            })
        })
        .collect();
    let rules: Vec<J> = d
        .rules
        .rules
        .iter()
        .map(|r| {
            json!({
                "name": jos(&r.name),
                "condsets": r.condition_sets.iter().map(|cs| J::Array(cs.conditions.iter().map(|c|
                    json!({"name": c.name, "minimum": jof(&c.minimum), "maximum": jof(&c.maximum)})).collect())).collect::<Vec<_>>(),
                "subs": r.substitutions.iter().map(|s| json!([s.name.as_str(), s.with.as_str()])).collect::<Vec<_>>(),
            })
        })
        .collect();
    let sources: Vec<J> = d
        .sources
        .iter()
        .map(|s| {
            json!({"familyname": jos(&s.familyname), "stylename": jos(&s.stylename), "name": jos(&s.name),
                   "filename": s.filename, "layer": jos(&s.layer), "location": dims_to_json(&s.location)})
        })
        .collect();
    let instances: Vec<J> = d
        .instances
        .iter()
        .map(|s| {
            json!({"familyname": jos(&s.familyname), "stylename": jos(&s.stylename), "name": jos(&s.name),
                   "filename": jos(&s.filename), "postscriptfontname": jos(&s.postscriptfontname),
                   "stylemapfamilyname": jos(&s.stylemapfamilyname), "stylemapstylename": jos(&s.stylemapstylename),
                   "location": dims_to_json(&s.location), "lib": dict_to_json(&s.lib)})
        })
        .collect();
    json!({
        "format": jf(d.format), "axes": axes,
        "processing": match d.rules.processing { RuleProcessing::First => "first", RuleProcessing::Last => "last" },
        "rules": rules, "sources": sources, "instances": instances, "lib": dict_to_json(&d.lib),
    })
}

fn pf(j: &J) -> f32 {
    j.as_str().unwrap().parse().unwrap()
}
fn pof(j: &J) -> Option<f32> {
    if j.is_null() {
        None
    } else {
        Some(pf(j))
    }
}
fn pos(j: &J) -> Option<String> {
    j.as_str().map(|s| s.to_string())
}
fn pv_from_json(j: &J) -> Value {
    let t = j[0].as_str().unwrap();
    let v = &j[1];
    match t {
        "s" => Value::String(v.as_str().unwrap().into()),
        "i" => {
            let s = v.as_str().unwrap();
            match s.parse::<i64>() {
                Ok(x) => Value::Integer(x.into()),
                Err(_) => Value::Integer(s.parse::<u64>().unwrap().into()),
            }
        }
        "r" => Value::Real(v.as_str().unwrap().parse().unwrap()),
        "b" => Value::Boolean(v.as_bool().unwrap()),
        "d" => Value::Data(unhex(v.as_str().unwrap())),
        "t" => Value::Date(plist::Date::from_xml_format(v.as_str().unwrap()).unwrap()),
        "a" => Value::Array(v.as_array().unwrap().iter().map(pv_from_json).collect()),
        "m" => Value::Dictionary(dict_from_json(v)),
        "n" => {
            let mut x = pv_from_json(&j[2]);
            for w in v.as_array().unwrap().iter().rev() {
                x = match w.as_str() {
                    Some(_) => Value::Array(vec![x]),
                    None => {
                        let mut d = Dictionary::new();
                        d.insert(w[1].as_str().unwrap().into(), x);
                        Value::Dictionary(d)
                    }
                };
            }
            x
        }
        _ => panic!("bad plist tag in replay file"),
    }
}
fn dict_from_json(j: &J) -> Dictionary {
    let mut d = Dictionary::new();
    for kv in j.as_array().unwrap() {
        d.insert(kv[0].as_str().unwrap().into(), pv_from_json(&kv[1]));
    }
    d
}
fn dims_from_json(j: &J) -> Vec<Dimension> {
    j.as_array()
        .unwrap()
        .iter()
        .map(|d| Dimension {
            name: d["name"].as_str().unwrap().into(),
            uservalue: pof(&d["uservalue"]),
            xvalue: pof(&d["xvalue"]),
            yvalue: pof(&d["yvalue"]),
        })
        .collect()
}
pub fn doc_from_json(j: &J) -> DesignSpaceDocument {
    let mut d = DesignSpaceDocument::default();
    d.format = pf(&j["format"]);
    for a in j["axes"].as_array().unwrap() {
        d.axes.push(Axis {
            name: a["name"].as_str().unwrap().into(),
            tag: a["tag"].as_str().unwrap().into(),
            default: pf(&a["default"]),
            hidden: a["hidden"].as_bool().unwrap(),
            minimum: pof(&a["minimum"]),
            maximum: pof(&a["maximum"]),
            values: a["values"].as_array().map(|v| v.iter().map(pf).collect()),
            map: a["map"].as_array().map(|v| v.iter().map(|m| AxisMapping { input: pf(&m[0]), output: pf(&m[1]) }).collect()),
        });
    }
    d.rules.processing = if j["processing"] == "last" { RuleProcessing::Last } else { RuleProcessing::First };
    for r in j["rules"].as_array().unwrap() {
        d.rules.rules.push(Rule {
            name: pos(&r["name"]),
            condition_sets: r["condsets"]
                .as_array()
                .unwrap()
                .iter()
                .map(|cs| ConditionSet {
                    conditions: cs
                        .as_array()
                        .unwrap()
                        .iter()
                        .map(|c| Condition { name: c["name"].as_str().unwrap().into(), minimum: pof(&c["minimum"]), maximum: pof(&c["maximum"]) })
                        .collect(),
                })
                .collect(),
            substitutions: r["subs"]
                .as_array()
                .unwrap()
                .iter()
                .map(|s| Substitution { name: Name::new(s[0].as_str().unwrap()).unwrap(), with: Name::new(s[1].as_str().unwrap()).unwrap() })
                .collect(),
        });
    }
    for s in j["sources"].as_array().unwrap() {
        d.sources.push(Source {
            familyname: pos(&s["familyname"]),
            stylename: pos(&s["stylename"]),
            name: pos(&s["name"]),
            filename: s["filename"].as_str().unwrap().into(),
            layer: pos(&s["layer"]),
            location: dims_from_json(&s["location"]),
        });
    }
    for s in j["instances"].as_array().unwrap() {
        d.instances.push(Instance {
            familyname: pos(&s["familyname"]),
            stylename: pos(&s["stylename"]),
            name: pos(&s["name"]),
            filename: pos(&s["filename"]),
            postscriptfontname: pos(&s["postscriptfontname"]),
            stylemapfamilyname: pos(&s["stylemapfamilyname"]),
            stylemapstylename: pos(&s["stylemapstylename"]),
            location: dims_from_json(&s["location"]),
            lib: dict_from_json(&s["lib"]),
        });
    }
    d.lib = dict_from_json(&j["lib"]);
    d
}

// ------------------------------------------------------------------------------------------
// predicates on documents (the harness's own copies; compared with Coq's on every case)
// ------------------------------------------------------------------------------------------
fn is_xml_ws(c: char) -> bool {
    c == ' ' || c == '\t' || c == '\n' || c == '\r'
}
fn edge_ws(s: &str) -> bool {
    s.chars().next().map_or(false, is_xml_ws) || s.chars().last().map_or(false, is_xml_ws)
}
fn forbidden(s: &str) -> bool {
    s.chars().any(|c| ((c as u32) < 0x20 && c != '\t' && c != '\n' && c != '\r') || c == '\u{fffe}' || c == '\u{ffff}')
}
fn pv_any(v: &Value, f: &dyn Fn(&str) -> bool) -> bool {
    match v {
        Value::String(s) => f(s),
        Value::Array(a) => a.iter().any(|x| pv_any(x, f)),
        Value::Dictionary(d) => dict_any(d, f),
        _ => false,
    }
}
fn dict_any(d: &Dictionary, f: &dyn Fn(&str) -> bool) -> bool {
    d.iter().any(|(k, v)| f(k) || pv_any(v, f))
}
fn libs_any(d: &DesignSpaceDocument, f: &dyn Fn(&str) -> bool) -> bool {
    dict_any(&d.lib, f) || d.instances.iter().any(|i| dict_any(&i.lib, f))
}
/// every string that is written into an attribute
fn attr_strings(d: &DesignSpaceDocument) -> Vec<&str> {
    let mut v: Vec<&str> = vec![];
    fn o<'a>(v: &mut Vec<&'a str>, x: &'a Option<String>) {
        if let Some(s) = x {
            v.push(s)
        }
    }
    for a in &d.axes {
        v.push(&a.name);
        v.push(&a.tag);
    }
    for r in &d.rules.rules {
        o(&mut v, &r.name);
        for cs in &r.condition_sets {
            for c in &cs.conditions {
                v.push(&c.name)
            }
        }
        for s in &r.substitutions {
            v.push(s.name.as_str());
            v.push(s.with.as_str());
        }
    }
    for s in &d.sources {
        o(&mut v, &s.familyname);
        o(&mut v, &s.stylename);
        o(&mut v, &s.name);
        v.push(&s.filename);
        o(&mut v, &s.layer);
        for l in &s.location {
            v.push(&l.name)
        }
    }
    for s in &d.instances {
        o(&mut v, &s.familyname);
        o(&mut v, &s.stylename);
        o(&mut v, &s.name);
        o(&mut v, &s.filename);
        o(&mut v, &s.postscriptfontname);
        o(&mut v, &s.stylemapfamilyname);
        o(&mut v, &s.stylemapstylename);
        for l in &s.location {
            v.push(&l.name)
        }
    }
    v
}
/// the property's well-formedness + the two representational facts (DESIGN C18)
fn wf(d: &DesignSpaceDocument) -> bool {
    !d.axes.is_empty()
        && d.axes.iter().all(|a| a.map.as_ref().map_or(true, |m| !m.is_empty()))
        && d.rules.rules.iter().all(|r| !r.condition_sets.is_empty() && !r.substitutions.is_empty())
        && !(d.rules.rules.is_empty() && d.rules.processing == RuleProcessing::Last)
        && !d.sources.is_empty()
        && d.sources.iter().all(|s| !s.location.is_empty())
        && d.instances.iter().all(|s| !s.location.is_empty())
}
/// known class (quick-xml trims element text): a lib string or key starts/ends with XML white space
fn cls_trim(d: &DesignSpaceDocument) -> bool {
    libs_any(d, &edge_ws)
}
/// the written file is not read back unchanged by a conforming XML reader: forbidden character
/// anywhere; tab/LF/CR in an attribute value; CR in a lib string or key
fn cls_reader(d: &DesignSpaceDocument) -> (bool, bool) {
    let forb = attr_strings(d).iter().any(|s| forbidden(s)) || libs_any(d, &forbidden);
    let norm = attr_strings(d).iter().any(|s| s.contains(['\t', '\n', '\r'])) || libs_any(d, &|s: &str| s.contains('\r'));
    (forb, norm)
}
/// open containers at the deepest point of a lib (the lib's own dictionary counts as one)
fn pv_depth(v: &Value) -> usize {
    match v {
        Value::Array(a) => 1 + a.iter().map(pv_depth).max().unwrap_or(0),
        Value::Dictionary(d) => 1 + d.values().map(pv_depth).max().unwrap_or(0),
        _ => 0,
    }
}
fn lib_depth(d: &DesignSpaceDocument) -> usize {
    let top = |l: &Dictionary| if l.is_empty() { 0 } else { 1 + l.values().map(pv_depth).max().unwrap_or(0) };
    d.instances.iter().map(|i| top(&i.lib)).max().unwrap_or(0).max(top(&d.lib))
}
/// a chain of `depth` containers around a leaf: kind 0 alternating array/dict, 1 arrays, 2 dicts
fn nest(kind: usize, depth: usize, leaf: Value) -> Value {
    let mut x = leaf;
    for level in (0..depth).rev() {
        let as_array = match kind { 1 => true, 2 => false, _ => level % 2 == 0 };
        x = if as_array {
            Value::Array(vec![x])
        } else {
            let mut d = Dictionary::new();
            d.insert(if level % 3 == 0 { "k".into() } else { format!("level{}", level % 7) }, x);
            Value::Dictionary(d)
        };
    }
    x
}
fn nest_doc(kind: usize, depth: usize, place: usize) -> DesignSpaceDocument {
    let mut d = minimal_doc();
    let mut inst = Instance { familyname: None, stylename: None, name: Some("deep".into()), filename: None,
        postscriptfontname: None, stylemapfamilyname: None, stylemapstylename: None,
        location: vec![Dimension { name: "W".into(), uservalue: None, xvalue: Some(1.0), yvalue: None }], lib: Dictionary::new() };
    let leaf = || Value::String("leaf".into());
    // the lib's own dictionary is one container: the chain below a key has depth - 1
    if place != 1 {
        d.lib.insert("nested".into(), nest(kind, depth - 1, leaf()));
        d.lib.insert("flat".into(), Value::Integer(1.into()));
    }
    if place != 0 {
        inst.lib.insert("nested".into(), nest(kind, depth - 1, leaf()));
    }
    d.instances.push(inst);
    d
}

fn f32_has_nan(d: &DesignSpaceDocument) -> bool {
    fn pv_nan(v: &Value) -> bool {
        match v {
            Value::Real(r) => r.is_nan(),
            Value::Array(a) => a.iter().any(pv_nan),
            Value::Dictionary(d) => d.values().any(pv_nan),
            _ => false,
        }
    }
    let on = |x: &Option<f32>| x.map_or(false, |v| v.is_nan());
    let dim = |l: &Vec<Dimension>| l.iter().any(|d| on(&d.uservalue) || on(&d.xvalue) || on(&d.yvalue));
    d.format.is_nan()
        || d.axes.iter().any(|a| {
            a.default.is_nan()
                || on(&a.minimum)
                || on(&a.maximum)
                || a.values.as_ref().map_or(false, |v| v.iter().any(|x| x.is_nan()))
                || a.map.as_ref().map_or(false, |v| v.iter().any(|m| m.input.is_nan() || m.output.is_nan()))
        })
        || d.rules.rules.iter().any(|r| r.condition_sets.iter().any(|cs| cs.conditions.iter().any(|c| on(&c.minimum) || on(&c.maximum))))
        || d.sources.iter().any(|s| dim(&s.location))
        || d.instances.iter().any(|s| dim(&s.location) || s.lib.values().any(pv_nan))
        || d.lib.values().any(pv_nan)
}

// ------------------------------------------------------------------------------------------
// generators
// ------------------------------------------------------------------------------------------
const CLEAN_ATTR: &[&str] = &[
    "Weight", "wght", "x", "", "a b", " lead", "trail ", "  ", "a<b>&\"'c", "é😀", "Test Family Regular",
    "I.narrow", "fold_I_serifs", "master.ufo", "instances/X-Bold.ufo", "\u{a0}nb\u{a0}", "]]>", "&amp;", "a=\"b\"",
    "日本語", "x\u{7f}y", "q\u{85}r", "\u{2028}", "&#10;", "<!--c-->", "1 2  3",
];
const ATTR_NORM: &[&str] = &["a\tb", "a\nb", "a\rb", "a\r\nb", "\t", "\n lead", "x\r"];
const FORB: &[&str] = &["c\u{1}d", "z\u{0}", "n\u{fffe}", "\u{ffff}m", "v\u{b}w", "\u{1f}"];
const CLEAN_LIB: &[&str] = &[
    "Absolutely!", "x", "", "a b", "a<b>&\"'c", "é😀", "line1\nline2", "tab\there", "in  ner", "\u{a0}nb\u{a0}", "]]>",
    "&lt;", "536", "true", "<string>x</string>", "日本語", "x\u{7f}y", "a\n\n\tb",
];
const LIB_TRIM: &[&str] = &[" lead", "trail ", "  ", "\n", "\tx", " ", " a b ", "x\n"];
const LIB_CR: &[&str] = &["a\rb", "a\r\nb", "\r\n", "x\r"];
const KEYS: &[&str] = &["k1", "com.github.googlei18n.ufo2ft.featureWriters", "public.skipExportGlyphs", "ключ", "", "a&b<", "class", "options", "k 2", "x\u{a0}"];
const KEYS_TRIM: &[&str] = &[" k1", "k1 ", "\tk", "k\n", " "];
const NAMES: &[&str] = &["a", "I", "I.narrow", "S.closed", "é", "a b", " x", "dollar.alt", "<&>", "\u{a0}"];
const F32S: &[f32] = &[
    0.0, -0.0, 1.0, -1.0, 400.0, 700.0, 1000.0, 0.5, -2.5, 0.1, 4.1, 5.0, 1e10, 3.4028235e38, -3.4028235e38, 1.1754944e-38,
    1e-45, 16777216.0, 0.33333334, 123456.79, 1e-7, 9.999999e-5, 8388608.5, f32::INFINITY, f32::NEG_INFINITY,
];
const F64S: &[f64] = &[0.0, -0.0, 1.0, 1.5, -2.5, 0.1, 1e300, 5e-324, 1.7976931348623157e308, 2.2250738585072014e-308, 9007199254740993.0, 1e21, 1e-7, 123456789.123456789, f64::INFINITY, f64::NEG_INFINITY];

/// "Magic" values: constants a future edit may special-case ("skip when equal to the default").
/// The driver harvests every short printable string literal and every numeric literal of
/// norad's source at run time (`--magic FILE`); the fixed lists below are always added.
const FIXED_MAGIC_S: &[&str] = &[
    "public.default", "public.background", "glyphs", "glyphs.", "public.objectLibs", "public.kern1.", "public.kern2.",
    "com.", "foreground", "background", "", "0", "1", "-1", "true", "false", "yes", "no", "first", "last", "none", "None",
    "null", "nan", "NaN", "inf", "-inf", "regular", "italic", "bold", "bold italic", "Regular", "Bold", "default",
    "wght", "wdth", "opsz", "ital", "slnt", "Weight", "Width", "weight", "width", "lib", "dict", "key", "string", "name",
    "location", "dimension", "xvalue", "uservalue", ".notdef", "space", "a", "A", "x", "ufo", ".ufo", "master", "copy",
    "4", "4.0", "4.1", "5", "5.0", "400", "1000",
];
const FIXED_MAGIC_N: &[f32] = &[
    0.0, 1.0, -1.0, 2.0, 3.0, 4.0, 4.1, 5.0, 5.1, 10.0, 50.0, 100.0, 200.0, 300.0, 400.0, 500.0, 600.0, 700.0, 800.0,
    900.0, 1000.0, 2048.0, 0.5, 0.25, 0.1, 360.0, 255.0, 256.0, 65535.0, 65536.0, 1e-6, 1e6,
];
#[derive(Default)]
struct Magic {
    s: Vec<String>,
    n: Vec<f32>,
}
fn legal_magic(s: &str) -> bool {
    // stay outside the reader classes: no control characters, tab, LF, CR, non-characters
    s.len() <= 60 && !forbidden(s) && !s.contains(['\t', '\n', '\r'])
}
impl Magic {
    fn load(path: Option<&String>) -> Magic {
        let mut m = Magic::default();
        for x in FIXED_MAGIC_S {
            m.s.push(x.to_string());
        }
        m.n.extend_from_slice(FIXED_MAGIC_N);
        if let Some(p) = path {
            if let Ok(text) = std::fs::read_to_string(p) {
                if let Ok(j) = serde_json::from_str::<J>(&text) {
                    for x in j["strings"].as_array().into_iter().flatten() {
                        if let Some(t) = x.as_str() {
                            if legal_magic(t) && !m.s.iter().any(|y| y == t) {
                                m.s.push(t.to_string());
                            }
                        }
                    }
                    for x in j["numbers"].as_array().into_iter().flatten() {
                        if let Some(t) = x.as_str().and_then(|t| t.parse::<f32>().ok()) {
                            if t.is_finite() && !m.n.iter().any(|y| y.to_bits() == t.to_bits()) {
                                m.n.push(t);
                            }
                        }
                    }
                }
            }
        }
        let neg: Vec<f32> = m.n.iter().filter(|x| **x != 0.0).map(|x| -*x).collect();
        for x in neg {
            if !m.n.iter().any(|y| y.to_bits() == x.to_bits()) {
                m.n.push(x);
            }
        }
        m
    }
}

/// one document in which every string-valued field holds `m` (every optional one `Some(m)`) and
/// one in which every number holds `x`: a special case keyed on one field and one constant shows
fn sweep_doc(m: &str, x: f32) -> DesignSpaceDocument {
    let s = || m.to_string();
    let o = || Some(m.to_string());
    let nm = || Name::new(m).unwrap_or_else(|_| Name::new("a").unwrap());
    let dim = || Dimension { name: s(), uservalue: Some(x), xvalue: Some(x), yvalue: Some(x) };
    let mut d = DesignSpaceDocument::default();
    d.format = x;
    d.axes.push(Axis { name: s(), tag: s(), default: x, hidden: false, minimum: Some(x), maximum: Some(x), values: None,
                       map: Some(vec![AxisMapping { input: x, output: x }]) });
    d.axes.push(Axis { name: s(), tag: s(), default: x, hidden: true, minimum: None, maximum: None, values: Some(vec![x, x]), map: None });
    d.rules.processing = RuleProcessing::Last;
    d.rules.rules.push(Rule {
        name: o(),
        condition_sets: vec![ConditionSet { conditions: vec![Condition { name: s(), minimum: Some(x), maximum: Some(x) }] }],
        substitutions: vec![Substitution { name: nm(), with: nm() }],
    });
    d.sources.push(Source { familyname: o(), stylename: o(), name: o(), filename: s(), layer: o(), location: vec![dim()] });
    let mut lib = Dictionary::new();
    if !edge_ws(m) {
        lib.insert(s(), Value::String(s()));
        lib.insert("k".into(), Value::Array(vec![Value::String(s())]));
    }
    lib.insert("r".into(), Value::Real(x as f64));
    if x.fract() == 0.0 && x.abs() < 1e15 {
        lib.insert("i".into(), Value::Integer((x as i64).into()));
    }
    d.instances.push(Instance { familyname: o(), stylename: o(), name: o(), filename: o(), postscriptfontname: o(),
                                stylemapfamilyname: o(), stylemapstylename: o(), location: vec![dim()], lib: lib.clone() });
    d.lib = lib;
    d
}

struct G {
    magic: std::rc::Rc<Magic>,
    rng: Rng,
    /// bit 1: lib strings/keys with leading/trailing white space; bit 2: tab/LF/CR in attribute
    /// strings and CR in lib strings; bit 4: characters XML cannot express
    wild: u8,
    nan: bool,
}
impl G {
    fn attr_s(&mut self) -> String {
        if self.rng.chance(1, 7) {
            let m = self.magic.clone();
            return self.rng.pick(&m.s).clone();
        }
        if self.wild & 2 != 0 && self.rng.chance(1, 8) {
            self.rng.pick(ATTR_NORM).to_string()
        } else if self.wild & 4 != 0 && self.rng.chance(1, 10) {
            self.rng.pick(FORB).to_string()
        } else if self.rng.chance(1, 8) {
            self.rand_s(false)
        } else {
            self.rng.pick(CLEAN_ATTR).to_string()
        }
    }
    fn lib_s(&mut self) -> String {
        if self.rng.chance(1, 7) {
            let m = self.magic.clone();
            let t = self.rng.pick(&m.s).clone();
            if self.wild & 1 != 0 || !edge_ws(&t) {
                return t;
            }
        }
        if self.wild & 1 != 0 && self.rng.chance(1, 4) {
            self.rng.pick(LIB_TRIM).to_string()
        } else if self.wild & 2 != 0 && self.rng.chance(1, 5) {
            self.rng.pick(LIB_CR).to_string()
        } else if self.wild & 4 != 0 && self.rng.chance(1, 8) {
            self.rng.pick(FORB).to_string()
        } else if self.rng.chance(1, 8) {
            self.rand_s(true)
        } else {
            self.rng.pick(CLEAN_LIB).to_string()
        }
    }
    /// random short string over a small alphabet with mark-up characters; never starts or ends
    /// with XML white space and never contains tab/LF/CR when `inner_ws` is false
    fn rand_s(&mut self, inner_ws: bool) -> String {
        const A: &[char] = &['a', 'Z', '0', '<', '>', '&', '"', '\'', ';', '#', 'x', '=', '/', 'é', '€', '😀', '.', '-', '_', ']'];
        let n = self.rng.range(1, 8) as usize;
        let mut s = String::new();
        for i in 0..n {
            if i > 0 && i + 1 < n && self.rng.chance(1, 5) {
                s.push(if inner_ws && self.rng.chance(1, 2) { *self.rng.pick(&['\n', '\t']) } else { ' ' });
            } else {
                s.push(*self.rng.pick(A));
            }
        }
        s
    }
    fn opt_s(&mut self) -> Option<String> {
        if self.rng.chance(1, 2) {
            Some(self.attr_s())
        } else {
            None
        }
    }
    fn f32v(&mut self) -> f32 {
        if self.rng.chance(1, 6) {
            let m = self.magic.clone();
            return *self.rng.pick(&m.n);
        }
        let r = self.rng.below(100);
        if r < 60 {
            *self.rng.pick(F32S)
        } else if r < 75 {
            self.rng.range(-2000, 2000) as f32 / *self.rng.pick(&[1.0f32, 2.0, 4.0, 10.0, 100.0, 3.0])
        } else if r < 77 && self.nan {
            f32::from_bits(0x7fc0_0000 | (self.rng.next() as u32 & 0x8000_ffff))
        } else {
            let x = f32::from_bits(self.rng.next() as u32);
            if x.is_nan() && !self.nan {
                1.25
            } else {
                x
            }
        }
    }
    fn opt_f(&mut self) -> Option<f32> {
        if self.rng.chance(1, 2) {
            Some(self.f32v())
        } else {
            None
        }
    }
    fn f64v(&mut self) -> f64 {
        if self.rng.chance(1, 6) {
            let m = self.magic.clone();
            return *self.rng.pick(&m.n) as f64;
        }
        let r = self.rng.below(100);
        if r < 60 {
            *self.rng.pick(F64S)
        } else if r < 62 && self.nan {
            f64::NAN
        } else {
            let x = f64::from_bits(self.rng.next());
            if x.is_nan() && !self.nan {
                2.75
            } else {
                x
            }
        }
    }
    fn date(&mut self) -> plist::Date {
        // years 0000 ..= 9999 (what the plist XML format can express)
        let secs = self.rng.range(-62_167_219_199, 253_402_300_799);
        let nanos = match self.rng.below(10) {
            0..=5 => 0u32,
            6 => 500_000_000,
            7 => 1,
            8 => 999_999_999,
            _ => self.rng.below(1_000_000_000) as u32,
        };
        let secs = if self.rng.chance(1, 3) { self.rng.range(-100_000, 2_000_000_000) } else { secs };
        let t = if secs >= 0 {
            SystemTime::UNIX_EPOCH + Duration::new(secs as u64, nanos)
        } else {
            // subtracting the nanoseconds moves at most one second further back (still year 0000)
            SystemTime::UNIX_EPOCH - Duration::new((-secs) as u64, nanos)
        };
        t.into()
    }
    fn pv(&mut self, depth: u32) -> Value {
        let r = self.rng.below(if depth >= 3 { 80 } else { 100 });
        match r {
            0..=19 => Value::String(self.lib_s()),
            20..=29 => Value::Integer(match self.rng.below(8) {
                0 => i64::MIN.into(),
                1 => u64::MAX.into(),
                2 => (i64::MAX as u64 + 1).into(),
                3 => 0i64.into(),
                4 => i64::MAX.into(),
                5 => (self.rng.next() as i64).into(),
                6 => {
                    let m = self.magic.clone();
                    (*self.rng.pick(&m.n) as i64).into()
                }
                _ => self.rng.range(-1000, 1000).into(),
            }),
            30..=39 => Value::Real(self.f64v()),
            40..=49 => Value::Boolean(self.rng.chance(1, 2)),
            50..=64 => {
                let n = match self.rng.below(6) {
                    0 => 0,
                    1 => 1,
                    2 => 2,
                    3 => 3,
                    4 => self.rng.range(4, 60),
                    _ => self.rng.range(1, 8),
                } as usize;
                Value::Data((0..n).map(|_| self.rng.next() as u8).collect())
            }
            65..=79 => Value::Date(self.date()),
            80..=89 => {
                let n = self.rng.below(4);
                Value::Array((0..n).map(|_| self.pv(depth + 1)).collect())
            }
            _ => Value::Dictionary(self.dict(depth + 1, 3)),
        }
    }
    fn dict(&mut self, depth: u32, max: u64) -> Dictionary {
        let mut d = Dictionary::new();
        let n = self.rng.below(max + 1);
        for _ in 0..n {
            let k = if self.wild & 1 != 0 && self.rng.chance(1, 5) {
                self.rng.pick(KEYS_TRIM).to_string()
            } else if self.rng.chance(1, 6) {
                let m = self.magic.clone();
                let t = self.rng.pick(&m.s).clone();
                if edge_ws(&t) { "k1".to_string() } else { t }
            } else {
                self.rng.pick(KEYS).to_string()
            };
            let v = self.pv(depth);
            d.insert(k, v);
        }
        d
    }
    fn dims(&mut self, allow_empty: bool) -> Vec<Dimension> {
        let n = if allow_empty && self.rng.chance(1, 2) { 0 } else { self.rng.range(1, 3) };
        (0..n).map(|_| Dimension { name: self.attr_s(), uservalue: self.opt_f(), xvalue: self.opt_f(), yvalue: self.opt_f() }).collect()
    }
    fn name(&mut self) -> Name {
        if self.rng.chance(1, 5) {
            let m = self.magic.clone();
            let t: &String = self.rng.pick(&m.s[..]);
            if let Ok(n) = Name::new(t.as_str()) {
                return n;
            }
        }
        let s: &str = *self.rng.pick(NAMES);
        Name::new(s).unwrap()
    }
    /// `bad`: bit set of injected ill-formedness (0 = well-formed)
    fn doc(&mut self, bad: u32) -> DesignSpaceDocument {
        let mut d = DesignSpaceDocument::default();
        d.format = if self.rng.chance(3, 4) { *self.rng.pick(&[4.0f32, 4.1, 5.0, 5.1]) } else { self.f32v() };
        let naxes = if bad & 1 != 0 { 0 } else { self.rng.range(1, 3) };
        for _ in 0..naxes {
            let discrete = self.rng.chance(1, 3);
            let values = if discrete || self.rng.chance(1, 8) {
                let n = self.rng.below(4);
                Some((0..n).map(|_| self.f32v()).collect())
            } else {
                None
            };
            let map = if self.rng.chance(1, 2) {
                let n = self.rng.range(1, 3);
                Some((0..n).map(|_| AxisMapping { input: self.f32v(), output: self.f32v() }).collect())
            } else {
                None
            };
            d.axes.push(Axis {
                name: self.attr_s(),
                tag: self.attr_s(),
                default: self.f32v(),
                hidden: self.rng.chance(1, 3),
                minimum: if discrete && self.rng.chance(2, 3) { None } else { self.opt_f() },
                maximum: if discrete && self.rng.chance(2, 3) { None } else { self.opt_f() },
                values,
                map,
            });
        }
        if bad & 2 != 0 && !d.axes.is_empty() {
            let i = self.rng.below(d.axes.len() as u64) as usize;
            d.axes[i].map = Some(vec![]);
        }
        let nrules = if bad & (4 | 8 | 16) != 0 && bad & 4 == 0 { self.rng.range(1, 2) } else { *self.rng.pick(&[0, 0, 1, 2, 3]) };
        d.rules.processing = if self.rng.chance(1, 2) { RuleProcessing::Last } else { RuleProcessing::First };
        for _ in 0..nrules {
            let ncs = self.rng.range(1, 2);
            let nsub = self.rng.range(1, 3);
            d.rules.rules.push(Rule {
                name: self.opt_s(),
                condition_sets: (0..ncs)
                    .map(|_| {
                        let n = self.rng.below(3);
                        ConditionSet { conditions: (0..n).map(|_| Condition { name: self.attr_s(), minimum: self.opt_f(), maximum: self.opt_f() }).collect() }
                    })
                    .collect(),
                substitutions: (0..nsub).map(|_| Substitution { name: self.name(), with: self.name() }).collect(),
            });
        }
        if bad & 4 != 0 {
            d.rules.rules.clear();
            d.rules.processing = RuleProcessing::Last;
        } else if d.rules.rules.is_empty() {
            d.rules.processing = RuleProcessing::First;
        }
        if bad & 8 != 0 && !d.rules.rules.is_empty() {
            d.rules.rules[0].condition_sets.clear();
        }
        if bad & 16 != 0 && !d.rules.rules.is_empty() {
            let i = d.rules.rules.len() - 1;
            d.rules.rules[i].substitutions.clear();
        }
        let nsrc = if bad & 32 != 0 { 0 } else { self.rng.range(1, 3) };
        for _ in 0..nsrc {
            d.sources.push(Source {
                familyname: self.opt_s(),
                stylename: self.opt_s(),
                name: self.opt_s(),
                filename: self.attr_s(),
                layer: self.opt_s(),
                location: self.dims(false),
            });
        }
        if bad & 64 != 0 && !d.sources.is_empty() {
            let i = self.rng.below(d.sources.len() as u64) as usize;
            d.sources[i].location.clear();
        }
        let ninst = if bad & 128 != 0 { self.rng.range(1, 2) } else { *self.rng.pick(&[0, 1, 1, 2]) };
        for _ in 0..ninst {
            let lib = if self.rng.chance(1, 2) { self.dict(1, 3) } else { Dictionary::new() };
            d.instances.push(Instance {
                familyname: self.opt_s(),
                stylename: self.opt_s(),
                name: self.opt_s(),
                filename: self.opt_s(),
                postscriptfontname: self.opt_s(),
                stylemapfamilyname: self.opt_s(),
                stylemapstylename: self.opt_s(),
                location: self.dims(false),
                lib,
            });
        }
        if bad & 128 != 0 {
            d.instances[0].location.clear();
        }
        d.lib = if self.rng.chance(2, 3) { self.dict(0, 5) } else { Dictionary::new() };
        d
    }
}

// ------------------------------------------------------------------------------------------
// one case
// ------------------------------------------------------------------------------------------
/// What the target path holds before `save` is called on it.
/// "fresh": nothing; "longer" / "shorter": a designspace written by norad that is longer / shorter
/// than the new one; "bytes": arbitrary longer bytes; "empty": an empty file; "history": a longer
/// document was saved there, loaded again, edited (padding instances and lib entries dropped) and
/// the edited document is saved in place.
const PRES: &[&str] = &["fresh", "longer", "shorter", "bytes", "empty", "history"];

/// `d` plus padding: extra instances with libs and extra lib entries, so that its file is longer
fn padded(d: &DesignSpaceDocument, min_len: usize) -> DesignSpaceDocument {
    let mut big = d.clone();
    let mut k = 0;
    loop {
        let mut lib = Dictionary::new();
        lib.insert("zz.pad".into(), Value::String("stale instance lib, must not survive an overwrite".repeat(3)));
        big.instances.push(Instance {
            familyname: Some("Stale Family".into()), stylename: Some("Stale".into()), name: Some(format!("stale-{}", k)),
            filename: Some("instances/stale.ufo".into()), postscriptfontname: None, stylemapfamilyname: None,
            stylemapstylename: None,
            location: vec![Dimension { name: "Weight".into(), uservalue: None, xvalue: Some(400.0), yvalue: None }],
            lib,
        });
        big.lib.insert(format!("zz.pad.{}", k), Value::Array(vec![Value::String("stale document lib entry".into()); 4]));
        k += 1;
        // each round adds well over 600 bytes
        if k * 600 > min_len + 600 {
            return big;
        }
    }
}
fn minimal_doc() -> DesignSpaceDocument {
    let mut d = DesignSpaceDocument::default();
    d.format = 5.0;
    d.axes.push(Axis { name: "W".into(), tag: "wght".into(), default: 1.0, hidden: false, minimum: None, maximum: None, values: None, map: None });
    d.sources.push(Source { familyname: None, stylename: None, name: None, filename: "a".into(), layer: None,
                            location: vec![Dimension { name: "W".into(), uservalue: None, xvalue: Some(1.0), yvalue: None }] });
    d
}

fn run_case(i: usize, d0: &DesignSpaceDocument, out: &Path, tmp: &Path, pre: &str) -> J {
    let p = tmp.join("case.designspace");
    let fresh = tmp.join("fresh.designspace");
    let _ = std::fs::remove_file(&p);
    let _ = std::fs::remove_file(&fresh);
    let mut pre = pre;
    // the load -> edit -> save-in-place history: the document under test is the edited one
    let mut edited: Option<DesignSpaceDocument> = None;
    if pre == "history" {
        let big = padded(d0, 0);
        let ok = matches!(catch(|| big.save(&p)), Ok(Ok(())));
        let loaded = if ok { catch(|| DesignSpaceDocument::load(&p)).ok().and_then(|r| r.ok()) } else { None };
        match loaded {
            Some(mut l) => {
                l.instances.truncate(d0.instances.len());
                l.lib.retain(|k, _| !k.starts_with("zz.pad."));
                edited = Some(l);
            }
            None => {
                pre = "fresh";
                let _ = std::fs::remove_file(&p);
            }
        }
    }
    let d: &DesignSpaceDocument = edited.as_ref().unwrap_or(d0);
    let (forb, norm) = cls_reader(d);
    let mut rec = json!({
        "i": i, "doc": doc_to_json(d), "wf": wf(d), "cls_trim": cls_trim(d),
        "cls_forbidden": forb, "cls_norm": norm, "has_nan": f32_has_nan(d), "pre": pre, "lib_depth": lib_depth(d),
    });
    // reference: the same document saved to a path that does not exist
    let saved = catch(|| d.save(&fresh));
    match saved {
        Err(m) => {
            rec["save"] = json!("panic");
            rec["msg"] = json!(m);
            return rec;
        }
        Ok(Err(e)) => {
            rec["save"] = json!("err");
            rec["msg"] = json!(format!("{:?}", e));
            return rec;
        }
        Ok(Ok(())) => rec["save"] = json!("ok"),
    }
    let fresh_bytes = std::fs::read(&fresh).unwrap_or_default();
    if pre == "fresh" {
        std::fs::rename(&fresh, &p).unwrap();
    } else {
        match pre {
            "longer" => {
                let big = padded(d, fresh_bytes.len());
                let _ = catch(|| big.save(&p));
            }
            "shorter" => {
                let _ = catch(|| minimal_doc().save(&p));
            }
            "bytes" => {
                let mut r = Rng::new(i as u64 ^ 0xB17E5);
                let n = fresh_bytes.len() + 1 + r.below(3000) as usize;
                let junk: Vec<u8> = (0..n).map(|_| if r.chance(1, 3) { b'>' } else { r.next() as u8 }).collect();
                std::fs::write(&p, junk).unwrap();
            }
            "empty" => std::fs::write(&p, b"").unwrap(),
            _ => {} // history: p already holds the longer document
        }
        rec["pre_len"] = json!(std::fs::metadata(&p).map(|m| m.len()).unwrap_or(0));
        match catch(|| d.save(&p)) {
            Ok(Ok(())) => {}
            Err(m) => {
                rec["save"] = json!("panic");
                rec["msg"] = json!(format!("saving over an existing file: {}", m));
                return rec;
            }
            Ok(Err(e)) => {
                rec["save"] = json!("err");
                rec["msg"] = json!(format!("saving over an existing file: {:?}", e));
                return rec;
            }
        }
    }
    let bytes = std::fs::read(&p).unwrap_or_default();
    rec["same_bytes"] = json!(bytes == fresh_bytes);
    rec["len"] = json!(bytes.len());
    rec["fresh_len"] = json!(fresh_bytes.len());
    std::fs::write(out.join(format!("f{}.xml", i)), &bytes).unwrap();
    match catch(|| DesignSpaceDocument::load(&p)) {
        Err(m) => {
            rec["load"] = json!("panic");
            rec["msg"] = json!(m);
        }
        Ok(Err(e)) => {
            rec["load"] = json!("err");
            rec["msg"] = json!(format!("{:?}", e).chars().take(200).collect::<String>());
        }
        Ok(Ok(d2)) => {
            let j2 = doc_to_json(&d2);
            let same = j2 == rec["doc"];
            rec["rust_eq"] = json!(d2 == *d);
            if same {
                rec["load"] = json!("same");
            } else {
                rec["load"] = json!("other");
                rec["loaded"] = j2;
            }
        }
    }
    rec
}

/// L1 validation: `Display` then `parse` gives the value back (bit-exact, NaN to NaN), the text
/// is non-empty and has no white space; the same for f64.
fn l1_floats(rng: &mut Rng, n: usize) -> (u64, Vec<String>) {
    let mut bad = vec![];
    let mut cnt = 0u64;
    let ok_chars = |s: &str| !s.is_empty() && s.chars().all(|c| c.is_ascii_digit() || ".-einfNa".contains(c));
    let mut check32 = |x: f32, bad: &mut Vec<String>| {
        let s = x.to_string();
        let back: Result<f32, _> = s.parse();
        let good = match back {
            Ok(y) => (x.is_nan() && y.is_nan()) || x.to_bits() == y.to_bits(),
            Err(_) => false,
        };
        if !good || !ok_chars(&s) {
            bad.push(format!("f32 bits {:#x} text {:?}", x.to_bits(), s));
        }
    };
    for x in F32S {
        check32(*x, &mut bad);
        cnt += 1;
    }
    for e in 0..=255u32 {
        for m in [0u32, 1, 0x7fffff, 0x400000, 0x2aaaaa] {
            for s in [0u32, 1] {
                check32(f32::from_bits((s << 31) | (e << 23) | m), &mut bad);
                cnt += 1;
            }
        }
    }
    for _ in 0..n {
        check32(f32::from_bits(rng.next() as u32), &mut bad);
        cnt += 1;
    }
    let mut check64 = |x: f64, bad: &mut Vec<String>| {
        let s = x.to_string();
        let back: Result<f64, _> = s.parse();
        let good = match back {
            Ok(y) => (x.is_nan() && y.is_nan()) || x.to_bits() == y.to_bits(),
            Err(_) => false,
        };
        if !good || !ok_chars(&s) {
            bad.push(format!("f64 bits {:#x} text {:?}", x.to_bits(), s));
        }
    };
    for x in F64S {
        check64(*x, &mut bad);
        cnt += 1;
    }
    for e in (0..=2047u64).step_by(7) {
        for m in [0u64, 1, (1 << 52) - 1, 1 << 51] {
            check64(f64::from_bits((e << 52) | m), &mut bad);
            check64(f64::from_bits((1 << 63) | (e << 52) | m), &mut bad);
            cnt += 2;
        }
    }
    for _ in 0..n {
        check64(f64::from_bits(rng.next()), &mut bad);
        cnt += 1;
    }
    // plist dates (within the years 0000..9999); base64 is validated by the file comparison
    let mut g = G { magic: std::rc::Rc::new(Magic::load(None)), rng: rng.fork(), wild: 0, nan: false };
    for _ in 0..(n / 20).max(1000) {
        let t = g.date();
        let s = t.to_xml_format();
        let back = plist::Date::from_xml_format(&s);
        if back.ok() != Some(t) || s.is_empty() || s.chars().any(is_xml_ws) {
            bad.push(format!("date text {:?}", s));
        }
        cnt += 1;
    }
    bad.truncate(10);
    (cnt, bad)
}

fn load_dir(dir: &Path) {
    // files p<i>.xml, outcome per line: i <TAB> same-format JSON of the loaded document | err | panic
    let mut out = String::new();
    let mut i = 0usize;
    loop {
        let p = dir.join(format!("p{}.xml", i));
        if !p.exists() {
            break;
        }
        let rec = match catch(|| DesignSpaceDocument::load(&p)) {
            Err(m) => json!({"i": i, "load": "panic", "msg": m}),
            Ok(Err(e)) => json!({"i": i, "load": "err", "msg": format!("{:?}", e).chars().take(200).collect::<String>()}),
            Ok(Ok(d)) => json!({"i": i, "load": "ok", "loaded": doc_to_json(&d)}),
        };
        out.push_str(&rec.to_string());
        out.push('\n');
        i += 1;
    }
    write_file(&dir.join("loaded.jsonl"), &out);
}

/// everything runs on a thread with a 256 MiB stack: the deeply nested libs must never exhaust the
/// harness's own stack (norad's recursion, plist's drop, the JSON dump)
pub fn main(a: &Args) {
    std::thread::scope(|s| {
        std::thread::Builder::new()
            .stack_size(256 << 20)
            .spawn_scoped(s, || main_inner(a))
            .expect("spawn")
            .join()
            .unwrap_or_else(|_| std::process::exit(3));
    });
}
fn main_inner(a: &Args) {
    if let Some(pos) = a.extra.iter().position(|x| x == "--load-dir") {
        load_dir(Path::new(&a.extra[pos + 1]));
        return;
    }
    let tmp = tempfile::tempdir().expect("tempdir");
    let mut lines = String::new();
    if let Some(p) = &a.replay {
        // JSON lines: each line either a document or {"doc": document, ...}
        let text = std::fs::read_to_string(p).expect("replay file");
        let mut i = 0;
        for line in text.lines().filter(|l| !l.trim().is_empty()) {
            let j: J = serde_json::from_str(line).expect("replay JSON");
            let pre = j.get("pre").and_then(|x| x.as_str()).and_then(|x| PRES.iter().find(|y| **y == x)).copied().unwrap_or("fresh");
            let dj = if j.get("doc").is_some() { j["doc"].clone() } else { j };
            let d = doc_from_json(&dj);
            let rec = run_case(i, &d, &a.out, tmp.path(), pre);
            lines.push_str(&rec.to_string());
            lines.push('\n');
            i += 1;
        }
        write_file(&a.out.join("cases.jsonl"), &lines);
        return;
    }
    let n = if a.thorough() { 40_000 } else { 2_400 };
    let mut master = Rng::new(a.seed ^ 0xC18);
    let magic = std::rc::Rc::new(Magic::load(a.extra.iter().position(|x| x == "--magic").and_then(|p| a.extra.get(p + 1))));
    for i in 0..n {
        let kind = master.below(100);
        let mut g = G { magic: magic.clone(), rng: master.fork(), wild: if (60..75).contains(&kind) { [1u8, 1, 2, 2, 4, 4, 7, 3][(kind % 8) as usize] } else { 0 }, nan: kind % 10 == 7 };
        let bad = if kind >= 75 {
            let mut b = 1u32 << g.rng.below(8);
            if g.rng.chance(1, 5) {
                b |= 1u32 << g.rng.below(8);
            }
            b
        } else {
            0
        };
        let d = g.doc(bad);
        // three documents in ten are saved over an existing file
        let pre = ["fresh", "fresh", "fresh", "fresh", "fresh", "fresh", "fresh", "fresh", "fresh", "fresh", "fresh", "fresh",
                   "fresh", "fresh", "longer", "longer", "shorter", "bytes", "empty", "history"][g.rng.below(20) as usize];
        let mut rec = run_case(i, &d, &a.out, tmp.path(), pre);
        rec["kind"] = json!(if kind < 60 { "wf-clean" } else if kind < 75 { "wf-wild" } else { "ill-formed" });
        lines.push_str(&rec.to_string());
        lines.push('\n');
    }
    // the sweep: every magic string in every string field, every magic number in every number
    let mut i = n;
    let numbers: Vec<f32> = magic.n.clone();
    for (k, m) in magic.s.iter().enumerate() {
        let d = sweep_doc(m, numbers[k % numbers.len()]);
        let mut rec = run_case(i, &d, &a.out, tmp.path(), if k % 16 == 5 { "longer" } else { "fresh" });
        rec["kind"] = json!("magic-sweep");
        lines.push_str(&rec.to_string());
        lines.push('\n');
        i += 1;
    }
    for (k, x) in numbers.iter().enumerate() {
        if k < magic.s.len() {
            continue; // already used above
        }
        let d = sweep_doc(&magic.s[k % magic.s.len()], *x);
        let mut rec = run_case(i, &d, &a.out, tmp.path(), "fresh");
        rec["kind"] = json!("magic-sweep");
        lines.push_str(&rec.to_string());
        lines.push('\n');
        i += 1;
    }
    // the nesting-depth dimension of libs: 1..12 densely, then a few deep ones around the powers of two
    // (all below the recorded class of C03, stack exhaustion beyond 512 levels)
    let mut depths: Vec<usize> = (1..=12).collect();
    depths.extend_from_slice(&[50, 100, 126, 127, 128, 129, 130, 131, 200, 300, 400]);
    for (n, depth) in depths.iter().enumerate() {
        let kinds: Vec<usize> = if *depth <= 12 || (126..=131).contains(depth) { vec![0, 1, 2] } else { vec![n % 3] };
        for kind in kinds {
            let places: Vec<usize> = if (126..=131).contains(depth) { vec![0, 1] } else { vec![(n + kind) % 3] };
            for place in places {
                let d = nest_doc(kind, *depth, place);
                let mut rec = run_case(i, &d, &a.out, tmp.path(), "fresh");
                rec["kind"] = json!("lib-nesting");
                lines.push_str(&rec.to_string());
                lines.push('\n');
                i += 1;
            }
        }
    }
    write_file(&a.out.join("cases.jsonl"), &lines);
    let (cnt, bad) = l1_floats(&mut master, if a.thorough() { 2_000_000 } else { 200_000 });
    // observation (outside the property): dates the XML form cannot express make save panic
    let mut far = DesignSpaceDocument::default();
    far.lib.insert("d".into(), Value::Date((SystemTime::UNIX_EPOCH + Duration::new(253_402_300_800, 0)).into()));
    let far_panics = catch(|| far.save(tmp.path().join("far.designspace"))).is_err();
    let summary = json!({"cases": i, "magic_strings": magic.s.len(), "magic_numbers": magic.n.len(), "l1_float_checks": cnt, "l1_float_failures": bad, "obs_year_10000_date_save_panics": far_panics});
    write_file(&a.out.join("summary.json"), &summary.to_string());
}
