//! GENERATED once from `pub struct FontInfo` (norad src/fontinfo.rs) by a script; committed.
//! One entry per format-3 attribute, sorted by serde key (byte order): the dump of the field
//! through the PUBLIC API, `None` when the field is unset. Structured format-3-only attributes
//! (guidelines, gasp, name records, WOFF) are dumped as a presence marker: no legacy
//! conversion may set them.
use crate::util::Tm;
use super::{tm_f64, tm_i, tm_str};
use norad::fontinfo::*;

pub const KEYS: [&str; 108] = [
    "ascender",
    "capHeight",
    "copyright",
    "descender",
    "familyName",
    "guidelines",
    "italicAngle",
    "macintoshFONDFamilyID",
    "macintoshFONDName",
    "note",
    "openTypeGaspRangeRecords",
    "openTypeHeadCreated",
    "openTypeHeadFlags",
    "openTypeHeadLowestRecPPEM",
    "openTypeHheaAscender",
    "openTypeHheaCaretOffset",
    "openTypeHheaCaretSlopeRise",
    "openTypeHheaCaretSlopeRun",
    "openTypeHheaDescender",
    "openTypeHheaLineGap",
    "openTypeNameCompatibleFullName",
    "openTypeNameDescription",
    "openTypeNameDesigner",
    "openTypeNameDesignerURL",
    "openTypeNameLicense",
    "openTypeNameLicenseURL",
    "openTypeNameManufacturer",
    "openTypeNameManufacturerURL",
    "openTypeNamePreferredFamilyName",
    "openTypeNamePreferredSubfamilyName",
    "openTypeNameRecords",
    "openTypeNameSampleText",
    "openTypeNameUniqueID",
    "openTypeNameVersion",
    "openTypeNameWWSFamilyName",
    "openTypeNameWWSSubfamilyName",
    "openTypeOS2CodePageRanges",
    "openTypeOS2FamilyClass",
    "openTypeOS2Panose",
    "openTypeOS2Selection",
    "openTypeOS2StrikeoutPosition",
    "openTypeOS2StrikeoutSize",
    "openTypeOS2SubscriptXOffset",
    "openTypeOS2SubscriptXSize",
    "openTypeOS2SubscriptYOffset",
    "openTypeOS2SubscriptYSize",
    "openTypeOS2SuperscriptXOffset",
    "openTypeOS2SuperscriptXSize",
    "openTypeOS2SuperscriptYOffset",
    "openTypeOS2SuperscriptYSize",
    "openTypeOS2Type",
    "openTypeOS2TypoAscender",
    "openTypeOS2TypoDescender",
    "openTypeOS2TypoLineGap",
    "openTypeOS2UnicodeRanges",
    "openTypeOS2VendorID",
    "openTypeOS2WeightClass",
    "openTypeOS2WidthClass",
    "openTypeOS2WinAscent",
    "openTypeOS2WinDescent",
    "openTypeVheaCaretOffset",
    "openTypeVheaCaretSlopeRise",
    "openTypeVheaCaretSlopeRun",
    "openTypeVheaVertTypoAscender",
    "openTypeVheaVertTypoDescender",
    "openTypeVheaVertTypoLineGap",
    "postscriptBlueFuzz",
    "postscriptBlueScale",
    "postscriptBlueShift",
    "postscriptBlueValues",
    "postscriptDefaultCharacter",
    "postscriptDefaultWidthX",
    "postscriptFamilyBlues",
    "postscriptFamilyOtherBlues",
    "postscriptFontName",
    "postscriptForceBold",
    "postscriptFullName",
    "postscriptIsFixedPitch",
    "postscriptNominalWidthX",
    "postscriptOtherBlues",
    "postscriptSlantAngle",
    "postscriptStemSnapH",
    "postscriptStemSnapV",
    "postscriptUnderlinePosition",
    "postscriptUnderlineThickness",
    "postscriptUniqueID",
    "postscriptWeightName",
    "postscriptWindowsCharacterSet",
    "styleMapFamilyName",
    "styleMapStyleName",
    "styleName",
    "trademark",
    "unitsPerEm",
    "versionMajor",
    "versionMinor",
    "woffMajorVersion",
    "woffMetadataCopyright",
    "woffMetadataCredits",
    "woffMetadataDescription",
    "woffMetadataExtensions",
    "woffMetadataLicense",
    "woffMetadataLicensee",
    "woffMetadataTrademark",
    "woffMetadataUniqueID",
    "woffMetadataVendor",
    "woffMinorVersion",
    "xHeight",
    "year",
];

pub fn dump(i: &FontInfo) -> Vec<Option<Tm>> {
    vec![
        i.ascender.map(|v| Tm::L(vec![Tm::N(0), tm_f64(v)])), // ascender
        i.cap_height.map(|v| Tm::L(vec![Tm::N(0), tm_f64(v)])), // capHeight
        i.copyright.as_ref().map(|v| Tm::L(vec![Tm::N(2), tm_str(v)])), // copyright
        i.descender.map(|v| Tm::L(vec![Tm::N(0), tm_f64(v)])), // descender
        i.family_name.as_ref().map(|v| Tm::L(vec![Tm::N(2), tm_str(v)])), // familyName
        i.guidelines.as_ref().map(|_| Tm::L(vec![Tm::N(9)])), // guidelines
        i.italic_angle.map(|v| Tm::L(vec![Tm::N(0), tm_f64(v)])), // italicAngle
        i.macintosh_fond_family_id.map(|v| Tm::L(vec![Tm::N(1), tm_i(v as i128)])), // macintoshFONDFamilyID
        i.macintosh_fond_name.as_ref().map(|v| Tm::L(vec![Tm::N(2), tm_str(v)])), // macintoshFONDName
        i.note.as_ref().map(|v| Tm::L(vec![Tm::N(2), tm_str(v)])), // note
        i.open_type_gasp_range_records.as_ref().map(|_| Tm::L(vec![Tm::N(9)])), // openTypeGaspRangeRecords
        i.open_type_head_created.as_ref().map(|v| Tm::L(vec![Tm::N(2), tm_str(v)])), // openTypeHeadCreated
        i.open_type_head_flags.as_ref().map(|v| Tm::L(vec![Tm::N(5), Tm::L(v.iter().map(|x| tm_i(*x as i128)).collect())])), // openTypeHeadFlags
        i.open_type_head_lowest_rec_ppem.map(|v| Tm::L(vec![Tm::N(1), tm_i(v as i128)])), // openTypeHeadLowestRecPPEM
        i.open_type_hhea_ascender.map(|v| Tm::L(vec![Tm::N(1), tm_i(v as i128)])), // openTypeHheaAscender
        i.open_type_hhea_caret_offset.map(|v| Tm::L(vec![Tm::N(1), tm_i(v as i128)])), // openTypeHheaCaretOffset
        i.open_type_hhea_caret_slope_rise.map(|v| Tm::L(vec![Tm::N(1), tm_i(v as i128)])), // openTypeHheaCaretSlopeRise
        i.open_type_hhea_caret_slope_run.map(|v| Tm::L(vec![Tm::N(1), tm_i(v as i128)])), // openTypeHheaCaretSlopeRun
        i.open_type_hhea_descender.map(|v| Tm::L(vec![Tm::N(1), tm_i(v as i128)])), // openTypeHheaDescender
        i.open_type_hhea_line_gap.map(|v| Tm::L(vec![Tm::N(1), tm_i(v as i128)])), // openTypeHheaLineGap
        i.open_type_name_compatible_full_name.as_ref().map(|v| Tm::L(vec![Tm::N(2), tm_str(v)])), // openTypeNameCompatibleFullName
        i.open_type_name_description.as_ref().map(|v| Tm::L(vec![Tm::N(2), tm_str(v)])), // openTypeNameDescription
        i.open_type_name_designer.as_ref().map(|v| Tm::L(vec![Tm::N(2), tm_str(v)])), // openTypeNameDesigner
        i.open_type_name_designer_url.as_ref().map(|v| Tm::L(vec![Tm::N(2), tm_str(v)])), // openTypeNameDesignerURL
        i.open_type_name_license.as_ref().map(|v| Tm::L(vec![Tm::N(2), tm_str(v)])), // openTypeNameLicense
        i.open_type_name_license_url.as_ref().map(|v| Tm::L(vec![Tm::N(2), tm_str(v)])), // openTypeNameLicenseURL
        i.open_type_name_manufacturer.as_ref().map(|v| Tm::L(vec![Tm::N(2), tm_str(v)])), // openTypeNameManufacturer
        i.open_type_name_manufacturer_url.as_ref().map(|v| Tm::L(vec![Tm::N(2), tm_str(v)])), // openTypeNameManufacturerURL
        i.open_type_name_preferred_family_name.as_ref().map(|v| Tm::L(vec![Tm::N(2), tm_str(v)])), // openTypeNamePreferredFamilyName
        i.open_type_name_preferred_subfamily_name.as_ref().map(|v| Tm::L(vec![Tm::N(2), tm_str(v)])), // openTypeNamePreferredSubfamilyName
        i.open_type_name_records.as_ref().map(|_| Tm::L(vec![Tm::N(9)])), // openTypeNameRecords
        i.open_type_name_sample_text.as_ref().map(|v| Tm::L(vec![Tm::N(2), tm_str(v)])), // openTypeNameSampleText
        i.open_type_name_unique_id.as_ref().map(|v| Tm::L(vec![Tm::N(2), tm_str(v)])), // openTypeNameUniqueID
        i.open_type_name_version.as_ref().map(|v| Tm::L(vec![Tm::N(2), tm_str(v)])), // openTypeNameVersion
        i.open_type_name_wws_family_name.as_ref().map(|v| Tm::L(vec![Tm::N(2), tm_str(v)])), // openTypeNameWWSFamilyName
        i.open_type_name_wws_subfamily_name.as_ref().map(|v| Tm::L(vec![Tm::N(2), tm_str(v)])), // openTypeNameWWSSubfamilyName
        i.open_type_os2_code_page_ranges.as_ref().map(|v| Tm::L(vec![Tm::N(5), Tm::L(v.iter().map(|x| tm_i(*x as i128)).collect())])), // openTypeOS2CodePageRanges
        i.open_type_os2_family_class.as_ref().map(|v| Tm::L(vec![Tm::N(5), Tm::L(vec![tm_i(v.class_id as i128), tm_i(v.subclass_id as i128)])])), // openTypeOS2FamilyClass
        i.open_type_os2_panose.as_ref().map(|v| Tm::L(vec![Tm::N(5), Tm::L([v.family_type, v.serif_style, v.weight, v.proportion, v.contrast, v.stroke_variation, v.arm_style, v.letterform, v.midline, v.x_height].iter().map(|x| tm_i(*x as i128)).collect())])), // openTypeOS2Panose
        i.open_type_os2_selection.as_ref().map(|v| Tm::L(vec![Tm::N(5), Tm::L(v.iter().map(|x| tm_i(*x as i128)).collect())])), // openTypeOS2Selection
        i.open_type_os2_strikeout_position.map(|v| Tm::L(vec![Tm::N(1), tm_i(v as i128)])), // openTypeOS2StrikeoutPosition
        i.open_type_os2_strikeout_size.map(|v| Tm::L(vec![Tm::N(1), tm_i(v as i128)])), // openTypeOS2StrikeoutSize
        i.open_type_os2_subscript_x_offset.map(|v| Tm::L(vec![Tm::N(1), tm_i(v as i128)])), // openTypeOS2SubscriptXOffset
        i.open_type_os2_subscript_x_size.map(|v| Tm::L(vec![Tm::N(1), tm_i(v as i128)])), // openTypeOS2SubscriptXSize
        i.open_type_os2_subscript_y_offset.map(|v| Tm::L(vec![Tm::N(1), tm_i(v as i128)])), // openTypeOS2SubscriptYOffset
        i.open_type_os2_subscript_y_size.map(|v| Tm::L(vec![Tm::N(1), tm_i(v as i128)])), // openTypeOS2SubscriptYSize
        i.open_type_os2_superscript_x_offset.map(|v| Tm::L(vec![Tm::N(1), tm_i(v as i128)])), // openTypeOS2SuperscriptXOffset
        i.open_type_os2_superscript_x_size.map(|v| Tm::L(vec![Tm::N(1), tm_i(v as i128)])), // openTypeOS2SuperscriptXSize
        i.open_type_os2_superscript_y_offset.map(|v| Tm::L(vec![Tm::N(1), tm_i(v as i128)])), // openTypeOS2SuperscriptYOffset
        i.open_type_os2_superscript_y_size.map(|v| Tm::L(vec![Tm::N(1), tm_i(v as i128)])), // openTypeOS2SuperscriptYSize
        i.open_type_os2_type.as_ref().map(|v| Tm::L(vec![Tm::N(5), Tm::L(v.iter().map(|x| tm_i(*x as i128)).collect())])), // openTypeOS2Type
        i.open_type_os2_typo_ascender.map(|v| Tm::L(vec![Tm::N(1), tm_i(v as i128)])), // openTypeOS2TypoAscender
        i.open_type_os2_typo_descender.map(|v| Tm::L(vec![Tm::N(1), tm_i(v as i128)])), // openTypeOS2TypoDescender
        i.open_type_os2_typo_line_gap.map(|v| Tm::L(vec![Tm::N(1), tm_i(v as i128)])), // openTypeOS2TypoLineGap
        i.open_type_os2_unicode_ranges.as_ref().map(|v| Tm::L(vec![Tm::N(5), Tm::L(v.iter().map(|x| tm_i(*x as i128)).collect())])), // openTypeOS2UnicodeRanges
        i.open_type_os2_vendor_id.as_ref().map(|v| Tm::L(vec![Tm::N(2), tm_str(v)])), // openTypeOS2VendorID
        i.open_type_os2_weight_class.map(|v| Tm::L(vec![Tm::N(1), tm_i(v as i128)])), // openTypeOS2WeightClass
        i.open_type_os2_width_class.map(|v| Tm::L(vec![Tm::N(1), tm_i(v as u8 as i128)])), // openTypeOS2WidthClass
        i.open_type_os2_win_ascent.map(|v| Tm::L(vec![Tm::N(1), tm_i(v as i128)])), // openTypeOS2WinAscent
        i.open_type_os2_win_descent.map(|v| Tm::L(vec![Tm::N(1), tm_i(v as i128)])), // openTypeOS2WinDescent
        i.open_type_vhea_caret_offset.map(|v| Tm::L(vec![Tm::N(1), tm_i(v as i128)])), // openTypeVheaCaretOffset
        i.open_type_vhea_caret_slope_rise.map(|v| Tm::L(vec![Tm::N(1), tm_i(v as i128)])), // openTypeVheaCaretSlopeRise
        i.open_type_vhea_caret_slope_run.map(|v| Tm::L(vec![Tm::N(1), tm_i(v as i128)])), // openTypeVheaCaretSlopeRun
        i.open_type_vhea_vert_typo_ascender.map(|v| Tm::L(vec![Tm::N(1), tm_i(v as i128)])), // openTypeVheaVertTypoAscender
        i.open_type_vhea_vert_typo_descender.map(|v| Tm::L(vec![Tm::N(1), tm_i(v as i128)])), // openTypeVheaVertTypoDescender
        i.open_type_vhea_vert_typo_line_gap.map(|v| Tm::L(vec![Tm::N(1), tm_i(v as i128)])), // openTypeVheaVertTypoLineGap
        i.postscript_blue_fuzz.map(|v| Tm::L(vec![Tm::N(0), tm_f64(v)])), // postscriptBlueFuzz
        i.postscript_blue_scale.map(|v| Tm::L(vec![Tm::N(0), tm_f64(v)])), // postscriptBlueScale
        i.postscript_blue_shift.map(|v| Tm::L(vec![Tm::N(0), tm_f64(v)])), // postscriptBlueShift
        i.postscript_blue_values.as_ref().map(|v| Tm::L(vec![Tm::N(4), Tm::L(v.iter().map(|x| tm_f64(*x)).collect())])), // postscriptBlueValues
        i.postscript_default_character.as_ref().map(|v| Tm::L(vec![Tm::N(2), tm_str(v)])), // postscriptDefaultCharacter
        i.postscript_default_width_x.map(|v| Tm::L(vec![Tm::N(0), tm_f64(v)])), // postscriptDefaultWidthX
        i.postscript_family_blues.as_ref().map(|v| Tm::L(vec![Tm::N(4), Tm::L(v.iter().map(|x| tm_f64(*x)).collect())])), // postscriptFamilyBlues
        i.postscript_family_other_blues.as_ref().map(|v| Tm::L(vec![Tm::N(4), Tm::L(v.iter().map(|x| tm_f64(*x)).collect())])), // postscriptFamilyOtherBlues
        i.postscript_font_name.as_ref().map(|v| Tm::L(vec![Tm::N(2), tm_str(v)])), // postscriptFontName
        i.postscript_force_bold.map(|v| Tm::L(vec![Tm::N(3), Tm::b(v)])), // postscriptForceBold
        i.postscript_full_name.as_ref().map(|v| Tm::L(vec![Tm::N(2), tm_str(v)])), // postscriptFullName
        i.postscript_is_fixed_pitch.map(|v| Tm::L(vec![Tm::N(3), Tm::b(v)])), // postscriptIsFixedPitch
        i.postscript_nominal_width_x.map(|v| Tm::L(vec![Tm::N(0), tm_f64(v)])), // postscriptNominalWidthX
        i.postscript_other_blues.as_ref().map(|v| Tm::L(vec![Tm::N(4), Tm::L(v.iter().map(|x| tm_f64(*x)).collect())])), // postscriptOtherBlues
        i.postscript_slant_angle.map(|v| Tm::L(vec![Tm::N(0), tm_f64(v)])), // postscriptSlantAngle
        i.postscript_stem_snap_h.as_ref().map(|v| Tm::L(vec![Tm::N(4), Tm::L(v.iter().map(|x| tm_f64(*x)).collect())])), // postscriptStemSnapH
        i.postscript_stem_snap_v.as_ref().map(|v| Tm::L(vec![Tm::N(4), Tm::L(v.iter().map(|x| tm_f64(*x)).collect())])), // postscriptStemSnapV
        i.postscript_underline_position.map(|v| Tm::L(vec![Tm::N(0), tm_f64(v)])), // postscriptUnderlinePosition
        i.postscript_underline_thickness.map(|v| Tm::L(vec![Tm::N(0), tm_f64(v)])), // postscriptUnderlineThickness
        i.postscript_unique_id.map(|v| Tm::L(vec![Tm::N(1), tm_i(v as i128)])), // postscriptUniqueID
        i.postscript_weight_name.as_ref().map(|v| Tm::L(vec![Tm::N(2), tm_str(v)])), // postscriptWeightName
        i.postscript_windows_character_set.map(|v| Tm::L(vec![Tm::N(1), tm_i(v as u8 as i128)])), // postscriptWindowsCharacterSet
        i.style_map_family_name.as_ref().map(|v| Tm::L(vec![Tm::N(2), tm_str(v)])), // styleMapFamilyName
        i.style_map_style_name.as_ref().map(|v| Tm::L(vec![Tm::N(2), tm_str(match v { StyleMapStyle::Regular => "regular", StyleMapStyle::Italic => "italic", StyleMapStyle::Bold => "bold", StyleMapStyle::BoldItalic => "bold italic" })])), // styleMapStyleName
        i.style_name.as_ref().map(|v| Tm::L(vec![Tm::N(2), tm_str(v)])), // styleName
        i.trademark.as_ref().map(|v| Tm::L(vec![Tm::N(2), tm_str(v)])), // trademark
        i.units_per_em.map(|v| Tm::L(vec![Tm::N(0), tm_f64(v.as_f64())])), // unitsPerEm
        i.version_major.map(|v| Tm::L(vec![Tm::N(1), tm_i(v as i128)])), // versionMajor
        i.version_minor.map(|v| Tm::L(vec![Tm::N(1), tm_i(v as i128)])), // versionMinor
        i.woff_major_version.map(|v| Tm::L(vec![Tm::N(1), tm_i(v as i128)])), // woffMajorVersion
        i.woff_metadata_copyright.as_ref().map(|_| Tm::L(vec![Tm::N(9)])), // woffMetadataCopyright
        i.woff_metadata_credits.as_ref().map(|_| Tm::L(vec![Tm::N(9)])), // woffMetadataCredits
        i.woff_metadata_description.as_ref().map(|_| Tm::L(vec![Tm::N(9)])), // woffMetadataDescription
        i.woff_metadata_extensions.as_ref().map(|_| Tm::L(vec![Tm::N(9)])), // woffMetadataExtensions
        i.woff_metadata_license.as_ref().map(|_| Tm::L(vec![Tm::N(9)])), // woffMetadataLicense
        i.woff_metadata_licensee.as_ref().map(|_| Tm::L(vec![Tm::N(9)])), // woffMetadataLicensee
        i.woff_metadata_trademark.as_ref().map(|_| Tm::L(vec![Tm::N(9)])), // woffMetadataTrademark
        i.woff_metadata_unique_id.as_ref().map(|_| Tm::L(vec![Tm::N(9)])), // woffMetadataUniqueID
        i.woff_metadata_vendor.as_ref().map(|_| Tm::L(vec![Tm::N(9)])), // woffMetadataVendor
        i.woff_minor_version.map(|v| Tm::L(vec![Tm::N(1), tm_i(v as i128)])), // woffMinorVersion
        i.x_height.map(|v| Tm::L(vec![Tm::N(0), tm_f64(v)])), // xHeight
        i.year.map(|v| Tm::L(vec![Tm::N(1), tm_i(v as i128)])), // year
    ]
}
