//! C05 / C01 / C04: the implementation side of the font-level checks (`lib/props/c05.py`,
//! `c01.py`, `c04.py`; also driven by `lib/fontio_selftest.py`).  Builds abstract fonts through
//! norad's public API, saves, loads and dumps them (`fontio.rs`), generates them (`fontio_gen.rs`).
//!
//!   harness c05 --out DIR --seed N [--count K] [--size 0|1|2] [--gen class,class|all]
//!       for k in 0..K: DIR/case_k/font.json (abstract input), built.json (dump of the built
//!       value), n.ufo (Font::save_with_options, options drawn per case -> options.json),
//!       loaded.json (dump of Font::load); *_error.txt where a step failed.
//!   harness c05 --out DIR --font FILE
//!       the same for the single abstract font stored in FILE (case_0).
//!   harness c05 --out DIR --fonts FILE
//!       the same for every font of the JSON array stored in FILE (case_0 ...).
//!   harness c05 --load DIR
//!       for every DIR/case_*/w.ufo: loaded.json = dump of Font::load (or load_error.txt).
//!   harness c05 --dump UFO --to FILE
//!       dump of Font::load(UFO) (or {"__load_error__": ...}).
//!   harness c05 --out DIR ... --two-opts
//!       additionally saves every font a second time with independently drawn options
//!       (n2.ufo, options2.json, loaded2.json).
//!   harness c05 --out DIR ... --varied
//!       the value is reached through a varied API history (temporary names + rename_layer /
//!       rename_glyph, decoy layers on the same directory stem, remove and re-create) instead of
//!       the straight build.
//!   harness c05 --resave DIR
//!       for every DIR/case_*/in.ufo: first.json = dump(Font::load(in.ufo)), r.ufo = Font::save of
//!       that font, second.json = dump(Font::load(r.ufo)); *_error.txt where a step failed
//!       (first_error.txt: the input does not load, which is not a failure of the property).
use crate::util::{catch, write_file, Args, Rng};
use norad::{Font, QuoteChar, WriteOptions};
use serde_json::{json, Value as J};
use std::path::{Path, PathBuf};

#[path = "fontio.rs"]
pub mod fontio;
#[path = "fontio_gen.rs"]
pub mod fontio_gen;

fn opt<'a>(a: &'a Args, name: &str) -> Option<&'a str> {
    a.extra.iter().position(|x| x == name).and_then(|i| a.extra.get(i + 1)).map(|s| s.as_str())
}

fn pretty(j: &J) -> String {
    serde_json::to_string_pretty(j).unwrap()
}

/// Reaches the abstract font `j` through a varied API history instead of the straight
/// `build_font`: some layers and glyphs are first created under temporary names and then renamed
/// (`rename_layer`, `rename_glyph`) to their final names, in random order; decoy layers whose names
/// map to the same directory stem are created and removed on the way; the last layer may be
/// removed and re-created.  The resulting value must dump as `j` (directories and file names apart).
fn build_font_varied(j: &J, rng: &mut Rng) -> Result<Font, String> {
    let mut tmp = j.clone();
    let mut layer_renames: Vec<(String, String)> = Vec::new(); // (temporary, final)
    let mut glyph_renames: Vec<(usize, String, String)> = Vec::new(); // (layer index, temporary, final)
    let mut n = 0u32;
    if let Some(ls) = tmp.get_mut("layers").and_then(|l| l.as_array_mut()) {
        for (i, l) in ls.iter_mut().enumerate() {
            if let Some(gs) = l.get_mut("glyphs").and_then(|g| g.as_array_mut()) {
                for g in gs.iter_mut() {
                    if rng.below(3) == 0 {
                        n += 1;
                        let fin = g["name"].as_str().unwrap_or("").to_string();
                        let t = format!("tmp.Glyph.{}", n);
                        g["name"] = J::String(t.clone());
                        glyph_renames.push((i, t, fin));
                    }
                }
            }
            if i > 0 && rng.below(3) != 0 {
                n += 1;
                let fin = l["name"].as_str().unwrap_or("").to_string();
                let t = format!("Tmp layer {}", n);
                l["name"] = J::String(t.clone());
                layer_renames.push((t, fin));
            }
        }
    }
    let mut font = fontio::build_font(&tmp)?;
    // glyph renames first (layers are still addressed by their temporary names)
    let lnames: Vec<String> = font.layers.iter().map(|l| l.name().to_string()).collect();
    for (i, t, fin) in glyph_renames {
        let layer = font.layers.get_mut(&lnames[i]).ok_or("layer vanished")?;
        layer.rename_glyph(&t, &fin, false).map_err(|e| format!("rename_glyph {:?} -> {:?}: {}", t, fin, e))?;
    }
    // layer renames in random order, with decoys on the same directory stem
    while !layer_renames.is_empty() {
        let k = rng.below(layer_renames.len() as u64) as usize;
        let (t, fin) = layer_renames.remove(k);
        let decoy: Option<String> = if rng.below(3) == 0 {
            let d: String = fin.chars().map(|c| if c == '/' { ':' } else if c.is_ascii_uppercase() { c.to_ascii_lowercase() } else { c }).collect::<String>();
            // '/' and ':' are both written '_', upper case X is written X_ : same stem ignoring case only for '/'
            if d != fin && font.layers.get(&d).is_none() && font.layers.new_layer(&d).is_ok() { Some(d) } else { None }
        } else {
            None
        };
        font.layers.rename_layer(&t, &fin, false).map_err(|e| format!("rename_layer {:?} -> {:?}: {}", t, fin, e))?;
        if let Some(d) = decoy {
            font.layers.remove(&d);
        }
    }
    // remove the last layer and create it again
    if font.layers.len() > 1 && rng.below(4) == 0 {
        let last = font.layers.iter().last().unwrap().name().to_string();
        if let Some(old) = font.layers.remove(&last) {
            let nl = font.layers.new_layer(&last).map_err(|e| format!("re-creating layer {:?}: {}", last, e))?;
            nl.color = old.color.clone();
            nl.lib = old.lib.clone();
            for g in old.iter() {
                nl.insert_glyph(g.clone());
            }
        }
    }
    Ok(font)
}

fn load_dump(ufo: &Path) -> Result<J, String> {
    match catch(|| Font::load(ufo)) {
        Err(p) => Err(format!("PANIC {}", p)),
        Ok(Err(e)) => Err(format!("{:?}", e)),
        Ok(Ok(f)) => catch(|| fontio::dump_font(&f)).map_err(|p| format!("PANIC in dump {}", p)),
    }
}

pub fn main(a: &Args) {
    if let Some(ufo) = opt(a, "--dump") {
        let to = opt(a, "--to").expect("--to FILE");
        let j = match load_dump(Path::new(ufo)) {
            Ok(j) => j,
            Err(e) => json!({"__load_error__": e}),
        };
        write_file(Path::new(to), &pretty(&j));
        return;
    }
    if let Some(dir) = opt(a, "--load") {
        let mut cases: Vec<PathBuf> = std::fs::read_dir(dir)
            .expect("cannot list --load directory")
            .filter_map(|e| e.ok().map(|e| e.path()))
            .filter(|p| p.join("w.ufo").is_dir())
            .collect();
        cases.sort();
        for c in cases {
            let _ = std::fs::remove_file(c.join("loaded.json"));
            let _ = std::fs::remove_file(c.join("load_error.txt"));
            match load_dump(&c.join("w.ufo")) {
                Ok(j) => write_file(&c.join("loaded.json"), &pretty(&j)),
                Err(e) => write_file(&c.join("load_error.txt"), &e),
            }
        }
        return;
    }

    if let Some(dir) = opt(a, "--resave") {
        let mut cases: Vec<PathBuf> = std::fs::read_dir(dir)
            .expect("cannot list --resave directory")
            .filter_map(|e| e.ok().map(|e| e.path()))
            .filter(|p| p.join("in.ufo").is_dir())
            .collect();
        cases.sort();
        for c in cases {
            for f in ["first.json", "second.json", "first_error.txt", "save_error.txt", "second_error.txt"] {
                let _ = std::fs::remove_file(c.join(f));
            }
            let _ = std::fs::remove_dir_all(c.join("r.ufo"));
            let font = match catch(|| Font::load(c.join("in.ufo"))) {
                Err(p) => {
                    write_file(&c.join("first_error.txt"), &format!("PANIC {}", p));
                    continue;
                }
                Ok(Err(e)) => {
                    write_file(&c.join("first_error.txt"), &format!("{:?}", e));
                    continue;
                }
                Ok(Ok(f)) => f,
            };
            match catch(|| fontio::dump_font(&font)) {
                Ok(j) => write_file(&c.join("first.json"), &pretty(&j)),
                Err(p) => {
                    write_file(&c.join("first_error.txt"), &format!("PANIC in dump {}", p));
                    continue;
                }
            }
            match catch(|| font.save(c.join("r.ufo"))) {
                Err(p) => write_file(&c.join("save_error.txt"), &format!("PANIC {}", p)),
                Ok(Err(e)) => write_file(&c.join("save_error.txt"), &format!("{:?}", e)),
                Ok(Ok(())) => match load_dump(&c.join("r.ufo")) {
                    Ok(j) => write_file(&c.join("second.json"), &pretty(&j)),
                    Err(e) => write_file(&c.join("second_error.txt"), &e),
                },
            }
        }
        return;
    }

    let two_opts = a.extra.iter().any(|x| x == "--two-opts");
    let varied = a.extra.iter().any(|x| x == "--varied");
    let given: Option<J> = opt(a, "--font").map(|f| {
        serde_json::from_str(&std::fs::read_to_string(f).expect("cannot read --font file")).expect("--font file is not JSON")
    });
    // --fonts FILE: a JSON array of abstract fonts, one case each
    let given_many: Option<Vec<J>> = opt(a, "--fonts").map(|f| {
        let j: J = serde_json::from_str(&std::fs::read_to_string(f).expect("cannot read --fonts file")).expect("--fonts file is not JSON");
        j.as_array().expect("--fonts file must hold an array").clone()
    });
    let count: u64 = if let Some(v) = &given_many { v.len() as u64 } else if given.is_some() { 1 } else { opt(a, "--count").and_then(|s| s.parse().ok()).unwrap_or(if a.thorough() { 2000 } else { 200 }) };
    let fixed_size: Option<u32> = opt(a, "--size").and_then(|s| s.parse().ok());
    let classes: Vec<String> = opt(a, "--gen").map(|s| s.split(',').map(|x| x.to_string()).collect()).unwrap_or_default();
    let gopts = fontio_gen::GenOpts::from_names(&classes);
    std::fs::create_dir_all(&a.out).unwrap();
    let mut master = Rng::new(a.seed);
    let mut summary = Vec::new();
    for k in 0..count {
        let mut rng = master.fork();
        let dir = a.out.join(format!("case_{}", k));
        std::fs::create_dir_all(&dir).unwrap();
        let size = fixed_size.unwrap_or_else(|| rng.below(3) as u32);
        let font_json = match (&given_many, &given) {
            (Some(v), _) => v[k as usize].clone(),
            (None, Some(j)) => j.clone(),
            (None, None) => fontio_gen::gen_font_with(&mut rng, size, &gopts),
        };
        write_file(&dir.join("font.json"), &pretty(&font_json));
        let (ic, iw, q) = (rng.below(2), rng.below(9), rng.below(2));
        let default_opts = rng.below(3) == 0;
        let (ic2, iw2, q2) = (rng.below(2), rng.below(9), rng.below(2));
        // --options / --options2 JSON: fixed write options (replay)
        let fixed = |name: &str| -> Option<(bool, u64, u64, u64)> {
            opt(a, name).and_then(|t| serde_json::from_str::<J>(t).ok()).map(|j| {
                (
                    j["default"].as_bool().unwrap_or(false),
                    if j["indent_char"].as_str() == Some("space") { 1 } else { 0 },
                    j["indent_width"].as_u64().unwrap_or(1),
                    if j["single_quote"].as_bool().unwrap_or(false) { 1 } else { 0 },
                )
            })
        };
        let (default_opts, ic, iw, q) = fixed("--options").unwrap_or((default_opts, ic, iw, q));
        let (default2, ic2, iw2, q2) = fixed("--options2").unwrap_or((false, ic2, iw2, q2));
        let mk = |dflt: bool, ic: u64, iw: u64, q: u64| -> (WriteOptions, J) {
            let mut wo = WriteOptions::default();
            if !dflt {
                wo = wo.indent(if ic == 0 { WriteOptions::TAB } else { WriteOptions::SPACE }, iw as usize);
                if q == 1 {
                    wo = wo.quote_char(QuoteChar::Single);
                }
            }
            (wo, json!({"default": dflt, "indent_char": if ic == 0 { "tab" } else { "space" }, "indent_width": iw, "single_quote": q == 1}))
        };
        let mut status = "ok";
        let mut hist_rng = rng.fork();
        let built = match catch(|| if varied { build_font_varied(&font_json, &mut hist_rng) } else { fontio::build_font(&font_json) }) {
            Err(p) => Err(format!("PANIC {}", p)),
            Ok(r) => r,
        };
        match built {
            Err(e) => {
                write_file(&dir.join("build_error.txt"), &e);
                status = "build_error";
            }
            Ok(font) => {
                write_file(&dir.join("built.json"), &pretty(&fontio::dump_font(&font)));
                // the default (one tab) in a third of the cases, otherwise char x width 0..8
                let (wo, oj) = mk(default_opts, ic, iw, q);
                write_file(&dir.join("options.json"), &pretty(&oj));
                if two_opts {
                    let (wo2, oj2) = mk(default2, ic2, iw2, q2);
                    write_file(&dir.join("options2.json"), &pretty(&oj2));
                    let ufo2 = dir.join("n2.ufo");
                    match catch(|| font.save_with_options(&ufo2, &wo2)) {
                        Err(p) => write_file(&dir.join("save2_error.txt"), &format!("PANIC {}", p)),
                        Ok(Err(e)) => write_file(&dir.join("save2_error.txt"), &format!("{:?}", e)),
                        Ok(Ok(())) => match load_dump(&ufo2) {
                            Ok(j) => write_file(&dir.join("loaded2.json"), &pretty(&j)),
                            Err(e) => write_file(&dir.join("load2_error.txt"), &e),
                        },
                    }
                }
                let ufo = dir.join("n.ufo");
                match catch(|| font.save_with_options(&ufo, &wo)) {
                    Err(p) => {
                        write_file(&dir.join("save_error.txt"), &format!("PANIC {}", p));
                        status = "save_error";
                    }
                    Ok(Err(e)) => {
                        write_file(&dir.join("save_error.txt"), &format!("{:?}", e));
                        status = "save_error";
                    }
                    Ok(Ok(())) => match load_dump(&ufo) {
                        Ok(j) => write_file(&dir.join("loaded.json"), &pretty(&j)),
                        Err(e) => {
                            write_file(&dir.join("load_error.txt"), &e);
                            status = "load_error";
                        }
                    },
                }
            }
        }
        summary.push(json!({"case": k, "size": size, "status": status}));
    }
    write_file(&a.out.join("summary.json"), &pretty(&json!({"seed": a.seed, "count": count, "classes": classes, "cases": summary})));
}
