//! C19: not implemented yet.
use crate::util::Args;
pub fn main(_a: &Args) {
    eprintln!("c19: not implemented");
    std::process::exit(2);
}
