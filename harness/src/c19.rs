//! C19: parallel (feature `rayon`) loading and saving vs the sequential build.
//!
//! The same source is compiled twice (with / without `--features rayon`, which forwards to
//! `norad/rayon`).  Sub-modes (first extra argument):
//!   gen    write generated UFOs into <out>/ufos/<k>/ plus a sidecar <k>.json (name table for the
//!          model-form dump, post-load operations, generator parameters, classes) and, for the
//!          UFOs small enough for the Coq model, <k>.case (the Gallina input term)
//!   run    <tag> <reps> : for every UFO under <out>/ufos: `Font::load` + canonical dump, then
//!          `Font::save` + listing of the written tree (paths, lengths, hashes), <reps> times;
//!          the first result goes to <out>/res/<tag>/<k>.txt, every repetition that differs
//!          from it to <k>.rep<r>.txt; summary.json says how many differed
//! The driver compares the files of the rayon binary (under several RAYON_NUM_THREADS) with the
//! sequential binary's, and the model-form part (line `TM`) with the Coq model's prediction.
use crate::util::*;
use norad::Font;
use std::collections::HashMap;
use std::fmt::Write as _;
use std::path::{Path, PathBuf};

// ------------------------------------------------------------------ generator
#[derive(Clone)]
struct GlyphSpec {
    key: String,
    file: String,
    inner: String,
    bases: Vec<String>,
    id: u64,          // unique per file: written as advance width, the "payload"
    broken: u8,       // 0 = fine
    dup_of: Option<usize>, // shares the file of glyph #i of the same layer (refused at load since afd801a)
}
struct LayerSpec {
    name: String,
    dir: String,
    glyphs: Vec<GlyphSpec>,
    color: bool,
    lib: bool,
}
struct UfoSpec {
    layers: Vec<LayerSpec>,
    poison: Vec<(usize, usize)>, // (layer, glyph): gets a public.objectLibs lib key after load
    params: String,
    gk: Option<(Vec<(String, Vec<String>)>, Vec<(String, String, i64)>)>, // explicit groups / kerning (family fonts)
    saves: Vec<&'static str>, // further save steps in the same process, see `extra_saves`
    script: Vec<String>, // JSON arrays: edits applied through the public API after loading, before saving
    legacy: bool, // formatVersion 2 with kerning groups named like glyphs / component bases
}

fn xml_esc(s: &str) -> String {
    let mut o = String::new();
    for c in s.chars() {
        match c {
            '&' => o.push_str("&amp;"),
            '<' => o.push_str("&lt;"),
            '>' => o.push_str("&gt;"),
            '"' => o.push_str("&quot;"),
            '\'' => o.push_str("&apos;"),
            c => o.push(c),
        }
    }
    o
}

const ALPHA: [&str; 6] = [
    "abcdefghijklmnopqrstuvwxyz",
    "ABCDEFGHIJKLMNOPQRSTUVWXYZ",
    "0123456789._-",
    "äéßøñçğžœ",
    "αβγδλπωЖдя",
    "あア漢字한글",
];

/// a pool of distinct glyph names: many share prefixes / differ only in case or in one trailing
/// character, some are long, some need XML escaping, some are outside the BMP
fn name_pool(rng: &mut Rng, n: usize) -> Vec<String> {
    let mut seen: HashMap<String, ()> = HashMap::new();
    let mut out: Vec<String> = vec![];
    let specials = [
        ".notdef", "space", "a", "A", "a.alt", "a_b", "aa", "B", "b", "A.sc", "a.", "Aacute", "a b",
        "f_f_i", "uni0041", "Ä", "ä", "x&y", "p<q", "it's", "\u{1F600}", "\u{10000}a", "zzzz", "_", "-",
    ];
    let mut tries = 0;
    while out.len() < n && tries < n * 50 + 100 {
        tries += 1;
        let cand = if out.len() < specials.len() && rng.chance(2, 3) {
            specials[out.len()].to_string()
        } else if !out.is_empty() && rng.chance(1, 3) {
            // derive from an existing name
            let b = out[rng.below(out.len() as u64) as usize].clone();
            match rng.below(5) {
                0 => format!("{}.alt", b),
                1 => format!("{}{}", b, rng.below(10)),
                2 => b.to_uppercase(),
                3 => format!("{}_{}", b, b),
                _ => {
                    let mut t = b.clone();
                    t.pop();
                    t
                }
            }
        } else {
            let len = if rng.chance(1, 40) { rng.range(60, 200) } else { rng.range(1, 12) } as usize;
            let a: Vec<char> = ALPHA[if rng.chance(3, 4) { rng.below(3) } else { rng.below(6) } as usize].chars().collect();
            (0..len).map(|_| *rng.pick(&a)).collect()
        };
        if cand.is_empty() || cand.chars().count() > 240 {
            continue;
        }
        if seen.insert(cand.clone(), ()).is_none() {
            out.push(cand);
        }
    }
    let mut i = 0;
    while out.len() < n {
        let c = format!("glyph{:05}", i);
        i += 1;
        if seen.insert(c.clone(), ()).is_none() {
            out.push(c);
        }
    }
    out
}

struct Shape {
    layers: usize,
    names: usize,
    density: u64,   // percent of the names present in a non-default layer
    comp_pool: usize,
    max_comps: u64,
    broken: usize,
    dups: usize,
    poison: usize,
    stale: u64,     // percent of glifs whose inner name differs from the key
    cold_base: bool, // every glyph references one and the same not-yet-interned base first
    legacy: bool,
}

fn gen_ufo(rng: &mut Rng, sh: &Shape) -> UfoSpec {
    let pool = name_pool(rng, sh.names);
    // component bases: a small sub-pool (heavy reuse) plus a few names of no glyph at all
    let mut cpool: Vec<String> = (0..sh.comp_pool).map(|_| rng.pick(&pool).clone()).collect();
    cpool.push("no.such.glyph".to_string());
    if sh.legacy {
        // names that reach the interner only as component bases
        for k in 0..30 {
            cpool.push(format!("only.base.{}", k));
        }
    }
    if sh.cold_base {
        cpool.push("cold.base".to_string());
    }
    let mut layers = vec![];
    let mut id = 1u64;
    let nlayers = if sh.legacy { 1 } else { sh.layers };
    for li in 0..nlayers {
        let (lname, dir) = if li == 0 {
            (if rng.chance(1, 4) { "foreground".to_string() } else { "public.default".to_string() }, "glyphs".to_string())
        } else {
            let nm = match rng.below(4) {
                0 => format!("layer{}", li),
                1 => format!("Layer {}", li),
                2 => format!("слой{}", li),
                _ => pool[rng.below(pool.len() as u64) as usize].clone() + &format!("#{}", li),
            };
            (nm, format!("glyphs.l{}", li))
        };
        let mut glyphs: Vec<GlyphSpec> = vec![];
        for (ni, n) in pool.iter().enumerate() {
            let present = if li == 0 { rng.chance(95, 100) } else { rng.chance(sh.density, 100) };
            if !present {
                continue;
            }
            let mut bases = vec![];
            if sh.cold_base {
                bases.push("cold.base".to_string());
            }
            let nc = if sh.max_comps == 0 { 0 } else if rng.chance(1, 3) { 0 } else { rng.below(sh.max_comps + 1) };
            for _ in 0..nc {
                bases.push(rng.pick(&cpool).clone());
            }
            let inner = if rng.chance(sh.stale, 100) { rng.pick(&pool).clone() } else { n.clone() };
            let file = match rng.below(3) {
                0 => format!("g{}.glif", ni),
                1 => format!("G_{}_.glif", ni),
                _ => format!("{:04}x.glif", ni),
            };
            glyphs.push(GlyphSpec { key: n.clone(), file, inner, bases, id, broken: 0, dup_of: None });
            id += 1;
        }
        layers.push(LayerSpec { name: lname, dir, glyphs, color: rng.chance(1, 3), lib: rng.chance(1, 3) });
    }
    // broken glifs
    for _ in 0..sh.broken {
        let li = rng.below(layers.len() as u64) as usize;
        if layers[li].glyphs.is_empty() {
            continue;
        }
        let gi = rng.below(layers[li].glyphs.len() as u64) as usize;
        layers[li].glyphs[gi].broken = rng.range(1, 9) as u8;
        if layers[li].glyphs[gi].broken == 9 {
            // a contents value that is not a plain file name: refused before any glif is read
            let f = layers[li].glyphs[gi].file.clone();
            layers[li].glyphs[gi].file = match rng.below(4) {
                0 => format!("sub/{}", f),
                1 => format!("../{}", f),
                2 => format!("./{}", f),
                _ => format!("/{}", f),
            };
        }
    }
    // two names, one file
    for _ in 0..sh.dups {
        let li = rng.below(layers.len() as u64) as usize;
        let n = layers[li].glyphs.len();
        if n < 2 {
            continue;
        }
        let a = rng.below(n as u64) as usize;
        let b = rng.below(n as u64) as usize;
        if a == b || layers[li].glyphs[a].dup_of.is_some() || layers[li].glyphs[b].dup_of.is_some() {
            continue;
        }
        if layers[li].glyphs.iter().any(|g| g.dup_of == Some(a) || g.dup_of == Some(b)) {
            continue;
        }
        let f = layers[li].glyphs[a].file.clone();
        if rng.chance(1, 2) {
            // the same file
            layers[li].glyphs[b].dup_of = Some(a);
            layers[li].glyphs[b].file = f;
        } else {
            // a file of its own whose name differs from the other one in case only (ASCII):
            // refused as well since f6784f0
            let swapped: String = f
                .chars()
                .map(|c| if c.is_ascii_lowercase() { c.to_ascii_uppercase() } else { c.to_ascii_lowercase() })
                .collect();
            layers[li].glyphs[b].file = if rng.chance(1, 2) { swapped } else { f.to_ascii_uppercase() };
        }
    }
    let mut poison = vec![];
    for _ in 0..sh.poison {
        let li = rng.below(layers.len() as u64) as usize;
        if layers[li].glyphs.is_empty() {
            continue;
        }
        poison.push((li, rng.below(layers[li].glyphs.len() as u64) as usize));
    }
    let params = format!(
        "layers={} names={} density={} comp_pool={} max_comps={} broken={} dups={} poison={} stale={} cold_base={} legacy={}",
        sh.layers, sh.names, sh.density, sh.comp_pool, sh.max_comps, sh.broken, sh.dups, sh.poison, sh.stale, sh.cold_base, sh.legacy
    );
    UfoSpec { layers, poison, params, gk: None, saves: vec![], script: vec![], legacy: sh.legacy }
}

/// A small edit script through the public container API, the same for both builds: insert_glyph,
/// remove_glyph, rename_glyph, get_glyph_mut edits, and the raw map entry (`Layer::entry`):
/// `or_insert` of names sorting at the beginning / in the middle / at the end of the layer (such
/// a glyph has no file name and is skipped by save), `and_modify` of an existing glyph, and
/// rarely an `Occupied::remove` (save then panics, in both builds).
fn gen_script(rng: &mut Rng, u: &UfoSpec) -> Vec<String> {
    let mut ops = vec![];
    let nlayers = if u.legacy { 1 } else { u.layers.len() };
    let n = rng.range(3, 9);
    for i in 0..n {
        let li = rng.below(nlayers as u64) as usize;
        let mut keys: Vec<&String> = u.layers[li].glyphs.iter().map(|g| &g.key).collect();
        keys.sort_by(|a, b| a.as_bytes().cmp(b.as_bytes()));
        if keys.is_empty() {
            ops.push(format!("[\"insert\",{},{},{}]", li, jstr(&format!("new{}", i)), 7000 + i));
            continue;
        }
        let some = |rng: &mut Rng| keys[rng.below(keys.len() as u64) as usize].clone();
        let kind = if i == 0 { 3 } else { rng.below(10) };
        match kind {
            0 => ops.push(format!("[\"insert\",{},{},{}]", li, jstr(&format!("{}.new{}", some(rng), i)), 7000 + i)),
            1 => ops.push(format!("[\"insert\",{},{},{}]", li, jstr(&some(rng)), 7100 + i)),
            2 => ops.push(format!("[\"remove\",{},{}]", li, jstr(&some(rng)))),
            3 | 4 | 5 => {
                // raw entry, vacant: a name before all keys / after the middle key / after all keys
                let name = match (kind + rng.below(3)) % 3 {
                    0 => format!("!first{}", i),
                    1 => format!("{}!mid{}", keys[keys.len() / 2], i),
                    _ => format!("{}~last{}", keys[keys.len() - 1], i),
                };
                ops.push(format!("[\"entry_insert\",{},{},{}]", li, jstr(&name), 7200 + i));
            }
            6 => ops.push(format!("[\"entry_modify\",{},{},{}]", li, jstr(&some(rng)), rng.range(1, 9))),
            7 => ops.push(format!("[\"edit\",{},{},{}]", li, jstr(&some(rng)), rng.range(1, 9))),
            8 => {
                let (a, b) = (some(rng), if rng.chance(1, 2) { some(rng) } else { format!("renamed{}", i) });
                ops.push(format!("[\"rename\",{},{},{},{}]", li, jstr(&a), jstr(&b), rng.chance(1, 2)));
            }
            _ => {
                if rng.chance(1, 4) {
                    ops.push(format!("[\"entry_remove\",{},{}]", li, jstr(&some(rng))));
                } else {
                    ops.push(format!("[\"remove\",{},{}]", li, jstr(&format!("absent{}", i))));
                }
            }
        }
    }
    ops
}

fn glif_text(rng: &mut Rng, g: &GlyphSpec) -> String {
    let mut s = String::from("<?xml version=\"1.0\" encoding=\"UTF-8\"?>\n");
    let fmt = if g.broken == 6 { "7" } else { "2" };
    // legal surface variation: attribute order, quote character, optional formatMinor
    let q = if rng.chance(1, 4) { '\'' } else { '"' };
    let minor = if rng.chance(1, 5) && g.broken != 6 { format!(" formatMinor={}0{}", q, q) } else { String::new() };
    if rng.chance(1, 2) {
        let _ = writeln!(s, "<glyph name={}{}{} format={}{}{}{}>", q, xml_esc(&g.inner), q, q, fmt, q, minor);
    } else {
        let _ = writeln!(s, "<glyph format={}{}{}{} name={}{}{}>", q, fmt, q, minor, q, xml_esc(&g.inner), q);
    }
    if g.broken == 2 {
        s.push_str("  <advance width=\"abc\"/>\n");
    } else {
        let _ = writeln!(s, "  <advance width=\"{}\" height=\"{}\"/>", g.id, rng.below(3) * 500);
    }
    for _ in 0..rng.below(3) {
        let _ = writeln!(s, "  <unicode hex=\"{:04X}\"/>", 0x41 + rng.below(0x3000));
    }
    let mut ident = 0;
    let mut next_id = |rng: &mut Rng| -> String {
        ident += 1;
        if rng.chance(1, 2) { format!(" identifier=\"i{}\"", ident) } else { String::new() }
    };
    if rng.chance(1, 5) {
        let _ = writeln!(s, "  <guideline x=\"{}\" name=\"gl\"{}/>", rng.range(-100, 900), next_id(rng));
    }
    if g.broken == 3 {
        s.push_str("  <foo/>\n");
    }
    for k in 0..rng.below(3) {
        let _ = writeln!(s, "  <anchor x=\"{}\" y=\"{}.5\" name=\"top{}\"{}/>", rng.range(-50, 700), rng.range(0, 800), k, next_id(rng));
    }
    s.push_str("  <outline>\n");
    for _ in 0..rng.below(3) {
        let _ = writeln!(s, "    <contour{}>", next_id(rng));
        let open = rng.chance(1, 5);
        let n = rng.range(2, 6);
        for k in 0..n {
            let typ = if k == 0 && open { "move" } else { "line" };
            let _ = writeln!(s, "      <point x=\"{}\" y=\"{}\" type=\"{}\"{}/>", rng.range(-200, 1200), rng.range(-300, 1000), typ,
                if rng.chance(1, 6) { " smooth=\"yes\"" } else { "" });
        }
        if rng.chance(1, 3) {
            let _ = writeln!(s, "      <point x=\"{}\" y=\"1\"/>\n      <point x=\"2\" y=\"{}\"/>\n      <point x=\"3\" y=\"4\" type=\"curve\"/>", rng.range(0, 99), rng.range(0, 99));
        }
        if g.broken == 5 {
            // an open contour ending in an off-curve point
            s.push_str("    </contour>\n    <contour>\n      <point x=\"0\" y=\"0\" type=\"move\"/>\n      <point x=\"5\" y=\"5\"/>\n");
        }
        s.push_str("    </contour>\n");
    }
    if g.broken == 5 {
        s.push_str("    <contour>\n      <point x=\"0\" y=\"0\" type=\"move\"/>\n      <point x=\"5\" y=\"5\"/>\n    </contour>\n");
    }
    for (k, b) in g.bases.iter().enumerate() {
        let base_first = rng.chance(1, 2);
        s.push_str("    <component");
        if base_first {
            let _ = write!(s, " base=\"{}\"", xml_esc(b));
        }
        if rng.chance(1, 2) {
            let _ = write!(s, " xOffset=\"{}\" yOffset=\"{}\"", rng.range(-300, 300), k);
        }
        if rng.chance(1, 4) {
            let _ = write!(s, " xScale=\"0.5\" yScale=\"{}\"", rng.range(1, 3));
        }
        s.push_str(&next_id(rng));
        if !base_first {
            let _ = write!(s, " base='{}'", xml_esc(b));
        }
        s.push_str("/>\n");
    }
    if g.broken == 4 {
        s.push_str("    <component base=\"\"/>\n");
    }
    if g.broken == 7 {
        s.push_str("    <component base=\"a\" identifier=\"dupid\"/>\n    <component base=\"a\" identifier=\"dupid\"/>\n");
    }
    s.push_str("  </outline>\n");
    if rng.chance(1, 3) {
        let _ = writeln!(s, "  <lib>\n    <dict>\n      <key>com.verif.k</key>\n      <integer>{}</integer>\n      <key>b</key>\n      <string>v{}</string>\n    </dict>\n  </lib>", g.id, rng.below(100));
    }
    if rng.chance(1, 5) {
        let _ = writeln!(s, "  <note>note {}</note>", g.id);
    }
    s.push_str("</glyph>\n");
    if g.broken == 1 {
        let cut = s.len() / 2;
        let mut c = cut;
        while !s.is_char_boundary(c) {
            c -= 1;
        }
        s.truncate(c);
    }
    s
}

const PLIST_HEAD: &str = "<?xml version=\"1.0\" encoding=\"UTF-8\"?>\n<!DOCTYPE plist PUBLIC \"-//Apple//DTD PLIST 1.0//EN\" \"http://www.apple.com/DTDs/PropertyList-1.0.dtd\">\n<plist version=\"1.0\">\n";

fn write_ufo(rng: &mut Rng, u: &UfoSpec, dir: &Path) {
    std::fs::create_dir_all(dir).unwrap();
    let ver = if u.legacy { 2 } else { 3 };
    write_file(&dir.join("metainfo.plist"), &format!("{}<dict>\n<key>creator</key>\n<string>org.verif.c19</string>\n<key>formatVersion</key>\n<integer>{}</integer>\n</dict>\n</plist>\n", PLIST_HEAD, ver));
    write_file(&dir.join("fontinfo.plist"), &format!("{}<dict>\n<key>familyName</key>\n<string>C19 &amp; co</string>\n<key>unitsPerEm</key>\n<integer>1000</integer>\n<key>ascender</key>\n<real>750.5</real>\n</dict>\n</plist>\n", PLIST_HEAD));
    write_file(&dir.join("lib.plist"), &format!("{}<dict>\n<key>com.verif.seed</key>\n<integer>{}</integer>\n</dict>\n</plist>\n", PLIST_HEAD, rng.below(1000)));
    // groups / kerning: in legacy UFOs, group names that coincide with glyph names, glif-internal
    // names and component bases (since 090c163 upconversion asks a set built from the loaded glyph
    // names, no longer the interner; the result must still be the same in both builds)
    let all: Vec<&GlyphSpec> = u.layers.iter().flat_map(|l| l.glyphs.iter()).collect();
    // group members: pairwise different glyph names (a glyph may sit in one kern1 group only)
    let mut distinct: Vec<String> = vec![];
    for g in &all {
        if !distinct.contains(&g.key) && distinct.len() < 300 {
            distinct.push(g.key.clone());
        }
    }
    if let Some((groups, kerning)) = &u.gk {
        let mut gs = String::new();
        for (g, members) in groups {
            let _ = writeln!(gs, "<key>{}</key>\n<array>", xml_esc(g));
            for m in members {
                let _ = writeln!(gs, "<string>{}</string>", xml_esc(m));
            }
            gs.push_str("</array>\n");
        }
        // kerning: first -> {second: value}; pairs with the same first are merged
        let mut firsts: Vec<&String> = vec![];
        for (f, _, _) in kerning {
            if !firsts.contains(&f) {
                firsts.push(f);
            }
        }
        let mut ks = String::new();
        for f in firsts {
            let _ = writeln!(ks, "<key>{}</key>\n<dict>", xml_esc(f));
            for (f2, sec, v) in kerning {
                if f2 == f {
                    let _ = writeln!(ks, "<key>{}</key>\n<integer>{}</integer>", xml_esc(sec), v);
                }
            }
            ks.push_str("</dict>\n");
        }
        write_file(&dir.join("groups.plist"), &format!("{}<dict>\n{}</dict>\n</plist>\n", PLIST_HEAD, gs));
        write_file(&dir.join("kerning.plist"), &format!("{}<dict>\n{}</dict>\n</plist>\n", PLIST_HEAD, ks));
    } else if !all.is_empty() {
        let mut gs = String::new();
        let mut ks = String::new();
        let mut used: HashMap<String, ()> = HashMap::new();
        let mut firsts = vec![];
        if u.legacy {
            // one group per name the interner should hold after loading (keys, glif-internal names,
            // component bases) plus a few it should not hold: whether upconversion renames the
            // group tells whether the name is in the interner
            let mut names: Vec<String> = vec![];
            for g in &all {
                for n in std::iter::once(&g.key).chain(std::iter::once(&g.inner)).chain(g.bases.iter()) {
                    if used.insert(n.clone(), ()).is_none() && names.len() < 250 {
                        names.push(n.clone());
                    }
                }
            }
            for k in 0..5 {
                names.push(format!("@grp{}", k));
            }
            // one member each, pairwise different (upconverted kern groups must not overlap)
            names.truncate(distinct.len());
            for (k, gname) in names.iter().enumerate() {
                let _ = writeln!(gs, "<key>{}</key>\n<array>\n<string>{}</string>\n</array>", xml_esc(gname), xml_esc(&distinct[k]));
                firsts.push(gname.clone());
            }
        } else {
            for k in 0..3usize.min(distinct.len()) {
                let gname = format!("public.kern1.g{}", k);
                let _ = writeln!(gs, "<key>{}</key>\n<array>\n<string>{}</string>\n</array>", xml_esc(&gname), xml_esc(&distinct[k]));
                firsts.push(gname);
            }
        }
        for (k, f) in firsts.iter().enumerate() {
            let other = &all[rng.below(all.len() as u64) as usize].key;
            if u.legacy && k % 2 == 1 {
                // the group on the second side
                let _ = writeln!(ks, "<key>{}</key>\n<dict>\n<key>{}</key>\n<integer>{}</integer>\n</dict>", xml_esc(&format!("k1st{}", k)), xml_esc(f), rng.range(-80, 80));
            } else {
                let _ = writeln!(ks, "<key>{}</key>\n<dict>\n<key>{}</key>\n<integer>{}</integer>\n</dict>", xml_esc(f), xml_esc(other), rng.range(-80, 80));
            }
        }
        write_file(&dir.join("groups.plist"), &format!("{}<dict>\n{}</dict>\n</plist>\n", PLIST_HEAD, gs));
        write_file(&dir.join("kerning.plist"), &format!("{}<dict>\n{}</dict>\n</plist>\n", PLIST_HEAD, ks));
    }
    if !u.legacy {
        let mut lc = String::new();
        for l in &u.layers {
            let _ = writeln!(lc, "<array>\n<string>{}</string>\n<string>{}</string>\n</array>", xml_esc(&l.name), xml_esc(&l.dir));
        }
        write_file(&dir.join("layercontents.plist"), &format!("{}<array>\n{}</array>\n</plist>\n", PLIST_HEAD, lc));
    }
    for l in &u.layers {
        let ld = dir.join(&l.dir);
        std::fs::create_dir_all(&ld).unwrap();
        // contents.plist in a shuffled order (the reader sorts)
        let mut order: Vec<usize> = (0..l.glyphs.len()).collect();
        for i in (1..order.len()).rev() {
            let j = rng.below(i as u64 + 1) as usize;
            order.swap(i, j);
        }
        let mut c = String::new();
        for &i in &order {
            let g = &l.glyphs[i];
            let _ = writeln!(c, "<key>{}</key>\n<string>{}</string>", xml_esc(&g.key), xml_esc(&g.file));
        }
        write_file(&ld.join("contents.plist"), &format!("{}<dict>\n{}</dict>\n</plist>\n", PLIST_HEAD, c));
        if !u.legacy && (l.color || l.lib) {
            let mut li = String::new();
            if l.color {
                li.push_str("<key>color</key>\n<string>1,0.75,0,0.7</string>\n");
            }
            if l.lib {
                li.push_str("<key>lib</key>\n<dict>\n<key>com.verif.layer</key>\n<string>x</string>\n</dict>\n");
            }
            write_file(&ld.join("layerinfo.plist"), &format!("{}<dict>\n{}</dict>\n</plist>\n", PLIST_HEAD, li));
        }
        for g in &l.glyphs {
            if g.dup_of.is_some() || g.broken == 8 || g.broken == 9 {
                continue; // shares another glyph's file / file missing
            }
            write_file(&ld.join(&g.file), &glif_text(rng, g));
        }
    }
}

fn jstr(s: &str) -> String {
    serde_json::to_string(s).unwrap()
}

/// Gallina input term of the Coq model: (table, layers, seed); names are indices into the table.
fn case_term(u: &UfoSpec, table: &[String], index: &HashMap<String, usize>, seed: u64) -> String {
    let ix = |s: &str| -> u64 { index[s] as u64 };
    let mut ls = vec![];
    for l in &u.layers {
        // tasks in the order of `contents` (a BTreeMap): sorted by key, bytewise
        let mut gl: Vec<&GlyphSpec> = l.glyphs.iter().collect();
        gl.sort_by(|a, b| a.key.as_bytes().cmp(b.key.as_bytes()));
        let mut ts = vec![];
        for g in gl {
            // what the file determines: for a dup-path entry the file of the other glyph
            let src = match g.dup_of {
                Some(i) => &l.glyphs[i],
                None => g,
            };
            let reqs: Vec<u64> = std::iter::once(ix(&src.inner)).chain(src.bases.iter().map(|b| ix(b))).collect();
            let out = if src.broken != 0 { "None".to_string() } else { format!("(Some {})", src.id) };
            let reqs = if src.broken != 0 { vec![] } else { reqs };
            // the file-name check of load_impl looks at the entry's own value
            let file = if g.broken == 9 { "None".to_string() } else { format!("(Some {})", g_str(&g.file)) };
            ts.push(format!("({},{},{},{})", ix(&g.key), file, g_nlist(reqs), out));
        }
        ls.push(format!("({},{})", ix(&l.name), g_list(&ts)));
    }
    let tb: Vec<String> = table.iter().map(|s| g_str(s)).collect();
    format!("({},{},{})", g_list(&tb), g_list(&ls), seed % 1_000_000_007)
}

fn shapes(rng: &mut Rng, thorough: bool) -> Vec<Shape> {
    let mut v = vec![];
    let mult = if thorough { 4 } else { 1 };
    // small ones (also run through the Coq model)
    for k in 0..(24 * mult) {
        v.push(Shape {
            layers: rng.range(1, 4) as usize,
            names: if k % 3 == 2 { rng.range(40, 120) as usize } else { rng.range(2, 40) as usize },
            density: rng.range(20, 100) as u64,
            comp_pool: rng.range(1, 5) as usize,
            max_comps: rng.range(0, 5) as u64,
            broken: if k % 4 == 3 { rng.range(1, 3) as usize } else { 0 },
            dups: 0,
            poison: if k % 8 == 5 { 1 } else { 0 },
            stale: if k % 2 == 0 { 30 } else { 3 },
            cold_base: k % 3 == 0,
            legacy: k % 8 == 6,
        });
    }
    // medium
    for k in 0..(8 * mult) {
        v.push(Shape {
            layers: rng.range(2, 5) as usize,
            names: rng.range(80, 300) as usize,
            density: rng.range(30, 100) as u64,
            comp_pool: rng.range(2, 8) as usize,
            max_comps: rng.range(1, 6) as u64,
            broken: if k % 4 == 2 { rng.range(1, 4) as usize } else { 0 },
            dups: 0,
            poison: if k % 8 == 7 { 2 } else { 0 },
            stale: 10,
            cold_base: k % 2 == 0,
            legacy: k % 4 == 1,
        });
    }
    // large
    for k in 0..(2 * mult) {
        v.push(Shape {
            layers: 4,
            names: 500 + 100 * (k % 3),
            density: 90,
            comp_pool: 6,
            max_comps: 6,
            broken: 0,
            dups: 0,
            poison: 0,
            stale: 5,
            cold_base: true,
            legacy: false,
        });
    }
    // two keys of `contents` naming one file: refused at load by both builds (regression for dup-glif-paths)
    for k in 0..(4 * mult) {
        v.push(Shape {
            layers: rng.range(1, 3) as usize,
            names: if k % 2 == 0 { rng.range(4, 30) as usize } else { rng.range(100, 300) as usize },
            density: 80,
            comp_pool: 3,
            max_comps: 3,
            broken: 0,
            dups: rng.range(1, 4) as usize,
            poison: 0,
            stale: 5,
            cold_base: false,
            legacy: false,
        });
    }
    v
}

/// A family of fonts over ONE name pool, for histories of several loads in one process: the same
/// glyph and group names occur in all of them, so anything that survived an earlier load (per
/// thread, per process) and is keyed by a name would show in a later one.
///   A1  UFO 2, glyphs = the lower half of the pool up to X (X is its last glyph), groups with
///       names of no glyph, kerning through them
///   A2  UFO 2, same glyphs, groups named like glyphs, kerning through them
///   B   UFO 2, NO glyphs (kerning-only source), one un-prefixed group per pool name, all used in kerning
///   C   UFO 2, glyphs = X and the upper half (X is its first glyph), groups named X and like another glyph
///   D   UFO 3, all pool names, v3 groups
fn gen_family(rng: &mut Rng, f: usize, first_id: u64) -> Vec<(&'static str, UfoSpec)> {
    let mut pool = name_pool(rng, 16 + 4 * (f % 3));
    pool.sort_by(|a, b| a.as_bytes().cmp(b.as_bytes()));
    let mid = pool.len() / 2;
    let x = pool[mid].clone();
    let mut id = first_id;
    let mut layer = |names: &[String], rng: &mut Rng| -> LayerSpec {
        let glyphs = names
            .iter()
            .enumerate()
            .map(|(i, n)| {
                id += 1;
                let bases = if rng.chance(1, 2) { vec![rng.pick(&pool).clone()] } else { vec![] };
                GlyphSpec { key: n.clone(), file: format!("f{}_{}.glif", i, id), inner: n.clone(), bases, id, broken: 0, dup_of: None }
            })
            .collect();
        LayerSpec { name: "public.default".into(), dir: "glyphs".into(), glyphs, color: false, lib: false }
    };
    let mk = |l: LayerSpec, legacy: bool, gk, what: &str| UfoSpec {
        layers: vec![l],
        poison: vec![],
        params: format!("family={} member={} pool={} X={:?}", f, what, pool.len(), x),
        gk: Some(gk),
        saves: vec![],
        script: vec![],
        legacy,
    };
    let lower: Vec<String> = pool[..=mid].to_vec();
    let upper: Vec<String> = pool[mid..].to_vec();
    let g_a1 = (
        vec![("@g1".to_string(), vec![lower[0].clone()]), ("@g2".to_string(), vec![x.clone()])],
        vec![("@g1".to_string(), lower[0].clone(), 10), ("@g2".to_string(), "@g1".to_string(), -20), (lower[0].clone(), "@g2".to_string(), 5)],
    );
    let g_a2 = (
        vec![(lower[1 % lower.len()].clone(), vec![lower[0].clone()]), (x.clone(), vec![x.clone()]), ("@g".to_string(), vec![lower[1 % lower.len()].clone()])],
        vec![(lower[1 % lower.len()].clone(), x.clone(), 11), (x.clone(), "@g".to_string(), -21), ("@g".to_string(), lower[0].clone(), 7)],
    );
    let mut bg = vec![];
    let mut bk = vec![];
    for (i, n) in pool.iter().enumerate() {
        bg.push((n.clone(), vec![format!("member{}", i)]));
        if i % 2 == 0 {
            bk.push((n.clone(), format!("member{}", (i + 1) % pool.len()), i as i64));
        } else {
            bk.push((format!("member{}", i), n.clone(), -(i as i64)));
        }
    }
    let g_c = (
        vec![(x.clone(), vec![upper[upper.len() - 1].clone()]), (upper[upper.len() - 1].clone(), vec![x.clone()]), ("@gc".to_string(), vec![upper[1 % upper.len()].clone()])],
        vec![(x.clone(), upper[upper.len() - 1].clone(), 3), (upper[upper.len() - 1].clone(), x.clone(), -3), ("@gc".to_string(), x.clone(), 9)],
    );
    let g_d = (
        vec![("public.kern1.a".to_string(), vec![pool[0].clone()]), ("public.kern2.b".to_string(), vec![x.clone()])],
        vec![("public.kern1.a".to_string(), "public.kern2.b".to_string(), 40), (x.clone(), pool[0].clone(), -4)],
    );
    let (la1, la2, lb, lc, ld) = (layer(&lower, rng), layer(&lower, rng), layer(&[], rng), layer(&upper, rng), layer(&pool, rng));
    vec![
        ("A1", mk(la1, true, g_a1, "A1")),
        ("A2", mk(la2, true, g_a2, "A2")),
        ("B", mk(lb, true, (bg, bk), "B")),
        ("C", mk(lc, true, g_c, "C")),
        ("D", mk(ld, false, g_d, "D")),
    ]
}

/// histories over one family (indices into A1 A2 B C D): 2-4 loads (each followed by a save) of
/// different fonts in one process
const HISTORIES: [&[usize]; 7] = [&[0, 2], &[1, 2], &[0, 3], &[2, 1, 2], &[4, 0, 2, 3], &[1, 4, 3, 2], &[3, 0, 3]];

fn gen(a: &Args) {
    let mut rng = Rng::new(a.seed ^ 0xC19);
    let root = a.out.join("ufos");
    std::fs::create_dir_all(&root).unwrap();
    let shapes = shapes(&mut rng, a.thorough());
    let mut index_lines = vec![];
    for (k, sh) in shapes.iter().enumerate() {
        let mut r = rng.fork();
        let mut u = gen_ufo(&mut r, sh);
        if k % 2 == 0 {
            u.script = gen_script(&mut r, &u);
        }
        // several saves in one process (the thread pool and anything kept per thread survive)
        if !u.poison.is_empty() {
            // the first save fails (objectLibs key); repair; the second must succeed
            u.saves = vec!["unpoison", "again"];
        } else if k % 3 == 0 {
            // a glyph whose glif path is too long under a very deep target: that save fails with an
            // I/O error in the middle of writing the glifs; the next save, elsewhere, must succeed
            u.script.push(format!("[\"insert\",0,{},{}]", jstr(&format!("{}{}", "q".repeat(120), k)), 7900));
            u.saves = vec!["deep", "again"];
        } else if k % 3 == 1 {
            u.saves = vec!["again", "again"];
        }
        let dir = root.join(format!("{:03}", k));
        write_ufo(&mut r, &u, &dir);
        write_sidecar(&u, &root, k, a.seed);
        let ng: usize = u.layers.iter().map(|l| l.glyphs.len()).sum();
        index_lines.push(format!(
            "{{\"k\":{},\"glyphs\":{},\"layers\":{},\"params\":{}}}",
            k, ng, u.layers.len(), jstr(&u.params)
        ));
    }
    // families for the cross-load histories
    let nfam = if a.thorough() { 8 } else { 3 };
    let mut k = shapes.len();
    let mut hist = vec![];
    for f in 0..nfam {
        let mut r = rng.fork();
        let fam = gen_family(&mut r, f, 100_000 + 1000 * f as u64);
        let base = k;
        for (_, u) in &fam {
            let dir = root.join(format!("{:03}", k));
            write_ufo(&mut r, u, &dir);
            write_sidecar(u, &root, k, a.seed);
            let ng: usize = u.layers.iter().map(|l| l.glyphs.len()).sum();
            index_lines.push(format!("{{\"k\":{},\"glyphs\":{},\"layers\":1,\"params\":{}}}", k, ng, jstr(&u.params)));
            k += 1;
        }
        for (hi, h) in HISTORIES.iter().enumerate() {
            let steps: Vec<String> = h.iter().map(|m| format!("\"{:03}\"", base + m)).collect();
            let members: Vec<String> = h.iter().map(|m| format!("\"{}\"", fam[*m].0)).collect();
            hist.push(format!(
                "{{\"id\":\"f{}h{}\",\"steps\":[{}],\"members\":[{}],\"thread\":\"{}\"}}",
                f, hi, steps.join(","), members.join(","), if (f + hi) % 2 == 0 { "main" } else { "spawned" }
            ));
        }
    }
    write_file(&a.out.join("hist.json"), &format!("[{}]", hist.join(",\n")));
    write_file(&a.out.join("gen.json"), &format!("[{}]", index_lines.join(",\n")));
}

fn read_side(root: &Path, k: &str) -> serde_json::Value {
    std::fs::read_to_string(root.join(format!("{}.json", k))).ok().and_then(|s| serde_json::from_str(&s).ok()).unwrap_or(serde_json::Value::Null)
}

/// the histories of hist.json: every step loads (and saves) another UFO, all in this process, on the
/// main thread or on one spawned thread; one result file per step
fn hist(a: &Args, tag: &str) {
    let root = a.out.join("ufos");
    let res = a.out.join("res").join(tag);
    std::fs::create_dir_all(&res).unwrap();
    let tmp = a.out.join("tmp").join(format!("{}_h", tag));
    std::fs::create_dir_all(&tmp).unwrap();
    let hs: serde_json::Value = std::fs::read_to_string(a.out.join("hist.json")).ok().and_then(|s| serde_json::from_str(&s).ok()).unwrap_or(serde_json::Value::Null);
    for h in hs.as_array().cloned().unwrap_or_default() {
        let id = h["id"].as_str().unwrap_or("h").to_string();
        let steps: Vec<String> = h["steps"].as_array().map(|s| s.iter().filter_map(|x| x.as_str().map(String::from)).collect()).unwrap_or_default();
        let (root2, res2, tmp2) = (root.clone(), res.clone(), tmp.clone());
        let work = move || {
            for (i, k) in steps.iter().enumerate() {
                let side = read_side(&root2, k);
                let o = observe(&root2.join(k), &side, &tmp2.join("save"));
                write_file(&res2.join(format!("hist_{}_{}_{}.txt", id, i, k)), &o);
            }
        };
        if h["thread"].as_str() == Some("spawned") {
            let _ = std::thread::spawn(work).join();
        } else {
            work();
        }
    }
    let _ = std::fs::remove_dir_all(&tmp);
}

/// one UFO, alone in this process
fn solo(a: &Args, tag: &str, k: &str) {
    let root = a.out.join("ufos");
    let res = a.out.join("res").join(tag);
    std::fs::create_dir_all(&res).unwrap();
    let tmp = a.out.join("tmp").join(format!("{}_solo_{}", tag, k));
    std::fs::create_dir_all(&tmp).unwrap();
    let o = observe(&root.join(k), &read_side(&root, k), &tmp.join("save"));
    write_file(&res.join(format!("solo_{}.txt", k)), &o);
    let _ = std::fs::remove_dir_all(&tmp);
}

fn write_sidecar(u: &UfoSpec, root: &Path, k: usize, seed: u64) {
    // name table: every string that may appear as a layer / glyph / component name
    let mut table: Vec<String> = vec![];
    let mut index: HashMap<String, usize> = HashMap::new();
    let mut add = |s: &str, table: &mut Vec<String>| {
        if !index.contains_key(s) {
            index.insert(s.to_string(), table.len());
            table.push(s.to_string());
        }
    };
    for l in &u.layers {
        add(&l.name, &mut table);
        for g in &l.glyphs {
            add(&g.key, &mut table);
            add(&g.inner, &mut table);
            for b in &g.bases {
                add(b, &mut table);
            }
        }
    }
    let mut poison = vec![];
    for (li, gi) in &u.poison {
        poison.push(format!("[{},{}]", jstr(&u.layers[*li].name), jstr(&u.layers[*li].glyphs[*gi].key)));
    }
    let tb: Vec<String> = table.iter().map(|s| jstr(s)).collect();
    let ng: usize = u.layers.iter().map(|l| l.glyphs.len()).sum();
    let nbroken: usize = u.layers.iter().map(|l| l.glyphs.iter().filter(|g| g.broken != 0).count()).sum();
    let ndup: usize = u.layers.iter().map(|l| l.glyphs.iter().filter(|g| g.dup_of.is_some()).count()).sum();
    write_file(
        &root.join(format!("{:03}.json", k)),
        &format!(
            "{{\"table\":[{}],\"poison\":[{}],\"script\":[{}],\"saves\":[{}],\"family\":{},\"params\":{},\"seed\":{},\"glyphs\":{},\"broken\":{},\"dup_entries\":{},\"legacy\":{}}}",
            tb.join(","), poison.join(","), u.script.join(","), u.saves.iter().map(|x| jstr(x)).collect::<Vec<_>>().join(","), u.gk.is_some(), jstr(&u.params), seed, ng, nbroken, ndup, u.legacy
        ),
    );
    let maxl = u.layers.iter().map(|l| l.glyphs.len()).max().unwrap_or(0);
    if maxl <= 130 && !u.legacy && u.gk.is_none() {
        write_file(&root.join(format!("{:03}.case", k)), &case_term(u, &table, &index, seed.wrapping_mul(1000).wrapping_add(k as u64)));
    }
}

// ------------------------------------------------------------------ running the implementation
fn fnv(data: &[u8]) -> u64 {
    let mut h: u64 = 0xcbf29ce484222325;
    for b in data {
        h ^= *b as u64;
        h = h.wrapping_mul(0x100000001b3);
    }
    h
}

fn walk(root: &Path, rel: &Path, out: &mut Vec<(String, u64, u64)>) {
    let mut ents: Vec<PathBuf> = match std::fs::read_dir(root.join(rel)) {
        Ok(rd) => rd.filter_map(|e| e.ok()).map(|e| e.path()).collect(),
        Err(_) => return,
    };
    ents.sort();
    for p in ents {
        let r = rel.join(p.file_name().unwrap());
        if p.is_dir() {
            out.push((format!("{}/", r.display()), 0, 0));
            walk(root, &r, out);
        } else {
            let data = std::fs::read(&p).unwrap_or_default();
            out.push((format!("{}", r.display()), data.len() as u64, fnv(&data)));
        }
    }
}

fn err_variant(dbg: &str) -> String {
    dbg.chars().take_while(|c| c.is_alphanumeric() || *c == '_').collect()
}

/// everything observable of one load + save of the UFO at `dir`
fn observe(dir: &Path, side: &serde_json::Value, save_to: &Path) -> String {
    let mut o = String::new();
    let index: HashMap<String, u64> = side["table"]
        .as_array()
        .map(|t| t.iter().enumerate().map(|(i, s)| (s.as_str().unwrap_or("").to_string(), i as u64)).collect())
        .unwrap_or_default();
    let ix = |s: &str| -> u64 { *index.get(s).unwrap_or(&999_999_999) };
    let loaded = catch(|| Font::load(dir));
    let mut font = match loaded {
        Err(p) => {
            let _ = writeln!(o, "LOAD panic\nERRINFO {}", p);
            return o;
        }
        Ok(Err(e)) => {
            let d = format!("{:?}", e);
            let _ = writeln!(o, "LOAD err\nTM L_ []\nERRINFO {} {}", err_variant(&d), d.replace('\n', " "));
            return o;
        }
        Ok(Ok(f)) => f,
    };
    o.push_str("LOAD ok\n");
    // model-form dump
    let mut lt = vec![];
    for l in font.layers.iter() {
        let mut gt = vec![];
        for g in l.iter() {
            let selfkey = match l.get_glyph(g.name()) {
                Some(h) if std::ptr::eq(h, g) => ix(g.name()),
                _ => 999_999_998,
            };
            let bases: Vec<Tm> = g.components.iter().map(|c| Tm::N(ix(&c.base))).collect();
            let payload = if g.width >= 0.0 && g.width < 1e15 { g.width as u64 } else { 999_999_997 };
            gt.push(Tm::L(vec![Tm::N(selfkey), Tm::N(ix(g.name())), Tm::L(bases), Tm::N(payload)]));
        }
        lt.push(Tm::L(vec![Tm::N(ix(l.name())), Tm::L(gt)]));
    }
    let _ = writeln!(o, "TM {}", Tm::L(vec![Tm::L(lt)]).to_string());
    // full dump
    let _ = writeln!(o, "META {:?}", font.meta);
    let _ = writeln!(o, "INFO {:?}", font.font_info);
    let _ = writeln!(o, "LIB {:?}", font.lib);
    let _ = writeln!(o, "GROUPS {:?}", font.groups);
    let _ = writeln!(o, "KERNING {:?}", font.kerning);
    let _ = writeln!(o, "FEATURES {:?}", font.features);
    for l in font.layers.iter() {
        let _ = writeln!(o, "LAYER {:?} {:?} {:?} {:?} n={}", l.name(), l.path(), l.color, l.lib, l.len());
        for g in l.iter() {
            let _ = writeln!(o, " G {:?}", g);
        }
    }
    // post-load operations: the edit script through the public API
    if let Some(ops) = side["script"].as_array() {
        for (i, op) in ops.iter().enumerate() {
            let r = catch(|| apply_op(&mut font, op));
            let _ = writeln!(o, "OP {} {} {}", i, op[0].as_str().unwrap_or("?"), r.unwrap_or_else(|_| "panic".into()));
        }
        if !ops.is_empty() {
            for l in font.layers.iter() {
                let mut h = String::new();
                for g in l.iter() {
                    let _ = write!(h, "{:?};", g);
                }
                let _ = writeln!(o, "POST {:?} n={} {:016x}", l.name(), l.len(), fnv(h.as_bytes()));
            }
        }
    }
    if let Some(ps) = side["poison"].as_array() {
        for p in ps {
            let (ln, gn) = (p[0].as_str().unwrap_or(""), p[1].as_str().unwrap_or(""));
            if let Some(l) = font.layers.get_mut(ln) {
                if let Some(g) = l.get_glyph_mut(gn) {
                    g.lib.insert("public.objectLibs".into(), plist::Value::Dictionary(Default::default()));
                }
            }
        }
    }
    let _ = std::fs::remove_dir_all(save_to);
    let _ = writeln!(o, "FAILSET {}", failset(&font, side, save_to.as_os_str().len()));
    match catch(|| font.save(save_to)) {
        Err(p) => {
            let _ = writeln!(o, "SAVE panic\nERRINFO {}", p);
        }
        Ok(Err(e)) => {
            let d = format!("{:?}", e);
            let _ = writeln!(o, "SAVE err\nERRINFO {} {}", err_variant(&d), d.replace('\n', " "));
        }
        Ok(Ok(())) => {
            o.push_str("SAVE ok\n");
            let mut t = vec![];
            walk(save_to, Path::new(""), &mut t);
            for (p, n, h) in t {
                let _ = writeln!(o, "TREE {} {:016x} {}", n, h, p);
            }
            // what the saved tree loads back as
            if side["script"].as_array().map(|a| !a.is_empty()).unwrap_or(false) {
                match catch(|| Font::load(save_to)) {
                    Err(_) => o.push_str("RELOAD panic\n"),
                    Ok(Err(e)) => {
                        let d = format!("{:?}", e);
                        let _ = writeln!(o, "RELOAD err\nERRINFO {}", err_variant(&d));
                    }
                    Ok(Ok(f2)) => {
                        o.push_str("RELOAD ok\n");
                        for l in f2.layers.iter() {
                            let _ = writeln!(o, "RLAYER {:?} {:?} n={}", l.name(), l.path(), l.len());
                            for g in l.iter() {
                                let _ = writeln!(o, " RG {:?} {:016x}", g.name(), fnv(format!("{:?}", g).as_bytes()));
                            }
                        }
                    }
                }
            }
        }
    }
    let _ = std::fs::remove_dir_all(save_to);
    extra_saves(&mut font, side, save_to, &mut o);
    o
}

/// a directory whose path is exactly `total` bytes long, below `base` (created)
fn deep_dir(base: &Path, total: usize) -> Option<PathBuf> {
    let mut p = base.to_path_buf();
    loop {
        let have = p.as_os_str().len();
        if have + 2 > total {
            return None;
        }
        let room = total - have - 1;
        if room <= 200 {
            p.push("d".repeat(room));
            break;
        }
        // leave at least 2 bytes for the last component
        let step = if room - 200 < 2 { 198 } else { 200 };
        p.push("d".repeat(step));
    }
    std::fs::create_dir_all(&p).ok()?;
    Some(p)
}

/// Which glif tasks of the coming save are going to fail, computed from the font state through the
/// public API (the class predicate of finding raw-entry-panic-vs-io-error): for the first layer, in
/// saving order, that has a failing task: how many tasks panic (a name in the file-name index whose
/// glyph was removed through the raw map entry: `get_path` is Some, `contains_glyph` is false) and
/// how many return an error (objectLibs key in the glyph lib; glif path longer than PATH_MAX under
/// a target of `target_len` bytes).  Layers are saved one after the other and the first failing layer
/// ends the save, so tasks of different kinds compete only inside that layer.
fn failset(font: &Font, side: &serde_json::Value, target_len: usize) -> String {
    let removed: Vec<(usize, String)> = side["script"]
        .as_array()
        .map(|ops| {
            ops.iter()
                .filter(|op| op[0].as_str() == Some("entry_remove"))
                .map(|op| (op[1].as_u64().unwrap_or(0) as usize, op[2].as_str().unwrap_or("").to_string()))
                .collect()
        })
        .unwrap_or_default();
    for (li, l) in font.layers.iter().enumerate() {
        let panics = removed.iter().filter(|(i, n)| *i == li && l.get_path(n).is_some() && !l.contains_glyph(n)).count();
        let dirlen = l.path().as_os_str().len();
        let mut errs = 0;
        for g in l.iter() {
            if let Some(p) = l.get_path(g.name()) {
                let too_long = target_len + 1 + dirlen + 1 + p.as_os_str().len() > 4095;
                if g.lib.contains_key("public.objectLibs") || too_long {
                    errs += 1;
                }
            }
        }
        if panics + errs > 0 {
            return format!("layer={} panics={} errs={}", li, panics, errs);
        }
    }
    "none".to_string()
}

/// further saves of the same font in the same process:
///   "unpoison"  remove the objectLibs keys that made the first save fail
///   "deep"      save below a directory so deep that the glif of a long-named glyph exceeds
///               PATH_MAX while contents.plist and the short glifs still fit (fails while the
///               glifs are being written)
///   "again"     save to another directory; tree and reloaded font are listed
fn extra_saves(font: &mut Font, side: &serde_json::Value, save_to: &Path, o: &mut String) {
    let steps: Vec<String> = side["saves"].as_array().map(|a| a.iter().filter_map(|x| x.as_str().map(String::from)).collect()).unwrap_or_default();
    for (i, st) in steps.iter().enumerate() {
        match st.as_str() {
            "unpoison" => {
                if let Some(ps) = side["poison"].as_array() {
                    for p in ps {
                        let (ln, gn) = (p[0].as_str().unwrap_or(""), p[1].as_str().unwrap_or(""));
                        if let Some(g) = font.layers.get_mut(ln).and_then(|l| l.get_glyph_mut(gn)) {
                            g.lib.remove("public.objectLibs");
                        }
                    }
                }
                let _ = writeln!(o, "STEP {} unpoison", i);
            }
            "deep" => {
                let top = save_to.with_file_name(format!("deep{}", i));
                let _ = std::fs::remove_dir_all(&top);
                let _ = std::fs::create_dir_all(&top);
                // 4040: <dir>/x.ufo/glyphs.lN/contents.plist fits into PATH_MAX, a 125-byte glif name does not
                match deep_dir(&top, 4040 - "/x.ufo".len()) {
                    None => {
                        let _ = writeln!(o, "STEP {} deep skipped", i);
                    }
                    Some(d) => {
                        let target = d.join("x.ufo");
                        let _ = writeln!(o, "FAILSET {}", failset(font, side, target.as_os_str().len()));
                        let r = catch(|| font.save(&target));
                        let status = match &r {
                            Err(_) => "panic".to_string(),
                            Ok(Err(e)) => {
                                let dbg = format!("{:?}", e);
                                let short = dbg.replace('\n', " ").replace(&"d".repeat(198), "D").replace(&"q".repeat(120), "Q");
                                let _ = writeln!(o, "ERRINFO {} {}", err_variant(&dbg), short.chars().take(600).collect::<String>());
                                "err".to_string()
                            }
                            Ok(Ok(())) => "ok".to_string(),
                        };
                        let _ = writeln!(o, "STEP {} deep {}", i, status);
                    }
                }
                let _ = std::fs::remove_dir_all(&top);
            }
            _ => {
                let target = save_to.with_file_name(format!("again{}", i));
                let _ = std::fs::remove_dir_all(&target);
                let _ = writeln!(o, "FAILSET {}", failset(font, side, target.as_os_str().len()));
                match catch(|| font.save(&target)) {
                    Err(_) => {
                        let _ = writeln!(o, "STEP {} again panic", i);
                    }
                    Ok(Err(e)) => {
                        let dbg = format!("{:?}", e);
                        let _ = writeln!(o, "STEP {} again err\nERRINFO {} {}", i, err_variant(&dbg), dbg.replace('\n', " ").chars().take(300).collect::<String>());
                    }
                    Ok(Ok(())) => {
                        let _ = writeln!(o, "STEP {} again ok", i);
                        let mut t = vec![];
                        walk(&target, Path::new(""), &mut t);
                        for (p, n, h) in t {
                            let _ = writeln!(o, "TREE2 {} {} {:016x} {}", i, n, h, p);
                        }
                        match catch(|| Font::load(&target)) {
                            Err(_) => o.push_str("RELOAD2 panic\n"),
                            Ok(Err(e)) => {
                                let _ = writeln!(o, "RELOAD2 {} err\nERRINFO {}", i, err_variant(&format!("{:?}", e)));
                            }
                            Ok(Ok(f2)) => {
                                for l in f2.layers.iter() {
                                    let mut h = String::new();
                                    for g in l.iter() {
                                        let _ = write!(h, "{:?};", g);
                                    }
                                    let _ = writeln!(o, "RELOAD2 {} ok {:?} n={} {:016x}", i, l.name(), l.len(), fnv(h.as_bytes()));
                                }
                            }
                        }
                    }
                }
                let _ = std::fs::remove_dir_all(&target);
            }
        }
    }
}

/// one operation of the edit script; the outcome as text
fn apply_op(font: &mut Font, op: &serde_json::Value) -> String {
    let kind = op[0].as_str().unwrap_or("");
    let li = op[1].as_u64().unwrap_or(0) as usize;
    let name = op[2].as_str().unwrap_or("");
    let layer = match font.layers.iter_mut().nth(li) {
        Some(l) => l,
        None => return "nolayer".into(),
    };
    let mk = |name: &str, w: f64| {
        let mut g = norad::Glyph::new(name);
        g.width = w;
        g
    };
    match kind {
        "insert" => {
            layer.insert_glyph(mk(name, op[3].as_f64().unwrap_or(0.0)));
            "ok".into()
        }
        "remove" => if layer.remove_glyph(name).is_some() { "some".into() } else { "none".into() },
        "rename" => match layer.rename_glyph(name, op[3].as_str().unwrap_or(""), op[4].as_bool().unwrap_or(false)) {
            Ok(()) => "ok".into(),
            Err(e) => format!("err:{}", err_variant(&format!("{:?}", e))),
        },
        "entry_insert" => match norad::Name::new(name) {
            Ok(n) => {
                let g = layer.entry(n).or_insert_with(|| mk(name, op[3].as_f64().unwrap_or(0.0)));
                format!("ok:{}", g.width)
            }
            Err(_) => "badname".into(),
        },
        "entry_modify" => match norad::Name::new(name) {
            Ok(n) => {
                let d = op[3].as_f64().unwrap_or(1.0);
                layer.entry(n).and_modify(|g| g.height += d);
                "ok".into()
            }
            Err(_) => "badname".into(),
        },
        "entry_remove" => match norad::Name::new(name) {
            Ok(n) => {
                if let std::collections::btree_map::Entry::Occupied(e) = layer.entry(n) {
                    e.remove();
                    "removed".into()
                } else {
                    "vacant".into()
                }
            }
            Err(_) => "badname".into(),
        },
        "edit" => match layer.get_glyph_mut(name) {
            Some(g) => {
                g.width += op[3].as_f64().unwrap_or(1.0);
                g.note = Some(format!("edited {}", name));
                "some".into()
            }
            None => "none".into(),
        },
        _ => "unknown".into(),
    }
}

/// the part of an observation that must not depend on the build / thread count / schedule
fn comparable(s: &str) -> String {
    s.lines().filter(|l| !l.starts_with("ERRINFO")).collect::<Vec<_>>().join("\n")
}

fn run(a: &Args, tag: &str, reps: usize) {
    let root = a.out.join("ufos");
    let res = a.out.join("res").join(tag);
    std::fs::create_dir_all(&res).unwrap();
    let tmp = a.out.join("tmp").join(tag);
    std::fs::create_dir_all(&tmp).unwrap();
    let mut ks: Vec<String> = std::fs::read_dir(&root)
        .unwrap()
        .filter_map(|e| e.ok())
        .filter(|e| e.path().is_dir())
        .map(|e| e.file_name().to_string_lossy().to_string())
        .collect();
    ks.sort();
    let mut lines = vec![];
    for k in &ks {
        let side: serde_json::Value = std::fs::read_to_string(root.join(format!("{}.json", k)))
            .ok()
            .and_then(|s| serde_json::from_str(&s).ok())
            .unwrap_or(serde_json::Value::Null);
        if side["family"].as_bool() == Some(true) {
            continue; // fonts of the cross-load histories: run by `hist` / `solo`
        }
        let t0 = std::time::Instant::now();
        let first = observe(&root.join(k), &side, &tmp.join("save"));
        write_file(&res.join(format!("{}.txt", k)), &first);
        let cf = comparable(&first);
        let mut differing = 0;
        for r in 1..reps {
            let again = observe(&root.join(k), &side, &tmp.join("save"));
            if comparable(&again) != cf {
                differing += 1;
                if differing <= 3 {
                    write_file(&res.join(format!("{}.rep{}.txt", k, r)), &again);
                }
            }
        }
        lines.push(format!("{{\"k\":{},\"reps\":{},\"differing\":{},\"ms\":{}}}", jstr(k), reps, differing, t0.elapsed().as_millis()));
    }
    write_file(
        &res.join("summary.json"),
        &format!("{{\"rayon\":{},\"threads\":{},\"ufos\":[{}]}}", cfg!(feature = "rayon"),
            jstr(&std::env::var("RAYON_NUM_THREADS").unwrap_or_default()), lines.join(",\n")),
    );
    let _ = std::fs::remove_dir_all(&tmp);
}

pub fn main(a: &Args) {
    match a.extra.first().map(|s| s.as_str()) {
        Some("gen") => gen(a),
        Some("run") => {
            let tag = a.extra.get(1).cloned().unwrap_or_else(|| "seq".into());
            let reps = a.extra.get(2).and_then(|s| s.parse().ok()).unwrap_or(1);
            run(a, &tag, reps)
        }
        Some("hist") => hist(a, &a.extra.get(1).cloned().unwrap_or_else(|| "seq".into())),
        Some("solo") => solo(a, &a.extra.get(1).cloned().unwrap_or_else(|| "seq".into()), &a.extra.get(2).cloned().unwrap_or_default()),
        Some("features") => println!("rayon={}", cfg!(feature = "rayon")),
        _ => {
            eprintln!("usage: c19 gen|run <tag> <reps> --out DIR [--seed N --tier T]");
            std::process::exit(2);
        }
    }
}
