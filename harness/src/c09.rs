//! C09: the saved tree is a function of the font (byte-identical to a save to a fresh path, no
//! remains of the prior contents), optional files exist iff their part is non-empty, nothing
//! outside the target changes.  Fonts: built by recipe, loaded and edited, loaded from crafted
//! UFOs whose contents.plist / layercontents.plist hold unusual paths.
use crate::c08::common::*;
use crate::c08::{collide_edits,  fresh_sandbox, make_prior, modify, prepare_loaded, prior_for, run_save, try_store_keys, Prepared, Prior};
use crate::util::*;
use norad::{DataRequest, Font};
use std::collections::BTreeSet;
use std::fmt::Write as _;
use std::path::Path;

const GLIF: &str = "<?xml version=\"1.0\" encoding=\"UTF-8\"?>\n<glyph name=\"NAME\" format=\"2\">\n    <advance width=\"WIDTH\"/>\n  <outline>\n  </outline>\n</glyph>\n";

fn glif(name: &str, width: u32) -> String {
    GLIF.replace("NAME", name).replace("WIDTH", &width.to_string())
}
fn plist_dict(entries: &[(String, String)]) -> String {
    let mut s = String::from("<?xml version=\"1.0\" encoding=\"UTF-8\"?>\n<!DOCTYPE plist PUBLIC \"-//Apple//DTD PLIST 1.0//EN\" \"http://www.apple.com/DTDs/PropertyList-1.0.dtd\">\n<plist version=\"1.0\">\n<dict>\n");
    for (k, v) in entries {
        let _ = write!(s, "\t<key>{}</key>\n\t<string>{}</string>\n", k, v);
    }
    s.push_str("</dict>\n</plist>\n");
    s
}
fn plist_pairs(entries: &[(String, String)]) -> String {
    let mut s = String::from("<?xml version=\"1.0\" encoding=\"UTF-8\"?>\n<plist version=\"1.0\">\n<array>\n");
    for (k, v) in entries {
        let _ = write!(s, "\t<array>\n\t\t<string>{}</string>\n\t\t<string>{}</string>\n\t</array>\n", k, v);
    }
    s.push_str("</array>\n</plist>\n");
    s
}
const METAINFO: &str = "<?xml version=\"1.0\" encoding=\"UTF-8\"?>\n<plist version=\"1.0\">\n<dict>\n\t<key>creator</key>\n\t<string>org.example.crafted</string>\n\t<key>formatVersion</key>\n\t<integer>3</integer>\n</dict>\n</plist>\n";

/// what a crafted source holds: (variant name, notes)
pub fn write_crafted(sb: &Path, variant: u64, r: &mut Rng) -> (String, bool) {
    // returns (description, load with data requested?)
    let src = sb.join("src.ufo");
    std::fs::create_dir_all(src.join("glyphs")).unwrap();
    std::fs::write(src.join("metainfo.plist"), METAINFO).unwrap();
    let mut layers: Vec<(String, String)> = vec![("public.default".into(), "glyphs".into())];
    let mut contents: Vec<(String, String)> = vec![("a".into(), "a.glif".into())];
    std::fs::write(src.join("glyphs/a.glif"), glif("a", 500)).unwrap();
    let mut with_data = true;
    let desc;
    match variant {
        0 => {
            // the former witness of F8 (fixed by 59e280a): a glif path that climbs out of the
            // layer directory and the UFO; must be refused at load now
            contents.push(("evil".into(), "../../outside.glif".into()));
            std::fs::write(sb.join("outside.glif"), glif("evil", 1)).unwrap();
            desc = "glif path ../../outside.glif";
        }
        1 => {
            contents.push(("dot".into(), "./dot.glif".into()));
            std::fs::write(src.join("glyphs/dot.glif"), glif("dot", 2)).unwrap();
            desc = "glif path ./dot.glif";
        }
        2 => {
            let abs = sb.join("abs.glif");
            contents.push(("abs".into(), abs.to_string_lossy().to_string()));
            std::fs::write(&abs, glif("abs", 3)).unwrap();
            desc = "absolute glif path";
        }
        3 => {
            contents.push(("nested".into(), "sub/n.glif".into()));
            std::fs::create_dir_all(src.join("glyphs/sub")).unwrap();
            std::fs::write(src.join("glyphs/sub/n.glif"), glif("nested", 4)).unwrap();
            desc = "glif path sub/n.glif (directory missing at save)";
        }
        4 => {
            // a layer whose directory is called data; loaded without the data store
            layers.push(("odd".into(), "data".into()));
            std::fs::create_dir_all(src.join("data")).unwrap();
            std::fs::write(src.join("data/contents.plist"), plist_dict(&[("b".into(), "b.glif".into())])).unwrap();
            std::fs::write(src.join("data/b.glif"), glif("b", 5)).unwrap();
            with_data = false;
            desc = "layer directory named data, data not requested";
        }
        5 => {
            layers.push(("odd".into(), "data".into()));
            std::fs::create_dir_all(src.join("data")).unwrap();
            std::fs::write(src.join("data/contents.plist"), plist_dict(&[("b".into(), "b.glif".into())])).unwrap();
            std::fs::write(src.join("data/b.glif"), glif("b", 5)).unwrap();
            desc = "layer directory named data, data requested (files double as data entries)";
        }
        6 => {
            // nested layer directory: only the last component is kept
            layers.push(("deep".into(), "sub/glyphs.deep".into()));
            std::fs::create_dir_all(src.join("sub/glyphs.deep")).unwrap();
            std::fs::write(src.join("sub/glyphs.deep/contents.plist"), plist_dict(&[])).unwrap();
            desc = "layer directory sub/glyphs.deep";
        }
        7 => {
            // two layers on one directory: the second create_dir fails after the wipe
            layers.push(("x".into(), "glyphs.x".into()));
            layers.push(("y".into(), "glyphs.x".into()));
            std::fs::create_dir_all(src.join("glyphs.x")).unwrap();
            std::fs::write(src.join("glyphs.x/contents.plist"), plist_dict(&[("c".into(), "c.glif".into())])).unwrap();
            std::fs::write(src.join("glyphs.x/c.glif"), glif("c", 6)).unwrap();
            desc = "two layers share the directory glyphs.x";
        }
        8 => {
            // a second layer whose path ends in `glyphs`: two default directories
            layers.push(("twin".into(), "other/glyphs".into()));
            std::fs::create_dir_all(src.join("other/glyphs")).unwrap();
            std::fs::write(src.join("other/glyphs/contents.plist"), plist_dict(&[])).unwrap();
            desc = "layer directory other/glyphs (same final component as the default layer)";
        }
        9 => {
            contents.push(("up".into(), "../up.glif".into()));
            std::fs::write(src.join("up.glif"), glif("up", 7)).unwrap();
            desc = "glif path ../up.glif (stays inside the target)";
        }
        10 => {
            // glif written into a sibling layer directory
            layers.push(("bg".into(), "glyphs.bg".into()));
            std::fs::create_dir_all(src.join("glyphs.bg")).unwrap();
            std::fs::write(src.join("glyphs.bg/contents.plist"), plist_dict(&[])).unwrap();
            contents.push(("cross".into(), "../glyphs.bg/cross.glif".into()));
            std::fs::write(src.join("glyphs.bg/cross.glif"), glif("cross", 8)).unwrap();
            desc = "glif path ../glyphs.bg/cross.glif";
        }
        12 => {
            // two layer directories that differ only by case (refused since f6784f0)
            layers.push(("up".into(), "glyphs.A_".into()));
            layers.push(("lo".into(), "glyphs.a_".into()));
            for d in ["glyphs.A_", "glyphs.a_"] {
                std::fs::create_dir_all(src.join(d)).unwrap();
                std::fs::write(src.join(d).join("contents.plist"), plist_dict(&[])).unwrap();
            }
            desc = "layer directories glyphs.A_ and glyphs.a_";
        }
        13 => {
            contents.push(("X".into(), "X.glif".into()));
            contents.push(("x".into(), "x.glif".into()));
            std::fs::write(src.join("glyphs/X.glif"), glif("X", 11)).unwrap();
            std::fs::write(src.join("glyphs/x.glif"), glif("x", 12)).unwrap();
            desc = "glif files X.glif and x.glif";
        }
        _ => {
            layers.push(("img".into(), "images".into()));
            std::fs::create_dir_all(src.join("images")).unwrap();
            std::fs::write(src.join("images/contents.plist"), plist_dict(&[])).unwrap();
            with_data = false;
            desc = "layer directory named images, images not requested";
        }
    }
    // a few more ordinary things around it
    if r.chance(1, 2) {
        contents.push(("z".into(), "z_.glif".into()));
        std::fs::write(src.join("glyphs/z_.glif"), glif("z", 9)).unwrap();
    }
    if r.chance(1, 2) && variant != 4 && variant != 5 && variant != 11 {
        std::fs::create_dir_all(src.join("data/k")).unwrap();
        std::fs::write(src.join("data/k/v.bin"), b"v").unwrap();
    }
    std::fs::write(src.join("glyphs/contents.plist"), plist_dict(&contents)).unwrap();
    std::fs::write(src.join("layercontents.plist"), plist_pairs(&layers)).unwrap();
    (desc.to_string(), with_data)
}
pub const N_CRAFTED: u64 = 14;

pub fn prepare_crafted(sb: &Path, variant: u64, r: &mut Rng) -> Option<Prepared> {
    let (desc, with_data) = write_crafted(sb, variant, r);
    let src = sb.join("src.ufo");
    let req = if with_data { DataRequest::all() } else { DataRequest::all().data(false).images(false) };
    let font = match catch(|| Font::load_requested_data(&src, req)) {
        Ok(Ok(f)) => f,
        _ => return None,
    };
    let shadow = Shadow::opened(&font, &split_rel("src.ufo"));
    Some(Prepared {
        font,
        shadow,
        groups_ok: true,
        info_valid: true,
        loaded_from: Some(split_rel("src.ufo")),
        preserve: BTreeSet::new(),
        notes: vec![format!("crafted UFO: {}", desc)],
    })
}

/// some layer directory or glif path of the font is not a single plain component (the class of
/// the former finding F8; no font can get there any more: load refuses such paths)
pub fn class_f8(f: &Font) -> bool {
    f.layers.iter().any(|l| {
        !single_normal(l.path())
            || l.iter().any(|g| l.get_path(g.name()).map(|p| !single_normal(p)).unwrap_or(false))
    })
}
const TOP_RESERVED: [&str; 9] = [
    "data", "images", "metainfo.plist", "fontinfo.plist", "lib.plist", "groups.plist", "kerning.plist", "features.fea",
    "layercontents.plist",
];
pub fn class_reserved(f: &Font) -> bool {
    let mut seen = BTreeSet::new();
    for l in f.layers.iter() {
        let d = l.path().to_string_lossy().to_string();
        if TOP_RESERVED.contains(&d.as_str()) || !seen.insert(d) {
            return true;
        }
        for g in l.iter() {
            if let Some(p) = l.get_path(g.name()) {
                let n = p.to_string_lossy().to_string();
                if n == "contents.plist" || n == "layerinfo.plist" {
                    return true;
                }
            }
        }
    }
    false
}

fn subtree(s: &Snap, root: &str) -> Snap {
    let mut o = Snap::new();
    let pre = format!("{}/", root);
    for (k, v) in s {
        if k == root {
            o.insert(String::new(), v.clone());
        } else if let Some(r) = k.strip_prefix(&pre) {
            o.insert(r.to_string(), v.clone());
        }
    }
    o
}
fn outside(s: &Snap, root: &str) -> Snap {
    let pre = format!("{}/", root);
    s.iter().filter(|(k, _)| *k != root && !k.starts_with(&pre)).map(|(k, v)| (k.clone(), v.clone())).collect()
}

pub struct CaseOut {
    pub gallina: String,
    pub json: String,
}

pub fn case(seed: u64, idx: u64, out: &Path, verbose: bool, force_variant: Option<u64>) -> CaseOut {
    let mut r = Rng::new(seed.wrapping_mul(0x9E37_79B9_7F4A_7C15) ^ idx.wrapping_mul(0xD1B5_4A32_D192_ED03) ^ 0x0909);
    let sb = fresh_sandbox(out, "sb9", idx);
    let kind = if force_variant.is_some() {
        2
    } else {
        match r.below(20) {
            0..=7 => 0,
            8..=12 => 1,
            _ => 2,
        }
    };
    let mut variant = 99;
    let mut crafted_loaded = false;
    let mut p = match kind {
        0 => {
            let rc = Recipe::random_valid(&mut r);
            let (font, shadow) = build_font(&rc);
            Prepared { font, shadow, groups_ok: true, info_valid: true, loaded_from: None, preserve: BTreeSet::new(), notes: vec![] }
        }
        1 => {
            let mut p = prepare_loaded(&sb, &mut r, false);
            modify(&mut p, &mut r);
            collide_edits(&mut p, &mut r);
            p
        }
        _ => {
            variant = force_variant.unwrap_or_else(|| idx % N_CRAFTED);
            match prepare_crafted(&sb, variant, &mut r) {
                Some(p) => {
                    crafted_loaded = true;
                    p
                }
                None => {
                    // the crafted source does not load: nothing to save, an uninteresting case
                    let (font, shadow) = build_font(&Recipe::plain());
                    Prepared { font, shadow, groups_ok: true, info_valid: true, loaded_from: None, preserve: BTreeSet::new(), notes: vec![format!("crafted variant {} does not load", variant)] }
                }
            }
        }
    };
    if kind == 2 && r.chance(1, 3) {
        modify(&mut p, &mut r);
    }
    if kind == 2 && crafted_loaded && r.chance(1, 2) {
        collide_edits(&mut p, &mut r);
    }
    try_store_keys(&mut p, &mut r);
    let in_place = p.loaded_from.is_some() && r.chance(1, 3);
    let prior = if in_place { Prior::Absent } else { prior_for(idx / 3) };
    let target_rel: Vec<String> = if in_place { split_rel("src.ufo") } else { split_rel(prior.target()) };
    if !in_place {
        make_prior(&sb.join(target_rel.join("/")), prior, &mut r);
    }
    let run = run_save(&p, out, idx, &sb, &target_rel);
    let c = judge(&p, &run, &Ctx9 { idx, kind, variant, crafted_loaded, prior, in_place, sb: &sb, target_rel: &target_rel, verbose, extra: vec![] });
    let _ = std::fs::remove_dir_all(&sb);
    c
}

pub struct Ctx9<'a> {
    pub idx: u64,
    pub kind: u64,
    pub variant: u64,
    pub crafted_loaded: bool,
    pub prior: Prior,
    pub in_place: bool,
    pub sb: &'a Path,
    pub target_rel: &'a [String],
    pub verbose: bool,
    /// failures found outside the save itself (added to the tree check)
    pub extra: Vec<String>,
}

/// the property oracle on one save
pub fn judge(p: &Prepared, run: &crate::c08::SaveRun, cx: &Ctx9) -> CaseOut {
    let (idx, kind, variant, crafted_loaded, prior, in_place, sb, target_rel, verbose) =
        (cx.idx, cx.kind, cx.variant, cx.crafted_loaded, cx.prior, cx.in_place, cx.sb, cx.target_rel, cx.verbose);
    // ------------------------------------------------------------ property oracle
    let troot = target_rel.join("/");
    let mut fail_tree: Vec<String> = cx.extra.clone();
    fail_tree.extend(p.notes.iter().filter(|n| n.starts_with("SOURCE-RELOAD-FAILED")).cloned());
    let mut fail_frame: Vec<String> = vec![];
    let mut fail_opt: Vec<String> = vec![];
    let saved = run.obs.1 == "Saved";
    // a directory (or nothing) at the target must not influence whether the save succeeds
    if saved != run.ref_ok && !prior.blocks_save() {
        fail_tree.push(format!("save to the target: {}, save of the same font to a fresh path: {}", run.obs.1, if run.ref_ok { "Saved" } else { "failed" }));
    }
    let frame_before = outside(&run.before, &troot);
    let frame_after = outside(&run.after, &troot);
    if frame_before != frame_after {
        fail_frame.push(format!("outside the target: {}", snap_diff(&frame_before, &frame_after).join(", ")));
    }
    if saved {
        fail_tree.extend(crate::c08::store_bytes_check(p, &run.before, &run.after, &troot));
    }
    if saved && run.ref_ok {
        let got = subtree(&run.after, &troot);
        let want = subtree(&run.reftree, &troot);
        if got != want {
            let stale: Vec<&String> = got.keys().filter(|k| !want.contains_key(*k)).collect();
            let missing: Vec<&String> = want.keys().filter(|k| !got.contains_key(*k)).collect();
            let changed: Vec<&String> = want.iter().filter(|(k, v)| got.get(*k).map(|g| g != *v).unwrap_or(false)).map(|(k, _)| k).collect();
            fail_tree.push(format!(
                "target differs from a save of the same font to a fresh path: remains of the previous contents / unexpected entries {:?}; missing {:?}; different bytes {:?}",
                stale, missing, changed
            ));
        }
        let f = &p.font;
        let is_file = |rel: &str| matches!(got.get(rel), Some(Some(_)));
        let is_dir = |rel: &str| matches!(got.get(rel), Some(None));
        let glib = f.guidelines().iter().any(|g| g.lib().is_some());
        let mut opt = |rel: String, nonempty: bool, dir: bool| {
            let there = if dir { is_dir(&rel) } else { is_file(&rel) };
            if there != nonempty {
                fail_opt.push(format!("{} {} although its part is {}", rel, if there { "exists" } else { "is missing" }, if nonempty { "non-empty" } else { "empty" }));
            }
        };
        opt("fontinfo.plist".into(), !f.font_info.is_empty(), false);
        opt("lib.plist".into(), !f.lib.is_empty() || glib, false);
        opt("groups.plist".into(), !f.groups.is_empty(), false);
        opt("kerning.plist".into(), !f.kerning.is_empty(), false);
        opt("features.fea".into(), !f.features.is_empty(), false);
        opt("data".into(), !f.data.is_empty(), true);
        opt("images".into(), !f.images.is_empty(), true);
        opt("metainfo.plist".into(), true, false);
        opt("layercontents.plist".into(), true, false);
        for l in f.layers.iter() {
            let d = l.path().to_string_lossy().to_string();
            opt(format!("{}/layerinfo.plist", d), l.color.is_some() || !l.lib.is_empty(), false);
            opt(format!("{}/contents.plist", d), true, false);
        }
    }
    // every glyph has a file of its own, and the saved tree loads back to the same glyphs
    let mut fail_glyphs: Vec<String> = vec![];
    if saved {
        let got = subtree(&run.after, &troot);
        for l in p.font.layers.iter() {
            let d = l.path().to_string_lossy().to_string();
            let pre = format!("{}/", d);
            let nglif = got.iter().filter(|(k, v)| v.is_some() && k.starts_with(&pre) && !k[pre.len()..].contains('/') && k.ends_with(".glif")).count();
            let mut paths: Vec<String> = l.iter().filter_map(|g| l.get_path(g.name())).map(|q| q.to_string_lossy().to_string()).collect();
            let nglyphs = paths.len();
            paths.sort();
            let before_dedup = paths.len();
            paths.dedup();
            if paths.len() != before_dedup {
                fail_glyphs.push(format!("layer {:?}: two glyphs share a glif file", l.name().to_string()));
            }
            // (a layer stored in `data`/`images` may see store files with the same extension)
            if nglif != nglyphs && !TOP_RESERVED.contains(&d.as_str()) {
                fail_glyphs.push(format!("layer {:?}: {} glyphs but {} .glif files in {}", l.name().to_string(), nglyphs, nglif, d));
            }
        }
        match catch(|| Font::load(sb.join(&troot))) {
            Ok(Ok(back)) => {
                for l in p.font.layers.iter() {
                    let want: BTreeSet<String> = l.iter().filter(|g| l.get_path(g.name()).is_some()).map(|g| g.name().to_string()).collect();
                    let have: Option<BTreeSet<String>> = back.layers.get(l.name()).map(|b| b.iter().map(|g| g.name().to_string()).collect());
                    if have.as_ref() != Some(&want) {
                        fail_glyphs.push(format!("layer {:?}: saved tree reloads with glyphs {:?}, the font has {:?}", l.name().to_string(), have, want));
                    }
                }
            }
            Ok(Err(e)) => fail_glyphs.push(format!("the saved tree does not load: {}", format!("{:?}", e).chars().take(160).collect::<String>())),
            Err(_) => fail_glyphs.push("loading the saved tree panics".into()),
        }
    }
    let c_f8 = class_f8(&p.font);
    let c_res = class_reserved(&p.font);
    let mut json = String::new();
    let _ = write!(
        json,
        "{{\"i\":{},\"kind\":{},\"variant\":{},\"crafted_loaded\":{},\"prior\":{},\"in_place\":{},\"obs\":{},\"ref_ok\":{},\"fail_tree\":{},\"fail_frame\":{},\"fail_opt\":{},\"fail_glyphs\":{},\"class_f8\":{},\"class_reserved\":{},\"notes\":{},\"files\":{}}}",
        idx,
        kind,
        variant,
        crafted_loaded,
        json_str(&format!("{:?}", prior)),
        in_place,
        json_str(&run.obs.1),
        run.ref_ok,
        serde_json::to_string(&fail_tree).unwrap(),
        serde_json::to_string(&fail_frame).unwrap(),
        serde_json::to_string(&fail_opt).unwrap(),
        serde_json::to_string(&fail_glyphs).unwrap(),
        c_f8,
        c_res,
        serde_json::to_string(&p.notes).unwrap(),
        subtree(&run.after, &troot).len()
    );
    if verbose {
        println!("case {}: kind={} variant={} prior={:?} in_place={} notes={:?}", idx, kind, variant, prior, in_place, p.notes);
        println!("observed: {} (fresh-path save ok: {})", run.obs.1, run.ref_ok);
        println!("changes: {:?}", snap_diff(&run.before, &run.after));
        println!("tree check: {:?}\nframe check: {:?}\noptional files: {:?}\nglyph files: {:?}", fail_tree, fail_frame, fail_opt, fail_glyphs);
        println!("class F8 (non-plain loaded path): {}; class reserved-name: {}", c_f8, c_res);
    }
    CaseOut { gallina: run.gallina.clone(), json }
}

/// One thread, two fonts: a save of font B that must fail (every failure kind the harness can
/// produce), then font A saved to a fresh path and over an existing target.  A's tree must be what
/// a thread without history writes (the reference save runs in a thread of its own).
pub fn cross_case(seed: u64, idx: u64, out: &Path, verbose: bool) -> Vec<CaseOut> {
    let mut r = Rng::new(seed.wrapping_mul(0x9E37_79B9_7F4A_7C15) ^ idx.wrapping_mul(0xD1B5_4A32_D192_ED03) ^ 0xC805);
    let sb = fresh_sandbox(out, "sbx", idx);
    let mut outs = vec![];
    // ---- font B
    let fail_kind = (idx / 7) % 6;
    let mut rb = Recipe::random_valid(&mut r);
    for l in rb.layers.iter_mut() {
        if l.glyphs.is_empty() {
            l.glyphs.push(GlyphR { name: "first".into(), objlibs: false, uid: false, width: 3 });
        }
    }
    let mut pb;
    match fail_kind {
        0 | 1 => {
            // encoding fails in the middle of a layer: glyphs sorted before it are already written
            let li = if fail_kind == 0 { 0 } else { rb.layers.len() - 1 };
            rb.layers[li].glyphs.push(GlyphR { name: (if r.chance(1, 2) { "uid" } else { "Auid" }).into(), objlibs: false, uid: true, width: 9 });
            let (font, shadow) = build_font(&rb);
            pb = Prepared { font, shadow, groups_ok: true, info_valid: true, loaded_from: None, preserve: BTreeSet::new(), notes: vec!["font B: a Uid in a glyph lib (the glyph cannot be encoded)".into()] };
        }
        2 => {
            rb.layers[0].glyphs.push(GlyphR { name: "late".into(), objlibs: true, uid: false, width: 1 });
            let (font, shadow) = build_font(&rb);
            pb = Prepared { font, shadow, groups_ok: true, info_valid: true, loaded_from: None, preserve: BTreeSet::new(), notes: vec!["font B: public.objectLibs in a glyph lib".into()] };
        }
        3 => {
            let (font, shadow) = build_font(&rb);
            pb = Prepared { font, shadow, groups_ok: true, info_valid: true, loaded_from: None, preserve: BTreeSet::new(), notes: vec!["font B: public.objectLibs in the font lib".into()] };
            crate::c08::inject(&mut pb, 2, &mut r);
        }
        4 => {
            let (font, shadow) = build_font(&rb);
            pb = Prepared { font, shadow, groups_ok: true, info_valid: true, loaded_from: None, preserve: BTreeSet::new(), notes: vec!["font B: invalid font info".into()] };
            crate::c08::inject(&mut pb, 8, &mut r);
        }
        _ => {
            // a loaded font with an image that is not a PNG: the store entry is in error
            pb = prepare_loaded(&sb, &mut r, false);
            std::fs::write(sb.join("src.ufo/images").join("late-bad.png"), b"GIF89a").ok();
            std::fs::create_dir_all(sb.join("src.ufo/images")).unwrap();
            std::fs::write(sb.join("src.ufo/images/late-bad.png"), b"GIF89a").unwrap();
            pb = {
                let font = Font::load(sb.join("src.ufo")).unwrap();
                let shadow = Shadow::opened(&font, &split_rel("src.ufo"));
                Prepared { font, shadow, groups_ok: true, info_valid: true, loaded_from: Some(split_rel("src.ufo")), preserve: BTreeSet::new(), notes: pb.notes.clone() }
            };
            pb.notes.push("font B: an image without the PNG signature".into());
        }
    }
    let mut extra = vec![];
    // Glyph::save failing, then Glyph::save of another glyph: its file is its encoding
    {
        let bad = make_glyph(&GlyphR { name: "g-uid".into(), objlibs: false, uid: true, width: 2 });
        let good = make_glyph(&GlyphR { name: "g-ok".into(), objlibs: false, uid: false, width: 4 });
        let gp = sb.join("zone/loose.glif");
        if catch(|| bad.save(sb.join("zone/never.glif"))).map(|x| x.is_ok()).unwrap_or(true) {
            extra.push("Glyph::save of a glyph with a Uid in its lib did not fail".into());
        }
        let _ = std::fs::remove_file(sb.join("zone/never.glif"));
        match (catch(|| good.save(&gp)), good.encode_xml()) {
            (Ok(Ok(())), Ok(want)) => {
                if std::fs::read(&gp).ok() != Some(want) {
                    extra.push("Glyph::save after a failed Glyph::save wrote something else than the glyph's encoding".into());
                }
            }
            _ => extra.push("Glyph::save of a plain glyph failed".into()),
        }
        let _ = std::fs::remove_file(&gp);
    }
    let tb = split_rel("zone/b.ufo");
    let run_b = run_save(&pb, out, idx * 4, &sb, &tb);
    if run_b.obs.1 == "Saved" {
        extra.push("font B was saved although it cannot be".into());
    }
    outs.push(judge(&pb, &run_b, &Ctx9 { idx, kind: 3, variant: 100 + fail_kind, crafted_loaded: false, prior: Prior::Absent, in_place: false, sb: &sb, target_rel: &tb, verbose, extra }));
    // ---- font A, same thread: to a fresh path, then over something
    let mut ra = Recipe::random_valid(&mut r);
    if ra.layers[0].glyphs.is_empty() {
        ra.layers[0].glyphs.push(GlyphR { name: "a".into(), objlibs: false, uid: false, width: 5 });
    }
    let (font, shadow) = build_font(&ra);
    let pa = Prepared { font, shadow, groups_ok: true, info_valid: true, loaded_from: None, preserve: BTreeSet::new(), notes: vec![format!("font A, saved after the failed save of font B ({})", pb.notes.last().cloned().unwrap_or_default())] };
    let ta = split_rel("zone/a-fresh.ufo");
    let run_a = run_save(&pa, out, idx * 4 + 1, &sb, &ta);
    outs.push(judge(&pa, &run_a, &Ctx9 { idx, kind: 3, variant: 110 + fail_kind, crafted_loaded: false, prior: Prior::Absent, in_place: false, sb: &sb, target_rel: &ta, verbose, extra: vec![] }));
    // B fails once more, then A over an existing target
    let _ = catch(|| pb.font.save(sb.join("zone/b2.ufo")));
    let _ = std::fs::remove_dir_all(sb.join("zone/b2.ufo"));
    let prior = [Prior::OtherUfo, Prior::LargerUfo, Prior::StaleOptional, Prior::JunkNoMeta][(idx % 4) as usize];
    let tt = split_rel("zone/t.ufo");
    make_prior(&sb.join("zone/t.ufo"), prior, &mut r);
    let run_a2 = run_save(&pa, out, idx * 4 + 2, &sb, &tt);
    outs.push(judge(&pa, &run_a2, &Ctx9 { idx, kind: 3, variant: 120 + fail_kind, crafted_loaded: false, prior, in_place: false, sb: &sb, target_rel: &tt, verbose, extra: vec![] }));
    let _ = std::fs::remove_dir_all(&sb);
    outs
}

pub fn main(a: &Args) {
    std::fs::create_dir_all(&a.out).unwrap();
    if let Some(rp) = &a.replay {
        // replay file: "<seed> <index>" or "variant <n>" (corpus witness)
        let t = std::fs::read_to_string(rp).unwrap();
        let w: Vec<&str> = t.split_whitespace().collect();
        if w.len() > 2 && w[2] == "x" {
            for c in cross_case(w[0].parse().unwrap(), w[1].parse().unwrap(), &a.out, true) {
                println!("{}", c.json);
            }
            return;
        }
        let c = if w[0] == "variant" {
            case(1, w[1].parse::<u64>().unwrap() * 3, &a.out, true, Some(w[1].parse().unwrap()))
        } else {
            case(w[0].parse().unwrap(), w[1].parse().unwrap(), &a.out, true, None)
        };
        println!("{}", c.json);
        return;
    }
    let n: u64 = if a.thorough() { 15000 } else { 800 };
    let mut g = String::new();
    let mut j = String::new();
    // corpus first: the witness of F8 (crafted variant 0), saved elsewhere
    for i in 0..n {
        if i % 7 == 3 {
            for c in cross_case(a.seed, i, &a.out, false) {
                g.push_str(&c.gallina);
                g.push('\n');
                j.push_str(&c.json);
                j.push('\n');
            }
        }
        let c = if i == 0 { case(a.seed, 0, &a.out, false, Some(0)) } else { case(a.seed, i, &a.out, false, None) };
        g.push_str(&c.gallina);
        g.push('\n');
        j.push_str(&c.json);
        j.push('\n');
    }
    write_file(&a.out.join("cases.txt"), &g);
    write_file(&a.out.join("oracle.jsonl"), &j);
}
