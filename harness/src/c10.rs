//! C10: loading and saving are deterministic.
//!
//! Every UFO (generated legacy ones with colliding group names and several feature blocks, and
//! all fixture UFOs under <norad>/testdata) is loaded repeatedly in this process (every
//! HashMap/HashSet instance gets a fresh RandomState) and in child processes; the loads must be
//! equal (`Font: PartialEq` and a canonical digest), the saved trees byte-identical. The first
//! load is also dumped for the comparison with the Coq model (groups, kerning, feature text).
use crate::c15;
use crate::util::*;
use c15::{Case, GMap, Interner, KMap, O};
use norad::Font;
use std::collections::BTreeMap;
use std::fmt::Write as _;
use std::path::{Path, PathBuf};

#[derive(Clone, Debug, Default)]
pub struct Feat {
    pub classes: Option<String>,
    pub order: Option<Vec<String>>,
    pub blocks: Option<Vec<(String, String)>>, // in file order; tags distinct
    pub fea: Option<String>,                   // features.fea
    pub data: Vec<(String, Vec<u8>)>,          // data/<relative path>
    pub images: Vec<(String, Vec<u8>)>,        // images/<name>
    pub empty_dirs: Vec<String>,               // empty directories, relative to the UFO (data/x, images/y)
    pub symlinks: Vec<String>,                 // symbolic links (to a file of the UFO), relative to the UFO
}

#[derive(Clone, Debug)]
pub struct Case10 {
    pub base: Case,
    pub feat: Feat,
}

fn j_feat(f: &Feat) -> serde_json::Value {
    serde_json::json!({"classes": f.classes, "order": f.order,
        "blocks": f.blocks.as_ref().map(|b| b.iter().map(|(k, v)| serde_json::json!([k, v])).collect::<Vec<_>>()),
        "fea": f.fea,
        "data": f.data.iter().map(|(k, v)| serde_json::json!([k, v])).collect::<Vec<_>>(),
        "images": f.images.iter().map(|(k, v)| serde_json::json!([k, v])).collect::<Vec<_>>(),
        "empty_dirs": f.empty_dirs, "symlinks": f.symlinks})
}
fn feat_from(v: &serde_json::Value) -> Feat {
    Feat {
        classes: v["classes"].as_str().map(|s| s.to_string()),
        order: v["order"].as_array().map(|a| a.iter().map(|x| x.as_str().unwrap().to_string()).collect()),
        blocks: v["blocks"].as_array().map(|a| {
            a.iter().map(|p| (p[0].as_str().unwrap().to_string(), p[1].as_str().unwrap().to_string())).collect()
        }),
        fea: v["fea"].as_str().map(|s| s.to_string()),
        data: store_from(&v["data"]),
        images: store_from(&v["images"]),
        empty_dirs: v["empty_dirs"].as_array().map(|a| a.iter().filter_map(|x| x.as_str().map(|s| s.to_string())).collect()).unwrap_or_default(),
        symlinks: v["symlinks"].as_array().map(|a| a.iter().filter_map(|x| x.as_str().map(|s| s.to_string())).collect()).unwrap_or_default(),
    }
}
fn store_from(v: &serde_json::Value) -> Vec<(String, Vec<u8>)> {
    v.as_array()
        .map(|a| {
            a.iter()
                .map(|p| {
                    (
                        p[0].as_str().unwrap().to_string(),
                        p[1].as_array().unwrap().iter().map(|b| b.as_u64().unwrap() as u8).collect(),
                    )
                })
                .collect()
        })
        .unwrap_or_default()
}
impl Case10 {
    pub fn to_json(&self) -> serde_json::Value {
        serde_json::json!({"ufo": self.base.to_json(), "features": j_feat(&self.feat)})
    }
    pub fn from_json(v: &serde_json::Value) -> Case10 {
        Case10 { base: Case::from_json(&v["ufo"]), feat: feat_from(&v["features"]) }
    }
}

fn write_extra(ufo: &Path, f: &Feat, shuffle: u64) {
    if f.classes.is_some() || f.order.is_some() || f.blocks.is_some() {
        let mut s = String::from(c15::HEAD);
        s.push_str("<dict>\n<key>com.example.keep</key><string>kept</string>\n");
        if let Some(c) = &f.classes {
            let _ = writeln!(s, "<key>org.robofab.opentype.classes</key><string>{}</string>", c15::esc(c));
        }
        if let Some(b) = &f.blocks {
            s.push_str("<key>org.robofab.opentype.features</key><dict>\n");
            for (k, v) in b {
                let _ = writeln!(s, "<key>{}</key><string>{}</string>", c15::esc(k), c15::esc(v));
            }
            s.push_str("</dict>\n");
        }
        if let Some(o) = &f.order {
            s.push_str("<key>org.robofab.opentype.featureorder</key><array>");
            for k in o {
                let _ = write!(s, "<string>{}</string>", c15::esc(k));
            }
            s.push_str("</array>\n");
        }
        let _ = shuffle;
        s.push_str("</dict>\n</plist>\n");
        write_file(&ufo.join("lib.plist"), &s);
    }
    if let Some(t) = &f.fea {
        write_file(&ufo.join("features.fea"), t);
    }
    for (dir, entries) in [("data", &f.data), ("images", &f.images)] {
        for (k, v) in entries.iter() {
            let p = ufo.join(dir).join(k);
            std::fs::create_dir_all(p.parent().unwrap()).unwrap();
            std::fs::write(&p, v).unwrap();
        }
    }
    for d in &f.empty_dirs {
        std::fs::create_dir_all(ufo.join(d)).unwrap();
    }
    for l in &f.symlinks {
        let p = ufo.join(l);
        std::fs::create_dir_all(p.parent().unwrap()).unwrap();
        #[cfg(unix)]
        let _ = std::os::unix::fs::symlink(ufo.join("metainfo.plist"), &p);
    }
}

// ------------------------------------------------------------------ canonical digest, tree hash
fn fnv(h: &mut u64, bytes: &[u8]) {
    for b in bytes {
        *h = (*h ^ *b as u64).wrapping_mul(0x100000001b3);
    }
}

/// Everything a load returns, in a canonical order, as text (no Debug of a hashed collection)
pub fn digest(f: &Font) -> String {
    let mut s = String::new();
    let _ = writeln!(s, "meta {:?}", f.meta);
    let _ = writeln!(s, "info {:?}", f.font_info);
    let _ = writeln!(s, "lib {:?}", f.lib);
    let _ = writeln!(s, "groups {:?}", f.groups);
    let _ = writeln!(s, "kerning {:?}", f.kerning.iter().map(|(a, r)| (a, r.iter().map(|(b, v)| (b, v.to_bits())).collect::<Vec<_>>())).collect::<Vec<_>>());
    let _ = writeln!(s, "features {:?}", f.features);
    for l in f.layers.iter() {
        let _ = writeln!(s, "layer {:?} {:?} {:?} {:?}", l.name(), l.path(), l.color, l.lib);
        for g in l.iter() {
            let _ = writeln!(s, " glyph {:?}", g);
        }
    }
    let mut dk: Vec<&PathBuf> = f.data.keys().collect();
    dk.sort();
    for k in dk {
        let _ = writeln!(s, "data {:?} {:?}", k, f.data.get(k).map(|r| r.map(|b| b.to_vec()).map_err(|e| format!("{:?}", e))));
    }
    let mut ik: Vec<&PathBuf> = f.images.keys().collect();
    ik.sort();
    for k in ik {
        let _ = writeln!(s, "image {:?} {:?}", k, f.images.get(k).map(|r| r.map(|b| b.to_vec()).map_err(|e| format!("{:?}", e))));
    }
    s
}
fn digest_hash(f: &Font) -> u64 {
    let mut h = 0xcbf29ce484222325u64;
    fnv(&mut h, digest(f).as_bytes());
    h
}

/// hash of a directory tree: sorted relative paths, kinds and bytes
pub fn tree_hash(root: &Path) -> u64 {
    fn walk(dir: &Path, rel: &str, out: &mut Vec<(String, Option<Vec<u8>>)>) {
        let mut es: Vec<_> = match std::fs::read_dir(dir) {
            Ok(rd) => rd.filter_map(|e| e.ok()).collect(),
            Err(_) => return,
        };
        es.sort_by_key(|e| e.file_name());
        for e in es {
            let name = e.file_name().to_string_lossy().to_string();
            let r = if rel.is_empty() { name.clone() } else { format!("{}/{}", rel, name) };
            let p = e.path();
            if p.is_dir() {
                out.push((r.clone(), None));
                walk(&p, &r, out);
            } else {
                out.push((r, Some(std::fs::read(&p).unwrap_or_default())));
            }
        }
    }
    let mut v = vec![];
    walk(root, "", &mut v);
    let mut h = 0xcbf29ce484222325u64;
    for (p, b) in v {
        fnv(&mut h, p.as_bytes());
        fnv(&mut h, &[0]);
        match b {
            None => fnv(&mut h, b"<dir>"),
            Some(b) => {
                fnv(&mut h, &(b.len() as u64).to_le_bytes());
                fnv(&mut h, &b)
            }
        }
    }
    h
}

fn load_text(ufo: &Path) -> (Option<Font>, String) {
    match catch(|| Font::load(ufo)) {
        Err(m) => (None, format!("panic: {}", m)),
        Ok(Err(e)) => {
            // variant and payload, without the (fixed) path prefix
            let t = format!("{:?}", e);
            (None, format!("error: {}", t.replace(&ufo.to_string_lossy().to_string(), "<ufo>")))
        }
        Ok(Ok(f)) => {
            let h = digest_hash(&f);
            (Some(f), format!("ok: {:016x}", h))
        }
    }
}
fn save_hash(f: &Font, out: &Path) -> String {
    let _ = std::fs::remove_dir_all(out);
    match catch(|| f.save(out)) {
        Err(m) => format!("panic: {}", m),
        Ok(Err(e)) => format!("error: {}", format!("{:?}", e).replace(&out.to_string_lossy().to_string(), "<out>")),
        Ok(Ok(())) => format!("tree: {:016x}", tree_hash(out)),
    }
}

static CHILD_SKIPPED: std::sync::atomic::AtomicU64 = std::sync::atomic::AtomicU64::new(0);

/// the determinism oracle on one UFO directory; returns the first load and the list of differences
fn determinism(ufo: &Path, work: &Path, runs: usize, children: usize) -> (Option<Font>, Vec<String>, String, String) {
    let mut diffs = vec![];
    let (first, t0) = load_text(ufo);
    let mut last: Option<Font> = None;
    for i in 1..runs {
        let (f, t) = load_text(ufo);
        if t != t0 {
            diffs.push(format!("in-process load #{} differs from load #0: {} vs {}", i, t, t0));
        }
        if let (Some(a), Some(b)) = (&first, &f) {
            if a != b {
                diffs.push(format!("in-process load #{}: Font != Font of load #0", i));
            }
        }
        last = f;
    }
    let mut s0 = String::from("-");
    if let Some(f) = &first {
        s0 = save_hash(f, &work.join("out_a"));
        let s1 = save_hash(f, &work.join("out_b"));
        if s1 != s0 {
            diffs.push(format!("saving the same font twice gave different trees: {} vs {}", s0, s1));
        }
        if let Some(l) = &last {
            let s2 = save_hash(l, &work.join("out_c"));
            if s2 != s0 {
                diffs.push(format!("saving another load of the same directory gave a different tree: {} vs {}", s0, s2));
            }
        }
    }
    let exe = std::env::current_exe().unwrap();
    for c in 0..children {
        let out = work.join(format!("child_{}", c));
        // a child that cannot be started or dies without its two lines (resource limits of the
        // machine) is retried and then skipped: that is not an observation about norad
        let mut got: Option<(String, String)> = None;
        for _attempt in 0..3 {
            if let Ok(o) = std::process::Command::new(&exe).arg("c10").arg("--child").arg(ufo).arg("--out").arg(&out).output() {
                let txt = String::from_utf8_lossy(&o.stdout).to_string();
                let ls: Vec<&str> = txt.lines().collect();
                if o.status.success() && ls.len() >= 2 {
                    got = Some((ls[0].to_string(), ls[1].to_string()));
                    break;
                }
            }
            std::thread::sleep(std::time::Duration::from_millis(50));
        }
        match got {
            Some((l, s)) => {
                if l != t0 {
                    diffs.push(format!("load in child process #{} differs: {} vs {}", c, l, t0));
                }
                if first.is_some() && s != s0 {
                    diffs.push(format!("tree saved by child process #{} differs: {} vs {}", c, s, s0));
                }
            }
            None => {
                CHILD_SKIPPED.fetch_add(1, std::sync::atomic::Ordering::Relaxed);
            }
        }
        let _ = std::fs::remove_dir_all(&out);
    }
    (first, diffs, t0, s0)
}

// ------------------------------------------------------------------ reading a UFO as a model case
fn plist_groups(p: &Path) -> Option<GMap> {
    let v = plist::Value::from_file(p).ok()?;
    let d = v.as_dictionary()?;
    let mut g = GMap::new();
    for (k, v) in d {
        g.insert(k.clone(), v.as_array()?.iter().filter_map(|m| m.as_string().map(|s| s.to_string())).collect());
    }
    Some(g)
}
fn num_bits(v: &plist::Value) -> Option<u64> {
    if let Some(r) = v.as_real() {
        return Some(r.to_bits());
    }
    if let Some(i) = v.as_signed_integer() {
        return Some((i as f64).to_bits());
    }
    v.as_unsigned_integer().map(|u| (u as f64).to_bits())
}
fn plist_kerning(p: &Path) -> Option<KMap> {
    let v = plist::Value::from_file(p).ok()?;
    let d = v.as_dictionary()?;
    let mut k = KMap::new();
    for (a, row) in d {
        let mut r = BTreeMap::new();
        for (b, v) in row.as_dictionary()? {
            r.insert(b.clone(), num_bits(v)?);
        }
        k.insert(a.clone(), r);
    }
    Some(k)
}
fn plist_feat(ufo: &Path) -> Feat {
    let mut f = Feat::default();
    if let Ok(v) = plist::Value::from_file(ufo.join("lib.plist")) {
        if let Some(d) = v.as_dictionary() {
            f.classes = d.get("org.robofab.opentype.classes").and_then(|x| x.as_string()).map(|s| s.to_string());
            f.order = d
                .get("org.robofab.opentype.featureorder")
                .and_then(|x| x.as_array())
                .map(|a| a.iter().filter_map(|x| x.as_string().map(|s| s.to_string())).collect());
            f.blocks = d.get("org.robofab.opentype.features").and_then(|x| x.as_dictionary()).map(|b| {
                b.iter().filter_map(|(k, v)| v.as_string().map(|s| (k.clone(), s.to_string()))).collect()
            });
        }
    }
    f.fea = std::fs::read_to_string(ufo.join("features.fea")).ok();
    f
}
/// a fixture directory as a model case (names interned = glyph names and component bases of all
/// loaded layers; a glif's inner name cannot be recovered from the loaded font and is assumed to
/// equal the contents key)
fn case_from_ufo(ufo: &Path, font: &Font) -> Option<Case10> {
    let meta = plist::Value::from_file(ufo.join("metainfo.plist")).ok()?;
    let ver = meta.as_dictionary()?.get("formatVersion")?.as_unsigned_integer()? as u8;
    let groups = if ufo.join("groups.plist").exists() { Some(plist_groups(&ufo.join("groups.plist"))?) } else { None };
    let kerning = if ufo.join("kerning.plist").exists() { Some(plist_kerning(&ufo.join("kerning.plist"))?) } else { None };
    let mut glyphs = vec![];
    let mut seen = std::collections::BTreeSet::new();
    for l in font.layers.iter() {
        for g in l.iter() {
            let comps: Vec<String> = g.components.iter().map(|c| c.base.to_string()).collect();
            if seen.insert(g.name().to_string()) || !comps.is_empty() {
                glyphs.push(c15::GlyphSpec { name: g.name().to_string(), inner: None, comps });
            }
        }
    }
    Some(Case10 { base: Case { ver, groups, kerning, glyphs, shuffle: 0 }, feat: plist_feat(ufo) })
}

// ------------------------------------------------------------------ generator
const TAGS: [&str; 8] = ["kern", "liga", "aalt", "mark", "Zulu", "calt", "ss01", "KERN"];
const GNAMES: [&str; 10] = [
    "A", "@MMK_L_A", "@MMK_L_@MMK_L_A", "public.kern1.A", "A1", "@MMK_R_A", "public.kern2.A", "B", "@MMK_L_B", "@MMK_R_B",
];

pub fn gen_case(seed: u64, idx: u64) -> Case10 {
    let mut r = Rng::new(seed.wrapping_mul(0x2545_F491_4F6C_DD1D) ^ idx.wrapping_mul(0x9E37_79B9_7F4A_7C15) ^ 0xC10);
    let ver: u8 = match r.below(8) {
        0 | 1 => 3,
        2..=5 => 1,
        _ => 2,
    };
    // groups whose names collide after prefixing, and plain (non-kerning) groups; member lists
    // in non-sorted order, with a name listed two or three times, empty, or long: the ORDER of
    // the members is part of the font and of groups.plist
    const PLAIN: [&str; 4] = ["plain", "Ligatures", "zz.group", "figures.tab"];
    let mut g = GMap::new();
    let ng = 2 + r.below(5) as usize;
    for i in 0..ng {
        let plain = i >= 2 && r.chance(2, 5);
        let n = if plain {
            *r.pick(&PLAIN)
        } else if i < 2 {
            GNAMES[i + (r.below(2) as usize)]
        } else {
            *r.pick(&GNAMES)
        };
        // members are private to the group (index i), so that groups of one side never overlap
        let mut ms: Vec<String> = match r.below(10) {
            0..=2 => vec![format!("m{}", i)],
            3 => vec![],
            4 => (0..50 + r.below(25)).map(|j| format!("g{}_{:02}", i, j)).collect(),
            _ => (0..5 + r.below(8)).map(|j| format!("g{}_{:02}", i, j)).collect(),
        };
        for a in (1..ms.len()).rev() {
            let b = r.below(a as u64 + 1) as usize;
            ms.swap(a, b);
        }
        // a name two or three times: mostly in plain groups (in a kerning group, or in a group
        // that is copied to one, it makes every load fail - the same way every time)
        if ms.len() >= 5 && r.chance(if plain { 3 } else { 1 }, if plain { 5 } else { 15 }) {
            let d = ms[r.below(ms.len() as u64) as usize].clone();
            for _ in 0..1 + r.below(2) {
                let at = r.below(ms.len() as u64 + 1) as usize;
                ms.insert(at, d.clone());
            }
        }
        g.insert(n.to_string(), ms);
    }
    let names: Vec<String> = g.keys().cloned().collect();
    let mut k = KMap::new();
    for pi in 0..r.below(6) as usize {
        let a = if r.chance(3, 4) { r.pick(&names).clone() } else { "x".to_string() };
        let b = if r.chance(3, 4) { r.pick(&names).clone() } else { "y".to_string() };
        k.entry(a).or_default().insert(b, (((pi + 1) * 5) as f64).to_bits());
    }
    let mut glyphs = vec![];
    for gn in ["x", "y"] {
        if r.chance(2, 3) {
            glyphs.push(c15::GlyphSpec { name: gn.to_string(), inner: None, comps: vec![] });
        }
    }
    let base = Case { ver, groups: Some(g), kerning: if r.chance(1, 8) { None } else { Some(k) }, glyphs, shuffle: r.next() | 1 };
    // 2-6 feature blocks, mostly without an order list
    let nb = 2 + r.below(5) as usize;
    let mut tags: Vec<&str> = TAGS.to_vec();
    for i in (1..tags.len()).rev() {
        let j = r.below(i as u64 + 1) as usize;
        tags.swap(i, j);
    }
    let blocks: Vec<(String, String)> =
        tags[..nb].iter().map(|t| (t.to_string(), format!("feature {} {{ sub a by b{}; }} {};\n", t, r.below(9), t))).collect();
    let order = if r.chance(1, 4) {
        let mut o: Vec<String> = vec![];
        for _ in 0..r.below(5) {
            o.push(if r.chance(4, 5) { r.pick(&tags[..nb]).to_string() } else { "none".to_string() });
        }
        Some(o)
    } else {
        None
    };
    let feat = Feat {
        classes: if r.chance(1, 2) { Some("@c = [a b];".to_string()) } else { None },
        order,
        blocks: if r.chance(1, 12) { None } else { Some(blocks) },
        fea: if r.chance(1, 3) { Some("# features.fea\n".to_string()) } else { None },
        data: {
            // pairwise distinct, prefix-free keys, some nested (the store writes them in HashMap order)
            // ... and names / directory names that are equal ignoring (ASCII or Unicode) case:
            // distinct files on a case-sensitive file system, distinct keys of the store
            const DK: [&str; 14] = [
                "a.txt", "b/c.bin", "b/d/e.txt", "f/g.txt", "h.bin", "b/d/i.txt", "readme.txt", "README.txt", "ReadMe.txt",
                "Sub/x.txt", "sub/x.txt", "SUB/X.TXT", "\u{e9}.txt", "\u{c9}.txt",
            ];
            let mut v = vec![];
            if r.chance(2, 3) {
                let case_heavy = r.chance(1, 2);
                for (i, k) in DK.iter().enumerate() {
                    if r.chance(if case_heavy && i >= 6 { 4 } else { 1 }, if case_heavy && i >= 6 { 5 } else { 2 }) {
                        v.push((k.to_string(), vec![i as u8 + 65; 1 + r.below(4) as usize]));
                    }
                }
            }
            v
        },
        images: {
            let mut v = vec![];
            if r.chance(1, 3) {
                for k in ["i1.png", "i2.png", "i3.png", "a.png", "A.PNG", "A.png", "\u{e9}.png", "\u{c9}.png"] {
                    if r.chance(1, 2) {
                        let mut b = vec![0x89, b'P', b'N', b'G', 0x0d, 0x0a, 0x1a, 0x0a];
                        b.push(r.below(256) as u8);
                        v.push((k.to_string(), b));
                    }
                }
            }
            v
        },
        empty_dirs: {
            let mut v = vec![];
            if r.chance(1, 8) {
                v.push(r.pick(&["data/empty", "data/Sub/Empty", "data"]).to_string());
            }
            if r.chance(1, 30) {
                v.push("images/sub".to_string()); // makes the load fail (Subdir), the same way every time
            }
            v
        },
        symlinks: {
            let mut v = vec![];
            if r.chance(1, 25) {
                v.push(r.pick(&["data/link.txt", "data/Sub/LINK", "images/link.png"]).to_string());
            }
            v
        },
    };
    Case10 { base, feat }
}

fn fixture_ufos(repo: &Path) -> Vec<PathBuf> {
    fn walk(d: &Path, out: &mut Vec<PathBuf>) {
        if let Ok(rd) = std::fs::read_dir(d) {
            let mut es: Vec<_> = rd.filter_map(|e| e.ok()).map(|e| e.path()).collect();
            es.sort();
            for p in es {
                if p.is_dir() {
                    if p.extension().map(|x| x == "ufo").unwrap_or(false) && p.join("metainfo.plist").exists() {
                        out.push(p);
                    } else {
                        walk(&p, out);
                    }
                }
            }
        }
    }
    let mut v = vec![];
    walk(&repo.join("testdata"), &mut v);
    v
}

fn render_feat(f: &Feat, it: &mut Interner) -> String {
    let mut s = String::from("(");
    match &f.classes {
        None => s.push_str("None"),
        Some(c) => {
            let _ = write!(s, "Some {}", it.name(c));
        }
    }
    s.push_str(", ");
    match &f.order {
        None => s.push_str("None"),
        Some(o) => {
            let _ = write!(s, "Some [{}]", o.iter().map(|x| it.name(x).to_string()).collect::<Vec<_>>().join(";"));
        }
    }
    s.push_str(", ");
    match &f.blocks {
        None => s.push_str("None"),
        Some(b) => {
            // the BTreeMap the deserialiser builds: ascending byte order of the tags
            let m: BTreeMap<&String, &String> = b.iter().map(|(k, v)| (k, v)).collect();
            let _ = write!(s, "Some [{}]", m.iter().map(|(k, v)| format!("({},{})", it.name(k), it.name(v))).collect::<Vec<_>>().join(";"));
        }
    }
    s.push_str(", ");
    match &f.fea {
        None => s.push_str("None"),
        Some(t) => {
            let _ = write!(s, "Some {}", it.name(t));
        }
    }
    s.push(')');
    s
}

/// what the save left below data/ and images/: (directories, files with bytes), relative paths
#[derive(Clone, Debug, Default)]
struct StoreObs {
    dirs: Vec<String>,
    files: Vec<(String, Vec<u8>)>,
}
fn observe_store(root: &Path) -> StoreObs {
    fn walk(dir: &Path, rel: &str, o: &mut StoreObs) {
        let mut es: Vec<_> = match std::fs::read_dir(dir) {
            Ok(rd) => rd.filter_map(|e| e.ok()).collect(),
            Err(_) => return,
        };
        es.sort_by_key(|e| e.file_name());
        for e in es {
            let name = e.file_name().to_string_lossy().to_string();
            let r = if rel.is_empty() { name.clone() } else { format!("{}/{}", rel, name) };
            if e.path().is_dir() {
                o.dirs.push(r.clone());
                walk(&e.path(), &r, o);
            } else {
                o.files.push((r, std::fs::read(e.path()).unwrap_or_default()));
            }
        }
    }
    let mut o = StoreObs::default();
    walk(root, "", &mut o);
    o
}
fn g_path(p: &str, it: &mut Interner) -> String {
    format!("[{}]", p.split('/').map(|c| it.name(c).to_string()).collect::<Vec<_>>().join(";"))
}
fn g_bytes10(b: &[u8]) -> String {
    format!("[{}]", b.iter().map(|x| x.to_string()).collect::<Vec<_>>().join(";"))
}
/// (entries in ascending key order, observed directories, observed files) of one store
fn render_store(entries: &[(String, Vec<u8>)], obs: &StoreObs, it: &mut Interner) -> String {
    let mut es: Vec<&(String, Vec<u8>)> = entries.iter().collect();
    es.sort();
    format!(
        "([{}], [{}], [{}])",
        es.iter().map(|(k, v)| format!("({},{})", g_path(k, it), g_bytes10(v))).collect::<Vec<_>>().join(";"),
        obs.dirs.iter().map(|d| g_path(d, it)).collect::<Vec<_>>().join(";"),
        obs.files.iter().map(|(k, v)| format!("({},{})", g_path(k, it), g_bytes10(v))).collect::<Vec<_>>().join(";")
    )
}

struct Done {
    data_obs: StoreObs,
    images_obs: StoreObs,
    label: String,
    case: Option<Case10>,
    expected: Option<O>,
    features: Option<String>,
    diffs: Vec<String>,
    loaded: bool,
    converted: bool,
}

fn run_one(label: String, ufo_src: Option<&Path>, case: Option<Case10>, work: &Path, runs: usize, children: usize) -> Done {
    std::fs::create_dir_all(work).unwrap();
    let (ufo, case, first_dump) = match (ufo_src, case) {
        (None, Some(c)) => {
            // generated: written by the C15 writer (+ lib.plist / features.fea), first load dumped
            let feat = c.feat.clone();
            let sh = c.base.shuffle;
            let (ob, _) = c15::observe_with(work, &c.base, false, &move |ufo| write_extra(ufo, &feat, sh));
            let v = c15::judge(&c.base, &ob);
            (work.join("in.ufo"), Some(c), Some(v))
        }
        (Some(p), _) => (p.to_path_buf(), None, None),
        _ => unreachable!(),
    };
    let (first, diffs, _t0, _s0) = determinism(&ufo, work, runs, children);
    let mut d = Done {
        data_obs: observe_store(&work.join("out_a").join("data")),
        images_obs: observe_store(&work.join("out_a").join("images")),
        label,
        case,
        expected: None,
        features: None,
        diffs,
        loaded: first.is_some(),
        converted: false,
    };
    if let Some(f) = &first {
        d.features = Some(f.features.clone());
        if d.case.is_none() {
            // fixture: the model case is read from the files
            if let Some(c) = case_from_ufo(&ufo, f) {
                let (g, k) = c15_font_gk(f);
                let ob = c15::Observed { load: c15::LoadOut::Ok(g, k), save_direct: c15::SaveOut::NotRun, resave: c15::SaveOut::NotRun, resave_same: true };
                let v = c15::judge(&c.base, &ob);
                d.converted = v.converted;
                d.expected = Some(v.expected);
                d.case = Some(c);
            }
        }
    }
    if let Some(v) = first_dump {
        d.converted = v.converted;
        d.expected = Some(v.expected);
    }
    d
}
fn c15_font_gk(f: &Font) -> (GMap, KMap) {
    let g = f.groups.iter().map(|(n, ms)| (n.to_string(), ms.iter().map(|m| m.to_string()).collect())).collect();
    let k = f.kerning.iter().map(|(a, row)| (a.to_string(), row.iter().map(|(b, v)| (b.to_string(), v.to_bits())).collect())).collect();
    (g, k)
}

// ------------------------------------------------------------------ save determinism of built fonts
/// One call of `font.data.insert` / `font.images.insert`
#[derive(Clone, Debug)]
pub struct StoreCall {
    pub image: bool,
    pub key: String,
    pub bytes: Vec<u8>,
}
fn calls_json(cs: &[StoreCall]) -> serde_json::Value {
    serde_json::Value::Array(cs.iter().map(|c| serde_json::json!({"store": if c.image { "images" } else { "data" }, "key": c.key, "bytes": c.bytes})).collect())
}
fn calls_from(v: &serde_json::Value) -> Vec<StoreCall> {
    v.as_array()
        .map(|a| {
            a.iter()
                .map(|c| StoreCall {
                    image: c["store"].as_str() == Some("images"),
                    key: c["key"].as_str().unwrap_or("").to_string(),
                    bytes: c["bytes"].as_array().map(|b| b.iter().map(|x| x.as_u64().unwrap_or(0) as u8).collect()).unwrap_or_default(),
                })
                .collect()
        })
        .unwrap_or_default()
}

/// every alias spelling of a relative path: the same file, a different text
fn aliases(p: &str) -> Vec<String> {
    let mut v = vec![format!("./{}", p), format!("{}/.", p), format!("{}//", p), format!("a/../{}", p), format!("./././{}", p)];
    // case variant (a different file on a case-sensitive file system, the same on others)
    let sw: String = p.chars().map(|c| if c.is_lowercase() { c.to_ascii_uppercase() } else { c.to_ascii_lowercase() }).collect();
    if sw != p {
        v.push(sw);
    }
    if let Some(i) = p.find('/') {
        v.push(format!("{}/./{}", &p[..i], &p[i + 1..]));
        v.push(format!("{}//{}", &p[..i], &p[i + 1..]));
        v.push(format!("{}/x/../{}", &p[..i], &p[i + 1..]));
    }
    v
}

pub fn gen_store_calls(seed: u64, idx: u64) -> Vec<StoreCall> {
    let mut r = Rng::new(seed.wrapping_mul(0x2545_F491_4F6C_DD1D) ^ idx.wrapping_mul(0x9E37_79B9_7F4A_7C15) ^ 0x510E);
    const DK: [&str; 5] = ["notes.txt", "d/e.bin", "d/f/g.txt", "h", "d/i.txt"];
    const IK: [&str; 2] = ["i.png", "pic.png"];
    let mut calls = vec![];
    let mut n = 0u8;
    let mut png = |tag: u8| {
        let mut b = vec![0x89, b'P', b'N', b'G', 0x0d, 0x0a, 0x1a, 0x0a];
        b.push(tag);
        b
    };
    for k in DK.iter() {
        if r.chance(2, 3) {
            let mut spell = vec![k.to_string()];
            spell.extend(aliases(k));
            // every spelling is attempted, each with its own content, in a random order
            for i in (1..spell.len()).rev() {
                let j = r.below(i as u64 + 1) as usize;
                spell.swap(i, j);
            }
            for sp in spell {
                n = n.wrapping_add(1);
                calls.push(StoreCall { image: false, key: sp, bytes: vec![n; 1 + (n % 3) as usize] });
            }
        }
    }
    for k in IK.iter() {
        if r.chance(1, 2) {
            let mut spell = vec![k.to_string()];
            spell.extend(aliases(k));
            for i in (1..spell.len()).rev() {
                let j = r.below(i as u64 + 1) as usize;
                spell.swap(i, j);
            }
            for sp in spell {
                n = n.wrapping_add(1);
                calls.push(StoreCall { image: true, key: sp, bytes: png(n) });
            }
        }
    }
    // interleave the calls of different keys
    for i in (1..calls.len()).rev() {
        if r.chance(1, 2) {
            let j = r.below(i as u64 + 1) as usize;
            calls.swap(i, j);
        }
    }
    calls
}

/// lexical normal form of a key: its components without `.`; None if it has `..`, a root, ...
fn plain_path(key: &str) -> Option<Vec<String>> {
    let mut v = vec![];
    for c in Path::new(key).components() {
        match c {
            std::path::Component::Normal(x) => v.push(x.to_string_lossy().to_string()),
            std::path::Component::CurDir => {}
            _ => return None,
        }
    }
    Some(v)
}

pub struct BuiltOutcome {
    pub diffs: Vec<String>,
    pub alias_pairs: Vec<(String, String, String)>, // (store, key, key) accepted and denoting one path
    pub accepted: Vec<String>,                      // "store:key" in call order (first instance)
    pub save: String,                               // outcome of the first instance
    pub data_entries: Vec<(String, Vec<u8>)>,       // accepted keys (plain form) with their final content
    pub image_entries: Vec<(String, Vec<u8>)>,
    pub data_obs: StoreObs,
    pub images_obs: StoreObs,
    pub model_comparable: bool,
}

/// build the same font `k` times by the same call sequence (fresh HashMap seeds every time),
/// save every instance to its own fresh directory: all trees must be byte-identical
pub fn built_determinism(calls: &[StoreCall], work: &Path, k: usize) -> BuiltOutcome {
    std::fs::create_dir_all(work).unwrap();
    let mut diffs = vec![];
    let mut first_acc: Option<Vec<String>> = None;
    let mut first_keys: (Vec<String>, Vec<String>) = (vec![], vec![]);
    let mut first_save = String::new();
    let mut out = BuiltOutcome {
        diffs: vec![], alias_pairs: vec![], accepted: vec![], save: String::new(), data_entries: vec![], image_entries: vec![],
        data_obs: StoreObs::default(), images_obs: StoreObs::default(), model_comparable: false,
    };
    for inst in 0..k {
        let mut acc = vec![];
        let built = catch(|| {
            let mut f = Font::new();
            let mut acc = vec![];
            for c in calls {
                let r = if c.image { f.images.insert(PathBuf::from(&c.key), c.bytes.clone()) } else { f.data.insert(PathBuf::from(&c.key), c.bytes.clone()) };
                if r.is_ok() {
                    acc.push(format!("{}:{}", if c.image { "images" } else { "data" }, c.key));
                }
            }
            (f, acc)
        });
        let f = match built {
            Ok((f, a)) => {
                acc = a;
                f
            }
            Err(m) => {
                diffs.push(format!("building instance #{} panicked: {}", inst, m));
                continue;
            }
        };
        let dir = work.join(format!("built_{}", inst));
        let sv = save_hash(&f, &dir).replace(&format!("built_{}", inst), "built_N");
        if inst == 0 {
            let mut dk: Vec<String> = f.data.keys().map(|p| p.to_string_lossy().to_string()).collect();
            dk.sort();
            let mut ik: Vec<String> = f.images.keys().map(|p| p.to_string_lossy().to_string()).collect();
            ik.sort();
            first_keys = (dk, ik);
            first_acc = Some(acc.clone());
            first_save = sv.clone();
            out.data_obs = observe_store(&dir.join("data"));
            out.images_obs = observe_store(&dir.join("images"));
            for (keys, is_img) in [(&first_keys.0, false), (&first_keys.1, true)] {
                for key in keys.iter() {
                    let bytes = if is_img { f.images.get(Path::new(key)) } else { f.data.get(Path::new(key)) };
                    if let (Some(Ok(b)), Some(pp)) = (bytes, plain_path(key)) {
                        let e = (pp.join("/"), b.to_vec());
                        if is_img {
                            out.image_entries.push(e)
                        } else {
                            out.data_entries.push(e)
                        }
                    }
                }
            }
        } else {
            if Some(&acc) != first_acc.as_ref() {
                diffs.push(format!("instance #{} accepted a different set of insert calls than instance #0", inst));
            }
            if sv != first_save {
                diffs.push(format!("instance #{} of the same font saved a different tree: {} vs {}", inst, sv, first_save));
            }
        }
        let _ = std::fs::remove_dir_all(&dir);
    }
    // two accepted keys that denote the same path: the premise "pairwise distinct paths" of
    // C10_store_write_commutes fails, the surviving content depends on the write order
    for (keys, store) in [(&first_keys.0, "data"), (&first_keys.1, "images")] {
        for i in 0..keys.len() {
            for j in i + 1..keys.len() {
                let (a, b) = (plain_path(&keys[i]), plain_path(&keys[j]));
                if a.is_some() && a == b {
                    out.alias_pairs.push((store.to_string(), keys[i].clone(), keys[j].clone()));
                }
            }
        }
    }
    out.model_comparable = out.alias_pairs.is_empty() && first_save.starts_with("tree:");
    out.accepted = first_acc.unwrap_or_default();
    out.save = first_save;
    out.diffs = diffs;
    out
}

pub fn main(a: &Args) {
    // child process: one load, one save, two lines
    if let Some(i) = a.extra.iter().position(|x| x == "--child") {
        let ufo = PathBuf::from(&a.extra[i + 1]);
        let (f, t) = load_text(&ufo);
        println!("{}", t);
        if let Some(f) = f {
            std::fs::create_dir_all(&a.out).unwrap();
            println!("{}", save_hash(&f, &a.out.join("out_a")));
        } else {
            println!("-");
        }
        return;
    }
    let repo = a
        .extra
        .iter()
        .position(|x| x == "--repo")
        .and_then(|i| a.extra.get(i + 1))
        .map(PathBuf::from)
        .unwrap_or_else(|| PathBuf::from("/repo"));
    let th = a.thorough();
    let (runs, children) = if th { (36, 4) } else { (16, 4) };
    if let Some(rp) = &a.replay {
        let txt = std::fs::read_to_string(rp).expect("replay file");
        let j: serde_json::Value = serde_json::from_str(&txt).expect("json");
        let work = a.out.join("replay10");
        if j.get("store_calls").is_some() {
            let calls = calls_from(&j["store_calls"]);
            let o = built_determinism(&calls, &work, 32);
            println!("call sequence: {}", calls_json(&calls));
            println!("accepted: {:?}", o.accepted);
            println!("save of instance #0: {}", o.save);
            for (st, x, y) in &o.alias_pairs {
                println!("determinism oracle FAILS: the {} store accepted the keys {:?} and {:?}, which denote the same file: which content survives depends on the iteration order of the HashMap", st, x, y);
            }
            for x in &o.diffs {
                println!("determinism oracle FAILS: {}", x);
            }
            if o.alias_pairs.is_empty() && o.diffs.is_empty() {
                println!("determinism oracle: 32 instances built by the same calls saved byte-identical trees");
            }
            let _ = std::fs::remove_dir_all(&work);
            return;
        }
        let d = if let Some(p) = j["fixture"].as_str() {
            run_one(p.to_string(), Some(Path::new(p)), None, &work, 40, 4)
        } else {
            run_one("replay".into(), None, Some(Case10::from_json(&j["case"])), &work, 40, 4)
        };
        println!("ufo: {}", d.label);
        if let Some(c) = &d.case {
            println!("case: {}", c.to_json());
        }
        println!("loaded: {}  feature text: {:?}", d.loaded, d.features);
        if d.diffs.is_empty() {
            println!("determinism oracle: 40 in-process loads, 4 child processes, saved trees: all equal");
        }
        for x in &d.diffs {
            println!("determinism oracle FAILS: {}", x);
        }
        let _ = std::fs::remove_dir_all(&work);
        return;
    }
    std::fs::create_dir_all(&a.out).unwrap();
    let fixtures = fixture_ufos(&repo);
    let ngen = if th { 5000 } else { 300 };
    let total = fixtures.len() + ngen;
    let nthreads = std::thread::available_parallelism().map(|x| x.get()).unwrap_or(4).min(8).max(1);
    let chunk = (total + nthreads - 1) / nthreads;
    let mut results: Vec<Vec<Done>> = vec![];
    std::thread::scope(|sc| {
        let mut hs = vec![];
        for t in 0..nthreads {
            let fixtures = &fixtures;
            let out = a.out.clone();
            let seed = a.seed;
            hs.push(sc.spawn(move || {
                let work = out.join(format!("w10_{}", t));
                let mut v = vec![];
                for i in (t * chunk)..((t + 1) * chunk).min(total) {
                    if i < fixtures.len() {
                        v.push(run_one(fixtures[i].to_string_lossy().to_string(), Some(&fixtures[i]), None, &work, runs, children));
                    } else {
                        let c = gen_case(seed, (i - fixtures.len()) as u64);
                        v.push(run_one(format!("generated #{}", i - fixtures.len()), None, Some(c), &work, runs, children));
                    }
                }
                let _ = std::fs::remove_dir_all(&work);
                v
            }));
        }
        for h in hs {
            results.push(h.join().unwrap());
        }
    });
    let mut it = Interner::default();
    let mut cases = String::new();
    let mut fails = vec![];
    let (mut nloaded, mut nconv, mut nmodel, mut nfeat, mut nnoorder) = (0u64, 0u64, 0u64, 0u64, 0u64);
    let mut idx = 0usize;
    let mut labels = vec![];
    for ch in &results {
        for d in ch {
            labels.push(d.label.clone());
            nloaded += d.loaded as u64;
            nconv += d.converted as u64;
            if let (Some(c), Some(e), Some(ft)) = (&d.case, &d.expected, &d.features) {
                nmodel += 1;
                if c.feat.blocks.is_some() && c.base.ver == 1 {
                    nfeat += 1;
                    if c.feat.order.is_none() {
                        nnoorder += 1;
                    }
                }
                let _ = write!(cases, "({}, ({}, {}, EL [", idx, c15::render_case(&c.base, &mut it), render_feat(&c.feat, &mut it));
                // the load outcome (the direct save of C15 is not part of this run)
                let e3 = match e {
                    O::L(v) if v.len() == 2 => v[0].clone(),
                    other => other.clone(),
                };
                e3.render(&mut cases, &mut it);
                let _ = write!(cases, ";EI {}]", it.name(ft));
                // the two store-writing loops: entries as written into the UFO (generated cases only)
                let generated = d.label.starts_with("generated") && d.loaded;
                let no: Vec<(String, Vec<u8>)> = vec![];
                let noobs = StoreObs::default();
                let ds = render_store(if generated { &c.feat.data } else { &no }, if generated { &d.data_obs } else { &noobs }, &mut it);
                let is = render_store(if generated { &c.feat.images } else { &no }, if generated { &d.images_obs } else { &noobs }, &mut it);
                let _ = write!(cases, ", {}, {}))\n", ds, is);
            }
            for x in &d.diffs {
                fails.push(serde_json::json!({"index": idx, "ufo": d.label, "what": x,
                    "case": d.case.as_ref().filter(|_| d.label.starts_with("generated")).map(|c| c.to_json()),
                    "fixture": if d.label.starts_with("generated") { None } else { Some(d.label.clone()) }}));
            }
            idx += 1;
        }
    }
    // ---- fonts built k times by the same store calls (alias spellings of every key attempted)
    let nbuilt = if th { 2000 } else { 160 };
    let kinst = if th { 16 } else { 8 };
    let mut store_cases = String::new();
    let (mut nb_alias, mut nb_model, mut nb_savefail, mut nb_accepted) = (0u64, 0u64, 0u64, 0u64);
    {
        let chunkb = (nbuilt + nthreads - 1) / nthreads;
        let mut outs: Vec<Vec<(usize, Vec<StoreCall>, BuiltOutcome)>> = vec![];
        std::thread::scope(|sc| {
            let mut hs = vec![];
            for t in 0..nthreads {
                let out = a.out.clone();
                let seed = a.seed;
                hs.push(sc.spawn(move || {
                    let work = out.join(format!("wb_{}", t));
                    let mut v = vec![];
                    for i in (t * chunkb)..((t + 1) * chunkb).min(nbuilt) {
                        let calls = gen_store_calls(seed, i as u64);
                        let o = built_determinism(&calls, &work, kinst);
                        v.push((i, calls, o));
                    }
                    let _ = std::fs::remove_dir_all(&work);
                    v
                }));
            }
            for h in hs {
                outs.push(h.join().unwrap());
            }
        });
        for ch in outs {
            for (i, calls, o) in ch {
                let gidx = total + i;
                nb_accepted += o.accepted.len() as u64;
                for (st, x, y) in &o.alias_pairs {
                    nb_alias += 1;
                    fails.push(serde_json::json!({"index": gidx, "ufo": format!("built font #{}", i),
                        "what": format!("the {} store accepted the keys {:?} and {:?}, which denote the same file: which content survives a save depends on the iteration order of the HashMap (premise of C10_store_write_commutes fails)", st, x, y),
                        "alias_pair": [x, y], "store_calls": calls_json(&calls)}));
                }
                for x in &o.diffs {
                    fails.push(serde_json::json!({"index": gidx, "ufo": format!("built font #{}", i), "what": x, "store_calls": calls_json(&calls)}));
                }
                if !o.save.starts_with("tree:") {
                    nb_savefail += 1;
                }
                if o.model_comparable {
                    nb_model += 1;
                    let _ = writeln!(store_cases, "({}, ({}, {}))", gidx, render_store(&o.data_entries, &o.data_obs, &mut it), render_store(&o.image_entries, &o.images_obs, &mut it));
                }
            }
        }
    }
    write_file(&a.out.join("store_cases.txt"), &store_cases);
    write_file(&a.out.join("cases.txt"), &cases);
    write_file(&a.out.join("names.json"), &serde_json::to_string(&it.names).unwrap());
    write_file(&a.out.join("oracle.json"), &serde_json::to_string(&fails).unwrap());
    let summ = serde_json::json!({
        "ufos": total, "fixtures": fixtures.len(), "generated": ngen, "in_process_loads_per_ufo": runs,
        "child_processes_per_ufo": children, "loaded": nloaded, "converted_groups": nconv,
        "compared_with_model": nmodel, "with_feature_blocks_v1": nfeat, "without_order_list": nnoorder,
        "built_fonts": nbuilt, "instances_per_built_font": kinst, "built_insert_calls_accepted": nb_accepted,
        "built_alias_pairs_accepted": nb_alias, "built_compared_with_write_loop_model": nb_model, "built_save_failed": nb_savefail,
        "determinism_failures": fails.len(), "child_runs_skipped": CHILD_SKIPPED.load(std::sync::atomic::Ordering::Relaxed), "labels": labels.iter().take(fixtures.len()).collect::<Vec<_>>(),
    });
    write_file(&a.out.join("summary.json"), &summ.to_string());
}
