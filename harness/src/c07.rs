//! C07 (function level): `norad::user_name_to_file_name` on enumerated and generated names.
//! Every case is a chain: the name is converted k+1 times, each time with the lower-cased
//! earlier results as the taken-set (what a container does). Writes the cases as compact text
//! for the model run (see coq/Run/C07.v), the run's is_uppercase / to_lowercase tables, and the
//! verdicts of the property oracle evaluated on what norad returned.
use crate::util::*;
use norad::user_name_to_file_name;
use std::collections::{BTreeMap, BTreeSet, HashSet};
use std::fmt::Write as _;

pub const DOCUMENTED_PANIC: &str = "Could not find a unique file name after 99 tries";
// the lists of the UFO specification's "common user name to file name" convention, written
// down independently of norad's source (the oracle must not read them from the code under test)
const SPEC_ILLEGAL: &str = "\"*+/:<>?[\\]()|";
const SPEC_RESERVED: [&str; 22] = [
    "con", "prn", "aux", "nul", "com1", "com2", "com3", "com4", "com5", "com6", "com7", "com8", "com9", "lpt1",
    "lpt2", "lpt3", "lpt4", "lpt5", "lpt6", "lpt7", "lpt8", "lpt9",
];
/// characters with a meaning in the text format of the cases; never generated
const MARKUP: &str = "#~^%$@\n";

#[derive(Clone)]
pub struct Case {
    pub name: String,
    pub prefix: String,
    pub suffix: String,
    /// chain depth: k+1 conversions
    pub k: usize,
    pub gen: &'static str,
}

pub struct Step {
    pub taken: Vec<String>,
    pub result: Option<String>,
    pub panic_msg: Option<String>,
    pub calls: Vec<(String, bool)>,
    pub known: bool,
}

pub fn convert(name: &str, prefix: &str, suffix: &str, taken: &[String]) -> Step {
    let set: HashSet<&str> = taken.iter().map(|s| s.as_str()).collect();
    let mut calls: Vec<(String, bool)> = Vec::new();
    let r = catch(|| {
        user_name_to_file_name(name, prefix, suffix, |cand| {
            let ok = !set.contains(cand);
            calls.push((cand.to_string(), ok));
            ok
        })
    });
    let (result, panic_msg) = match r {
        Ok(p) => (Some(p.to_string_lossy().to_string()), None),
        Err(m) => (None, Some(m)),
    };
    // known class F1, decided from what was observed: the first candidate was rejected, it
    // leaves no room for two digits, and the function's own guard (which looks at the length
    // without the suffix) did not apply
    let known = match calls.first() {
        Some((_, false)) => {
            match catch(|| user_name_to_file_name(name, prefix, suffix, |_| true)) {
                Ok(first) => {
                    let first = first.to_string_lossy().to_string();
                    let stem = first.len() - suffix.len().min(first.len());
                    stem + 2 <= 255 && stem + 2 + suffix.len() > 255
                }
                Err(_) => false,
            }
        }
        _ => false,
    };
    Step { taken: taken.to_vec(), result, panic_msg, calls, known }
}

pub fn run_chain(c: &Case) -> Vec<Step> {
    let mut taken: Vec<String> = Vec::new();
    let mut steps = Vec::new();
    for _ in 0..=c.k {
        let st = convert(&c.name, &c.prefix, &c.suffix, &taken);
        let r = st.result.clone();
        steps.push(st);
        match r {
            Some(r) => taken.push(r.to_lowercase()),
            None => break,
        }
    }
    steps
}

pub fn name_valid(s: &str) -> bool {
    !s.is_empty() && !s.chars().any(|c| (c as u32) < 0x20 || c as u32 == 0x7f || (0x80..=0x9f).contains(&(c as u32)))
}

/// every clause of the property on one returned name; `kind` 'g' = glif file, 'l' = layer dir.
/// Returns the failed clauses.
pub fn portable_clauses(r: &str, kind: char) -> Vec<&'static str> {
    let mut bad = Vec::new();
    let p = std::path::Path::new(r);
    let comps: Vec<_> = p.components().collect();
    let single = comps.len() == 1
        && matches!(comps[0], std::path::Component::Normal(_))
        && !r.contains('/')
        && !r.contains('\\')
        && r != "."
        && r != "..";
    if !single {
        bad.push("single-component");
    }
    if r.len() > 255 {
        bad.push("length<=255");
    }
    if r.chars().any(|c| SPEC_ILLEGAL.contains(c) || (c as u32) < 0x20 || c as u32 == 0x7f) {
        bad.push("no-illegal-character");
    }
    let stem = r.split('.').next().unwrap_or("").to_ascii_lowercase();
    if SPEC_RESERVED.contains(&stem.as_str()) {
        bad.push("not-reserved");
    }
    if kind == 'g' && r.starts_with('.') {
        bad.push("no-leading-period");
    }
    if r.ends_with('.') || r.ends_with(' ') {
        bad.push("no-trailing-period-or-space");
    }
    if kind == 'g' && !(r.ends_with(".glif") && r.len() > 5) {
        bad.push("glif-suffix");
    }
    if kind == 'l' && !(r.starts_with("glyphs.") && r.len() > 7) {
        bad.push("glyphs-prefix");
    }
    bad
}

/// the property's clauses on one conversion step of a chain; returns (failed clauses, class)
pub fn oracle_step(c: &Case, st: &Step) -> (Vec<String>, &'static str) {
    let mut fails: Vec<String> = Vec::new();
    match (&st.result, &st.panic_msg) {
        (None, Some(m)) => {
            if !m.contains(DOCUMENTED_PANIC) {
                fails.push(format!("undocumented panic: {}", m));
            } else if st.calls.len() != 100 || st.calls.iter().any(|(_, ok)| *ok) {
                fails.push("documented panic although fewer than 100 candidates were rejected".into());
            }
        }
        (Some(r), _) => {
            // never returns a candidate its caller rejected
            let low = r.to_lowercase();
            if st.taken.contains(&low) || st.calls.last().map(|(s, ok)| (s.as_str(), *ok)) != Some((low.as_str(), true)) {
                fails.push("returned a candidate the caller rejected".into());
            }
            let kind = match (c.prefix.as_str(), c.suffix.as_str()) {
                ("", ".glif") => Some('g'),
                ("glyphs.", "") => Some('l'),
                _ => None,
            };
            if name_valid(&c.name) {
                match kind {
                    Some(k) => {
                        for cl in portable_clauses(r, k) {
                            fails.push(cl.to_string());
                        }
                    }
                    None => {
                        // any other affix pair: the clauses that do not speak about '.glif' /
                        // 'glyphs.', each under the hypotheses of its theorem in Props/C07.v
                        let (pl, sl) = (c.prefix.len(), c.suffix.len());
                        if sl <= 255 && r.len() > 255 {
                            fails.push("length<=255".into());
                        }
                        if r.chars().any(|ch| SPEC_ILLEGAL.contains(ch) || (ch as u32) < 0x20 || ch as u32 == 0x7f) {
                            fails.push("no-illegal-character".into());
                        }
                        if sl <= 247 {
                            let stem = r.split('.').next().unwrap_or("").to_ascii_lowercase();
                            if SPEC_RESERVED.contains(&stem.as_str()) {
                                fails.push("not-reserved".into());
                            }
                            if pl == 0 && r.starts_with('.') {
                                fails.push("no-leading-period".into());
                            }
                        }
                        if pl + 5 + sl <= 255 && sl <= 247 {
                            if r.ends_with('.') || r.ends_with(' ') {
                                fails.push("no-trailing-period-or-space".into());
                            }
                            if r.is_empty() || r == "." || r == ".." || r.contains('/') || r.contains('\\') {
                                fails.push("single-component".into());
                            }
                        }
                        if !r.ends_with(&c.suffix) || (pl + sl + 2 <= 255 && c.prefix != "con." && !r.starts_with(&c.prefix)) {
                            fails.push("affixes-kept".into());
                        }
                    }
                }
            }
        }
        _ => {}
    }
    let only_len = !fails.is_empty() && fails.iter().all(|f| f == "length<=255");
    (fails, if only_len && st.known { "len257" } else { "" })
}

/// run-length markup of the text format: ~n~c, ^n^cd
pub fn rle(s: &str) -> String {
    let cs: Vec<char> = s.chars().collect();
    let mut out = String::new();
    let mut i = 0;
    while i < cs.len() {
        let mut best = (1usize, 1usize);
        for bl in 1..=2usize {
            if i + bl > cs.len() {
                break;
            }
            let mut k = 1;
            while i + (k + 1) * bl <= cs.len() && cs[i + k * bl..i + (k + 1) * bl] == cs[i..i + bl] {
                k += 1;
            }
            if k * bl > best.0 * best.1 {
                best = (bl, k);
            }
        }
        if best.0 * best.1 >= 6 {
            let m = if best.0 == 1 { '~' } else { '^' };
            let _ = write!(out, "{}{}{}", m, best.1, m);
            for c in &cs[i..i + best.0] {
                out.push(*c);
            }
            i += best.0 * best.1;
        } else {
            out.push(cs[i]);
            i += 1;
        }
    }
    out
}

fn field(c: &Case, st: &Step) -> String {
    let mut f = match &st.result {
        None => "%".to_string(),
        Some(r) => {
            if r.len() >= c.prefix.len() + c.suffix.len() && r.starts_with(&c.prefix) && r.ends_with(&c.suffix) {
                let mid = &r[c.prefix.len()..r.len() - c.suffix.len()];
                let e = rle(mid);
                // a middle part that starts like a marker is sent in full
                if e.starts_with('%') || e.starts_with('$') {
                    format!("${}", rle(r))
                } else {
                    e
                }
            } else {
                format!("${}", rle(r))
            }
        }
    };
    if st.known {
        f.push('@');
    }
    f
}

fn line(c: &Case, steps: &[Step]) -> String {
    let mut s = format!("{}#{}#{}", rle(&c.prefix), rle(&c.suffix), rle(&c.name));
    for st in steps {
        s.push('#');
        s.push_str(&field(c, st));
    }
    s.push('\n');
    s
}

pub const ALPHABET: [char; 15] = ['.', ' ', 'a', 'A', '_', '/', 'c', 'o', 'n', '1', 'É', '€', '😀', 'ǅ', 'İ'];
// characters with interesting case behaviour / widths (U+03A3 is deliberately absent: its
// lower-casing depends on context, see DESIGN section 8 C07)
const POOL: [char; 44] = [
    'a', 'b', 'z', 'A', 'B', 'Z', '.', ' ', '_', '-', '0', '9', ':', '?', '"', '(', ')', '[', ']', '*', '/', '\\', '+',
    '<', '>', '|', 'é', 'É', 'ß', 'ẞ', 'Ǆ', 'ǅ', 'ǆ', 'İ', 'ı', 'K', 'Ⅷ', 'Ⓐ', '𝐀', '𐐀', 'А', 'α', '中', '😀',
];
const CONFIGS: [(&str, &str); 3] = [("", ".glif"), ("glyphs.", ""), ("", "")];

fn gen_listed(a: &Args, rng: &mut Rng) -> Vec<Case> {
    let mut cs: Vec<Case> = Vec::new();
    let mk = |name: String, p: &str, s: &str, k: usize, gen: &'static str| Case {
        name,
        prefix: p.to_string(),
        suffix: s.to_string(),
        k,
        gen,
    };
    // reserved words with and without decorations, several affix configurations
    let confs: [(&str, &str); 6] =
        [("", ".glif"), ("glyphs.", ""), ("", ""), ("con.", ".con"), ("hello.", ".glif"), ("", ".x")];
    for w in SPEC_RESERVED {
        let mut up = w.to_string();
        up[..1].make_ascii_uppercase();
        let vars = [
            w.to_string(),
            format!("{}.x", w),
            format!("{}x", w),
            format!("x{}", w),
            format!("{}.", w),
            format!("{} ", w),
            up,
            format!("{}0", w),
            format!("_{}", w),
            format!("{}..", w),
            w.to_uppercase(),
        ];
        for v in vars {
            for (p, s) in confs {
                cs.push(mk(v.clone(), p, s, 1, "reserved"));
            }
        }
    }
    // lengths around every clip boundary, in every UTF-8 width mix
    let fillers = ['a', 'A', 'é', '€', '😀', '.', ' '];
    let tails: Vec<&str> = if a.thorough() {
        vec!["", "a", "A", "é", "€", "😀", ".", " ", "a.", ". ", "é😀", "€a", "😀é", "A.", " a", "€€", "😀😀", ".a"]
    } else {
        vec!["", "a", "A", "é", "€", "😀", ".", " ", "a.", "é😀"]
    };
    let confs4: [(&str, &str); 4] = [("", ".glif"), ("glyphs.", ""), ("", ""), ("hello.", ".glif")];
    for (p, s) in confs4 {
        let boundary = 255 - s.len();
        let (lo, hi) = if a.thorough() { (boundary - 12, boundary + 8) } else { (boundary - 4, boundary + 3) };
        for f in fillers {
            let w = if f == 'A' { 2 } else { f.len_utf8() };
            for target in lo..=hi {
                let k = target.saturating_sub(p.len()) / w;
                for t in &tails {
                    let name: String = std::iter::repeat(f).take(k).chain(t.chars()).collect();
                    cs.push(mk(name, p, s, 1, "clip-boundary"));
                }
            }
        }
    }
    // reserved stems followed by a period and a long tail, around the clip boundary: the '_' in
    // front of the stem must be counted before clipping
    for w in SPEC_RESERVED {
        for (p, s) in [("", ".glif"), ("", ""), ("glyphs.", ""), ("hello.", ".glif"), ("", ".x")] {
            let lens: Vec<usize> = if a.thorough() { (245..=260).collect() } else { vec![245, 249, 250, 251, 254, 255, 256, 260] };
            for total in lens {
                // sanitised length of prefix + name = total
                let tail = total.saturating_sub(p.len() + w.len() + 1);
                let filler = if (total + w.len()) % 3 == 0 { 'é' } else { 'a' };
                let k = tail / filler.len_utf8();
                let name: String = w.chars().chain(".".chars()).chain(std::iter::repeat(filler).take(k)).collect();
                cs.push(mk(name, p, s, 1, "reserved-clip"));
            }
        }
    }
    // taken-sets that force 0 .. 99 clashes and then the documented panic
    let chain_names: Vec<String> = vec![
        "a".into(),
        "A".into(),
        "Ab".into(),
        "con".into(),
        ".".into(),
        "a.".into(),
        "İ".into(),
        "ǅ".into(),
        "a".repeat(300),
        "A".repeat(300),
        "a_".repeat(150),
        "😀".repeat(70),
        format!("{}é", "a".repeat(249)),
        format!("{}.", "a".repeat(254)),
        " ".repeat(260),
    ];
    for (i, nm) in chain_names.iter().enumerate() {
        for (ci, (p, s)) in CONFIGS.iter().enumerate() {
            // the full 0..99 clashes + panic for the short names and four long combinations
            let long_full = matches!((i, ci), (8, 0) | (8, 2) | (9, 1) | (10, 0));
            let k = if nm.len() < 20 || long_full || a.thorough() { 100 } else { 12 };
            cs.push(mk(nm.clone(), p, s, k, "chain"));
        }
    }
    // extreme suffixes (saturating subtractions)
    for sl in [244usize, 247, 250, 251, 252, 253, 254, 255, 256, 300] {
        let suffix = format!(".{}", "s".repeat(sl - 1));
        for nm in ["conx", "a", "😀😀", "con", "..", "A"] {
            cs.push(mk(nm.to_string(), "", &suffix, 1, "long-suffix"));
            cs.push(mk(nm.to_string(), "glyphs.", &suffix, 1, "long-suffix"));
        }
    }
    // random names over the pool, random affixes, short chains
    let nrand = if a.thorough() { 8_000 } else { 1_000 };
    for i in 0..nrand {
        let len = if i % 8 == 0 { rng.range(100, 300) } else { rng.range(1, 24) } as usize;
        let mut name = String::new();
        let dominant = *rng.pick(&POOL);
        for _ in 0..len {
            if rng.chance(1, 2) {
                name.push(dominant);
            } else {
                name.push(*rng.pick(&POOL));
            }
        }
        let (p, s) = *rng.pick(&confs);
        cs.push(mk(name, p, s, rng.below(4) as usize, "random"));
    }
    cs
}

struct Stats {
    chars: BTreeSet<char>,
    by_gen: BTreeMap<&'static str, u64>,
    cases: u64,
    steps: u64,
    clash: u64,
    panics: u64,
    clipped: u64,
    known: u64,
    oracle_failures: u64,
    distinct: HashSet<(String, String, String)>,
    oracle: String,
    index: String,
}

fn account(c: &Case, steps: &[Step], shard: &str, local: usize, st: &mut Stats) {
    for ch in c.name.chars().chain(c.prefix.chars()).chain(c.suffix.chars()) {
        assert!(!MARKUP.contains(ch) && ch != 'Σ', "generator produced a reserved character");
        st.chars.insert(ch);
    }
    st.cases += 1;
    *st.by_gen.entry(c.gen).or_insert(0) += 1;
    let mut nontrivial = c.name.chars().any(|ch| !ch.is_ascii_lowercase());
    if c.name.len() + c.prefix.len() + c.suffix.len() > 255 {
        st.clipped += 1;
        nontrivial = true;
    }
    for (i, s) in steps.iter().enumerate() {
        st.steps += 1;
        if s.calls.len() > 1 {
            st.clash += 1;
        }
        if s.known {
            st.known += 1;
        }
        if s.result.is_none() {
            st.panics += 1;
        }
        let (fails, class) = oracle_step(c, s);
        if !fails.is_empty() {
            st.oracle_failures += 1;
            let _ = writeln!(
                st.oracle,
                "{}",
                serde_json::json!({"shard": shard, "local": local, "step": i, "failed": fails, "class": class,
                    "name": c.name, "prefix": c.prefix, "suffix": c.suffix, "k": i, "result": s.result, "panic": s.panic_msg})
            );
        }
    }
    if nontrivial {
        st.distinct.insert((c.name.clone(), c.prefix.clone(), c.suffix.clone()));
    }
    let _ = writeln!(
        st.index,
        "{}",
        serde_json::json!({"shard": shard, "local": local, "name": c.name, "prefix": c.prefix, "suffix": c.suffix, "k": c.k,
            "gen": c.gen, "results": steps.iter().take(3).map(|s| s.result.clone()).collect::<Vec<_>>()})
    );
}

pub fn main(a: &Args) {
    if let Some(p) = &a.replay {
        replay(p);
        return;
    }
    let mut rng = Rng::new(a.seed);
    let mut st = Stats {
        chars: "_0123456789".chars().collect(),
        by_gen: BTreeMap::new(),
        cases: 0,
        steps: 0,
        clash: 0,
        panics: 0,
        clipped: 0,
        known: 0,
        oracle_failures: 0,
        distinct: HashSet::new(),
        oracle: String::new(),
        index: String::new(),
    };
    let mut shards: Vec<serde_json::Value> = Vec::new();
    // 1. exhaustive: all strings of length <= 3 over the alphabet, three affix configurations,
    //    each converted twice (without and with a clash). Enumerated inside Coq in the same
    //    order; only the expected results are written.
    let n = ALPHABET.len();
    for (ci, (p, s)) in CONFIGS.iter().enumerate() {
        // shard "tail = none": lengths 0, 1, 2; shards "tail = x": length 3 ending in x
        let mut groups: Vec<(String, Vec<usize>, Option<char>)> = vec![(format!("E{}_short", ci), vec![0, 1, 2], None)];
        for (ti, t) in ALPHABET.iter().enumerate() {
            groups.push((format!("E{}_t{}", ci, ti), vec![2], Some(*t)));
        }
        for (sid, lens, tail) in groups {
            let mut text = String::new();
            let mut parts: Vec<serde_json::Value> = Vec::new();
            let mut local = 0usize;
            for len in lens {
                let count = n.pow(len as u32);
                parts.push(serde_json::json!({"len": len, "count": count}));
                for idx in 0..count {
                    let mut x = idx;
                    let mut name = String::new();
                    for _ in 0..len {
                        name.push(ALPHABET[x % n]);
                        x /= n;
                    }
                    if let Some(t) = tail {
                        name.push(t);
                    }
                    let c = Case { name, prefix: p.to_string(), suffix: s.to_string(), k: 1, gen: "exhaustive" };
                    let steps = run_chain(&c);
                    let fs: Vec<String> = steps.iter().map(|s| field(&c, s)).collect();
                    text.push_str(&fs.join("#"));
                    text.push('\n');
                    account(&c, &steps, &sid, local, &mut st);
                    local += 1;
                }
            }
            write_file(&a.out.join(format!("{}.txt", sid)), &text);
            shards.push(serde_json::json!({"id": sid, "kind": "enum", "prefix": p, "suffix": s, "parts": parts,
                "tail": tail.map(|t| t as u32), "cases": local}));
        }
    }
    // 2. listed cases
    let listed = gen_listed(a, &mut rng);
    let per = 250usize;
    let mut heavy: Vec<&Case> = Vec::new();
    let mut light: Vec<&Case> = Vec::new();
    for c in &listed {
        if c.k > 10 {
            heavy.push(c)
        } else {
            light.push(c)
        }
    }
    let mut groups: Vec<Vec<&Case>> = light.chunks(per).map(|x| x.to_vec()).collect();
    groups.extend(heavy.chunks(2).map(|x| x.to_vec()));
    for (gi, g) in groups.iter().enumerate() {
        let sid = format!("L{}", gi);
        let mut text = String::new();
        for (local, c) in g.iter().enumerate() {
            let steps = run_chain(c);
            text.push_str(&line(c, &steps));
            account(c, &steps, &sid, local, &mut st);
        }
        write_file(&a.out.join(format!("{}.txt", sid)), &text);
        // rough cost of the model run, in units of one byte of case text
        let extra: usize = g.iter().map(|c| if c.k > 10 { (c.k * c.k / 2) * (c.name.len().min(250) + 10) / 12 } else { 0 }).sum();
        shards.push(serde_json::json!({"id": sid, "kind": "listed", "cases": g.len(), "weight": text.len() + extra}));
    }
    // tables from rustc's std for exactly the characters in use
    let mut up: Vec<String> = Vec::new();
    let mut low: Vec<String> = Vec::new();
    for ch in &st.chars {
        if ch.is_uppercase() {
            up.push(format!("{}", *ch as u32));
        }
        let l: Vec<char> = ch.to_lowercase().collect();
        if l != vec![*ch] {
            low.push(format!("({},{})", *ch as u32, g_nlist(l.iter().map(|c| *c as u64))));
        }
    }
    write_file(
        &a.out.join("tables.v"),
        &format!(
            "Definition up : list N := {}.\nDefinition low : list (N * list N) := {}.\nDefinition alphabet : list N := {}.\n",
            g_list(&up),
            g_list(&low),
            g_nlist(ALPHABET.iter().map(|c| *c as u64))
        ),
    );
    write_file(&a.out.join("oracle.jsonl"), &st.oracle);
    write_file(&a.out.join("index.jsonl"), &st.index);
    let summary = serde_json::json!({
        "shards": shards,
        "cases": st.cases, "conversions": st.steps, "by_generator": st.by_gen, "conversions_with_clash": st.clash,
        "documented_panics": st.panics, "names_longer_than_255_before_clipping": st.clipped,
        "conversions_in_known_class_len257": st.known, "oracle_failures": st.oracle_failures,
        "distinct_nontrivial": st.distinct.len(), "characters_in_use": st.chars.len(),
        "uppercase_in_use": up.len(), "lowercase_mappings_in_use": low.len(),
    });
    write_file(&a.out.join("summary.json"), &summary.to_string());
}

fn cps(v: &serde_json::Value) -> String {
    match v {
        serde_json::Value::String(s) => s.clone(),
        serde_json::Value::Array(a) => a.iter().filter_map(|x| x.as_u64()).filter_map(|x| char::from_u32(x as u32)).collect(),
        _ => String::new(),
    }
}

fn replay(p: &std::path::Path) {
    let v: serde_json::Value = serde_json::from_str(&std::fs::read_to_string(p).expect("replay file")).expect("json");
    let inp = if v.get("input").is_some() { &v["input"] } else { &v };
    let c = Case {
        name: cps(&inp["name"]),
        prefix: cps(&inp["prefix"]),
        suffix: cps(&inp["suffix"]),
        k: inp["k"].as_u64().unwrap_or(0) as usize,
        gen: "replay",
    };
    println!("name      = {:?} ({} bytes)", c.name, c.name.len());
    println!("prefix    = {:?}  suffix = {:?}  conversions = {} (each with the earlier results taken)", c.prefix, c.suffix, c.k + 1);
    let steps = run_chain(&c);
    for (i, s) in steps.iter().enumerate() {
        if i + 3 < steps.len() && i > 1 {
            continue;
        }
        match (&s.result, &s.panic_msg) {
            (Some(r), _) => println!("step {:3}: returned {:?} ({} bytes), {} candidates offered", i, r, r.len(), s.calls.len()),
            (None, m) => println!("step {:3}: panic {:?}", i, m),
        }
        let (fails, class) = oracle_step(&c, s);
        println!("          failed clauses = {:?}  known class = {:?}", fails, class);
    }
}
