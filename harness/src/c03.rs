//! C03 — search for panics / aborts / hangs (this part is TESTING, labelled as such in the evidence).
//!
//!   c03 run    --tier T --seed S --out DIR      master: spawns workers, one per stream shard,
//!                                               restarts them after an abort or a hang
//!   c03 worker <stream> <from> <to> --seed S --out DIR
//!   c03 one    <stream> <idx> --seed S --out DIR   one case in this process (replay, nesting)
//!   c03 depth  <kind> <depth>                   deep-nesting probe (exit status tells the parent)
//!
//! Every call into norad runs under `catch_unwind` with a panic hook that records message and
//! source location; a watchdog thread ends the worker when one case takes longer than the limit
//! (hang); an abort (stack exhaustion) is seen by the master through the exit status.  Cases are
//! pure functions of (seed, stream, index), so a worker can be restarted after the failing case.
use crate::util::{Args, Rng};
use std::io::Write as _;
use std::path::{Path, PathBuf};
use std::sync::atomic::{AtomicU64, Ordering};
use std::sync::Mutex;

#[path = "c03_gen.rs"]
mod gen;

pub static LAST_PANIC: Mutex<Option<(String, String)>> = Mutex::new(None);
static CUR_IDX: AtomicU64 = AtomicU64::new(u64::MAX);
static CUR_START_MS: AtomicU64 = AtomicU64::new(0);

pub const HANG_MS: u64 = 60_000;

fn now_ms() -> u64 {
    std::time::SystemTime::now().duration_since(std::time::UNIX_EPOCH).map(|d| d.as_millis() as u64).unwrap_or(0)
}

fn install_hook() {
    std::panic::set_hook(Box::new(|info| {
        let loc = info.location().map(|l| format!("{}:{}", l.file(), l.line())).unwrap_or_default();
        let msg = if let Some(s) = info.payload().downcast_ref::<&str>() {
            s.to_string()
        } else if let Some(s) = info.payload().downcast_ref::<String>() {
            s.clone()
        } else {
            "panic".to_string()
        };
        if let Ok(mut g) = LAST_PANIC.lock() {
            *g = Some((msg, loc));
        }
    }));
}

/// one panic observed inside one guarded call
#[derive(Clone, Debug)]
pub struct PanicRec {
    pub entry: String,
    pub msg: String,
    pub loc: String,
}

/// what one case did
#[derive(Default)]
pub struct CaseLog {
    pub calls: u32,
    pub ok: u32,
    pub err: u32,
    pub documented: u32,
    pub panics: Vec<PanicRec>,
    /// class tags computed from the INPUT (never from the outcome)
    pub tags: Vec<String>,
    /// while set, guarded calls still run (under catch_unwind) but leave no trace (used to skip
    /// operations of a history when shrinking)
    pub mute: bool,
    /// replayable description of the input (history text / file list); bytes go to `files`
    pub desc: String,
    pub files: Vec<(String, Vec<u8>)>,
    pub hash: u64,
    /// the first entry point accepted the input, so later stages (encode/save/reload) ran
    pub deep: bool,
    pub entries: Vec<(String, u8)>, // (entry point, 0 ok / 1 err / 2 panic / 3 documented panic)
}

impl CaseLog {
    /// run `f` under catch_unwind; Ok/Err classification through `is_ok`
    pub fn guard<T>(&mut self, entry: &str, f: impl FnOnce() -> T, is_ok: impl Fn(&T) -> bool) -> Option<T> {
        if self.mute {
            return std::panic::catch_unwind(std::panic::AssertUnwindSafe(f)).ok();
        }
        self.calls += 1;
        if let Ok(mut g) = LAST_PANIC.lock() {
            *g = None;
        }
        match std::panic::catch_unwind(std::panic::AssertUnwindSafe(f)) {
            Ok(v) => {
                if is_ok(&v) {
                    self.ok += 1;
                    self.entries.push((entry.to_string(), 0));
                } else {
                    self.err += 1;
                    self.entries.push((entry.to_string(), 1));
                }
                Some(v)
            }
            Err(_) => {
                let (msg, loc) = LAST_PANIC.lock().ok().and_then(|g| g.clone()).unwrap_or_default();
                self.panics.push(PanicRec { entry: entry.to_string(), msg, loc });
                self.entries.push((entry.to_string(), 2));
                None
            }
        }
    }
    /// a call that is DOCUMENTED to panic exactly when `must_panic`; anything else is recorded
    pub fn guard_documented<T>(&mut self, entry: &str, must_panic: bool, f: impl FnOnce() -> T) -> Option<T> {
        self.calls += 1;
        if let Ok(mut g) = LAST_PANIC.lock() {
            *g = None;
        }
        match std::panic::catch_unwind(std::panic::AssertUnwindSafe(f)) {
            Ok(v) => {
                if must_panic {
                    // documented to panic but returned: not a totality problem; count as ok
                }
                self.ok += 1;
                self.entries.push((entry.to_string(), 0));
                Some(v)
            }
            Err(_) => {
                let (msg, loc) = LAST_PANIC.lock().ok().and_then(|g| g.clone()).unwrap_or_default();
                if must_panic {
                    self.documented += 1;
                    self.entries.push((entry.to_string(), 3));
                } else {
                    self.panics.push(PanicRec { entry: entry.to_string(), msg, loc });
                    self.entries.push((entry.to_string(), 2));
                }
                None
            }
        }
    }
    pub fn tag(&mut self, t: &str) {
        if !self.tags.iter().any(|x| x == t) {
            self.tags.push(t.to_string());
        }
    }
}

pub fn fnv(data: &[u8]) -> u64 {
    let mut h: u64 = 0xcbf29ce484222325;
    for b in data {
        h ^= *b as u64;
        h = h.wrapping_mul(0x100000001b3);
    }
    h
}

pub fn case_rng(seed: u64, stream: &str, idx: u64) -> Rng {
    let mut r = Rng::new(seed ^ fnv(stream.as_bytes()).rotate_left(17) ^ idx.wrapping_mul(0x9E37_79B9_7F4A_7C15));
    r.next();
    r
}

fn repo_root() -> PathBuf {
    // the checkout the harness was built against (the driver passes VERIF_REPO when it is not /repo)
    PathBuf::from(std::env::var("VERIF_REPO").unwrap_or_else(|_| "/repo".to_string()))
}

fn json_str(s: &str) -> String {
    serde_json::to_string(s).unwrap_or_else(|_| "\"?\"".into())
}

fn record_json(stream: &str, idx: u64, log: &CaseLog, p: &PanicRec) -> String {
    let mut d = log.desc.clone();
    if d.len() > 6000 {
        let mut cut = 6000;
        while !d.is_char_boundary(cut) {
            cut -= 1;
        }
        d.truncate(cut);
        d.push_str(" ...[truncated]");
    }
    format!(
        "{{\"kind\":\"panic\",\"stream\":{},\"idx\":{},\"entry\":{},\"msg\":{},\"loc\":{},\"tags\":[{}],\"input\":{}}}",
        json_str(stream),
        idx,
        json_str(&p.entry),
        json_str(&p.msg),
        json_str(&p.loc),
        log.tags.iter().map(|t| json_str(t)).collect::<Vec<_>>().join(","),
        json_str(&d)
    )
}

// ------------------------------------------------------------------------------------ worker
fn worker(a: &Args) {
    let stream = a.extra.get(1).cloned().unwrap_or_default();
    let from: u64 = a.extra.get(2).and_then(|s| s.parse().ok()).unwrap_or(0);
    let to: u64 = a.extra.get(3).and_then(|s| s.parse().ok()).unwrap_or(0);
    let tag = format!("{}_{}", stream, a.extra.get(4).cloned().unwrap_or_else(|| "0".into()));
    install_hook();
    let work = a.out.join(format!("work_{}", tag));
    let _ = std::fs::create_dir_all(&work);
    let mut res = std::fs::OpenOptions::new().create(true).append(true).open(a.out.join(format!("res_{}.jsonl", tag))).expect("res file");
    let mut hashes = std::fs::OpenOptions::new().create(true).append(true).open(a.out.join(format!("hash_{}.txt", tag))).expect("hash file");
    let progress = a.out.join(format!("progress_{}", tag));
    // watchdog
    {
        let resp = a.out.join(format!("res_{}.jsonl", tag));
        let st = stream.clone();
        std::thread::spawn(move || loop {
            std::thread::sleep(std::time::Duration::from_millis(500));
            let idx = CUR_IDX.load(Ordering::SeqCst);
            let t0 = CUR_START_MS.load(Ordering::SeqCst);
            if idx != u64::MAX && now_ms().saturating_sub(t0) > HANG_MS {
                if let Ok(mut f) = std::fs::OpenOptions::new().append(true).open(&resp) {
                    let _ = writeln!(f, "{{\"kind\":\"hang\",\"stream\":{},\"idx\":{},\"limit_ms\":{}}}", json_str(&st), idx, HANG_MS);
                }
                std::process::exit(3);
            }
        });
    }
    let mut env = gen::Env::new(&repo_root(), &work);
    let mut tot = Totals::default();
    for idx in from..to {
        let _ = std::fs::write(&progress, idx.to_string());
        CUR_START_MS.store(now_ms(), Ordering::SeqCst);
        CUR_IDX.store(idx, Ordering::SeqCst);
        let mut log = CaseLog::default();
        let mut rng = case_rng(a.seed, &stream, idx);
        gen::run_case(&mut env, &stream, idx, &mut rng, &mut log, false);
        CUR_IDX.store(u64::MAX, Ordering::SeqCst);
        tot.add(&log);
        let _ = writeln!(hashes, "{:016x} {}", log.hash, if log.deep { 1 } else { 0 });
        for p in &log.panics {
            let _ = writeln!(res, "{}", record_json(&stream, idx, &log, p));
        }
    }
    let _ = writeln!(res, "{}", tot.json(&stream, from, to));
    let _ = std::fs::remove_dir_all(&work);
    let _ = std::fs::write(&progress, "done");
}

#[derive(Default)]
struct Totals {
    cases: u64,
    calls: u64,
    ok: u64,
    err: u64,
    documented: u64,
    panics: u64,
    deep: u64,
    entries: std::collections::BTreeMap<String, [u64; 4]>,
    tags: std::collections::BTreeMap<String, u64>,
}
impl Totals {
    fn add(&mut self, l: &CaseLog) {
        self.cases += 1;
        self.calls += l.calls as u64;
        self.ok += l.ok as u64;
        self.err += l.err as u64;
        self.documented += l.documented as u64;
        self.panics += l.panics.len() as u64;
        self.deep += l.deep as u64;
        for (e, k) in &l.entries {
            self.entries.entry(e.clone()).or_insert([0; 4])[*k as usize] += 1;
        }
        for t in &l.tags {
            *self.tags.entry(t.clone()).or_insert(0) += 1;
        }
    }
    fn json(&self, stream: &str, from: u64, to: u64) -> String {
        let ent = self
            .entries
            .iter()
            .map(|(k, v)| format!("{}:[{},{},{},{}]", json_str(k), v[0], v[1], v[2], v[3]))
            .collect::<Vec<_>>()
            .join(",");
        let tg = self.tags.iter().map(|(k, v)| format!("{}:{}", json_str(k), v)).collect::<Vec<_>>().join(",");
        format!(
            "{{\"kind\":\"summary\",\"stream\":{},\"from\":{},\"to\":{},\"cases\":{},\"calls\":{},\"ok\":{},\"err\":{},\"documented_panics\":{},\"panics\":{},\"deep\":{},\"entries\":{{{}}},\"tags\":{{{}}}}}",
            json_str(stream), from, to, self.cases, self.calls, self.ok, self.err, self.documented, self.panics, self.deep, ent, tg
        )
    }
}

// ------------------------------------------------------------------------------------ one case
fn one(a: &Args) {
    let stream = a.extra.get(1).cloned().unwrap_or_default();
    let idx: u64 = a.extra.get(2).and_then(|s| s.parse().ok()).unwrap_or(0);
    install_hook();
    let work = a.out.join("work_one");
    let _ = std::fs::remove_dir_all(&work);
    let _ = std::fs::create_dir_all(&work);
    let mut env = gen::Env::new(&repo_root(), &work);
    let mut log = CaseLog::default();
    let mut rng = case_rng(a.seed, &stream, idx);
    gen::run_case(&mut env, &stream, idx, &mut rng, &mut log, true);
    println!("CASE stream={} idx={} seed={} calls={} ok={} err={} documented={} panics={} tags={:?}", stream, idx, a.seed, log.calls, log.ok, log.err, log.documented, log.panics.len(), log.tags);
    for (e, k) in &log.entries {
        println!("  call {} -> {}", e, ["value", "error value", "PANIC", "documented panic"][*k as usize]);
    }
    for p in &log.panics {
        println!("{}", record_json(&stream, idx, &log, p));
    }
    // materialise the input for inspection
    let inp = a.out.join("input");
    let _ = std::fs::create_dir_all(&inp);
    let _ = std::fs::write(inp.join("description.txt"), &log.desc);
    for (i, (name, bytes)) in log.files.iter().enumerate() {
        let safe: String = name.chars().map(|c| if c.is_ascii_alphanumeric() || c == '.' || c == '-' { c } else { '_' }).collect();
        let _ = std::fs::write(inp.join(format!("{:03}_{}", i, safe)), bytes);
    }
}

// ------------------------------------------------------------------------------------ a given file / directory
/// `c03 file <path> [tag ...]`: run the entry point that fits the path (a .glif, a .designspace, a
/// UFO directory) and the follow-up calls; used for the committed corpus and for replays
fn file(a: &Args) {
    let path = PathBuf::from(a.extra.get(1).cloned().unwrap_or_default());
    install_hook();
    let work = a.out.join("work_file");
    let _ = std::fs::remove_dir_all(&work);
    let _ = std::fs::create_dir_all(&work);
    let mut log = CaseLog::default();
    for t in a.extra.iter().skip(2) {
        log.tag(t);
    }
    log.desc = format!("file {}", path.display());
    let mut rng = case_rng(a.seed, "file", 0);
    gen::file_case(&path, &work, &mut rng, &mut log);
    let _ = std::fs::remove_dir_all(&work);
    println!("CASE file={} calls={} ok={} err={} panics={} tags={:?}", path.display(), log.calls, log.ok, log.err, log.panics.len(), log.tags);
    for (e, k) in &log.entries {
        println!("  call {} -> {}", e, ["value", "error value", "PANIC", "documented panic"][*k as usize]);
    }
    for p in &log.panics {
        println!("{}", record_json("file", 0, &log, p));
    }
}

/// `c03 witness <finding id>`: the minimal API history of a known finding, written out by hand
fn witness(a: &Args) {
    let id = a.extra.get(1).cloned().unwrap_or_default();
    install_hook();
    let work = a.out.join("work_witness");
    let _ = std::fs::remove_dir_all(&work);
    let _ = std::fs::create_dir_all(&work);
    let mut log = CaseLog::default();
    gen::witness_case(&id, &work, &mut log);
    let _ = std::fs::remove_dir_all(&work);
    println!("CASE witness={} calls={} ok={} err={} panics={} tags={:?}", id, log.calls, log.ok, log.err, log.panics.len(), log.tags);
    println!("HISTORY {}", log.desc);
    for (e, k) in &log.entries {
        println!("  call {} -> {}", e, ["value", "error value", "PANIC", "documented panic"][*k as usize]);
    }
    for p in &log.panics {
        println!("{}", record_json("witness", 0, &log, p));
    }
}

// ------------------------------------------------------------------------------------ depth probe
fn depth(a: &Args) {
    let kind = a.extra.get(1).cloned().unwrap_or_default();
    let d: usize = a.extra.get(2).and_then(|s| s.parse().ok()).unwrap_or(10);
    install_hook();
    let work = a.out.join(format!("work_depth_{}_{}", kind, d));
    let _ = std::fs::create_dir_all(&work);
    let mut log = CaseLog::default();
    gen::depth_case(&kind, d, &work, &mut log);
    let _ = std::fs::remove_dir_all(&work);
    println!("DEPTH kind={} depth={} calls={} ok={} err={} panics={}", kind, d, log.calls, log.ok, log.err, log.panics.len());
    for p in &log.panics {
        println!("{}", record_json("nest", d as u64, &log, p));
    }
    std::process::exit(if log.panics.is_empty() { 0 } else { 4 });
}

// ------------------------------------------------------------------------------------ master
fn counts(tier: &str) -> Vec<(&'static str, u64)> {
    if tier == "extended" {
        // the search that runs when an anchor / proof obligation is broken and the quick search found nothing
        return vec![("glif", 60_000), ("ufo", 20_000), ("ds", 10_000), ("api", 40_000), ("names", 40_000), ("values", 60_000)];
    }
    if tier == "thorough" {
        vec![("glif", 900_000), ("ufo", 240_000), ("ds", 200_000), ("api", 260_000), ("names", 400_000), ("values", 400_000)]
    } else {
        vec![("glif", 9_000), ("ufo", 3_000), ("ds", 2_000), ("api", 3_000), ("names", 3_000), ("values", 8_000)]
    }
}

fn master(a: &Args) {
    let exe = std::env::current_exe().expect("exe");
    let nshard: u64 = std::env::var("C03_WORKERS").ok().and_then(|s| s.parse().ok()).unwrap_or(8);
    let mut jobs: Vec<(String, u64, u64, String)> = vec![];
    for (s, n) in counts(&a.tier) {
        let per = (n + nshard - 1) / nshard;
        for k in 0..nshard {
            let from = k * per;
            let to = ((k + 1) * per).min(n);
            if from < to {
                jobs.push((s.to_string(), from, to, format!("{}", k)));
            }
        }
    }
    // run at most `nshard` workers at a time
    let jobs = std::sync::Arc::new(Mutex::new(jobs));
    let mut handles = vec![];
    for _ in 0..nshard {
        let jobs = jobs.clone();
        let exe = exe.clone();
        let out = a.out.clone();
        let seed = a.seed;
        handles.push(std::thread::spawn(move || loop {
            let job = jobs.lock().unwrap().pop();
            let Some((stream, mut from, to, tag)) = job else { break };
            while from < to {
                let st = std::process::Command::new(&exe)
                    .args(["c03", "--seed", &seed.to_string(), "--out"])
                    .arg(&out)
                    .args(["worker", &stream, &from.to_string(), &to.to_string(), &tag])
                    .stdout(std::process::Stdio::null())
                    .stderr(std::process::Stdio::null())
                    .status();
                let prog = std::fs::read_to_string(out.join(format!("progress_{}_{}", stream, tag))).unwrap_or_default();
                if prog == "done" {
                    break;
                }
                let at: u64 = prog.trim().parse().unwrap_or(from);
                let code = st.as_ref().ok().and_then(|s| s.code());
                if code != Some(3) {
                    // not the watchdog: an abort (signal) or an unexpected exit
                    use std::os::unix::process::ExitStatusExt;
                    let sig = st.as_ref().ok().and_then(|s| s.signal());
                    if let Ok(mut f) = std::fs::OpenOptions::new().create(true).append(true).open(out.join(format!("res_{}_{}.jsonl", stream, tag))) {
                        let _ = writeln!(f, "{{\"kind\":\"abort\",\"stream\":{},\"idx\":{},\"exit_code\":{},\"signal\":{}}}", json_str(&stream), at,
                            code.map(|c| c.to_string()).unwrap_or_else(|| "null".into()), sig.map(|c| c.to_string()).unwrap_or_else(|| "null".into()));
                    }
                }
                // the cases before `at` of this run are lost from the summary: note the restart
                if let Ok(mut f) = std::fs::OpenOptions::new().create(true).append(true).open(out.join(format!("res_{}_{}.jsonl", stream, tag))) {
                    let _ = writeln!(f, "{{\"kind\":\"restart\",\"stream\":{},\"from\":{},\"stopped_at\":{}}}", json_str(&stream), from, at);
                }
                from = at + 1;
            }
        }));
    }
    for h in handles {
        let _ = h.join();
    }
    println!("MASTER done");
}

pub fn main(a: &Args) {
    match a.extra.first().map(|s| s.as_str()) {
        Some("run") => master(a),
        Some("worker") => worker(a),
        Some("one") => one(a),
        Some("depth") => depth(a),
        Some("file") => file(a),
        Some("witness") => witness(a),
        Some("corr") => {
            install_hook();
            gen::corr(a.seed, a.thorough(), &a.out)
        }
        _ => {
            eprintln!("usage: c03 run|worker|one|depth ...");
            std::process::exit(2);
        }
    }
}

#[allow(dead_code)]
fn _unused(_: &Path) {}
