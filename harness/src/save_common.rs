//! Shared by c08 / c09 / c17: sandbox snapshots, font recipes, the abstraction of a real `Font`
//! to the `font_abs` of coq/Model/Save.v, and Gallina printing.
#![allow(dead_code)]
use crate::util::*;
use norad::error::{FontWriteError, GlifWriteError, LayerWriteError};
use norad::{Color, Font, FormatVersion, Glyph, Guideline, Line, Name, Plist};
use std::collections::BTreeMap;
use std::fmt::Write as _;
use std::path::{Component, Path, PathBuf};

pub const PNG: [u8; 8] = [137, 80, 78, 71, 13, 10, 26, 10];

/// relative path ("/"-joined, "" = the root itself) -> None for a directory, bytes for a file
pub type Snap = BTreeMap<String, Option<Vec<u8>>>;

pub fn snapshot(root: &Path) -> Snap {
    let mut s = Snap::new();
    fn go(root: &Path, dir: &Path, s: &mut Snap) {
        let rd = match std::fs::read_dir(dir) {
            Ok(r) => r,
            Err(_) => return,
        };
        for e in rd {
            let e = e.unwrap();
            let p = e.path();
            let rel = p.strip_prefix(root).unwrap().to_string_lossy().to_string();
            let md = std::fs::symlink_metadata(&p).unwrap();
            if md.file_type().is_symlink() {
                // a link to a directory behaves, for save, like an empty directory of that name
                // (exists, remove_dir_all unlinks it); what it points to is listed where it is
                if p.is_dir() {
                    s.insert(rel, None);
                } else {
                    s.insert(rel, Some(std::fs::read(&p).unwrap_or_default()));
                }
            } else if md.is_dir() {
                s.insert(rel, None);
                go(root, &p, s);
            } else {
                s.insert(rel, Some(std::fs::read(&p).unwrap_or_default()));
            }
        }
    }
    if root.is_dir() {
        s.insert(String::new(), None);
        go(root, root, &mut s);
    }
    s
}

/// make the directory `root` look like `want` again (used after the reference save, which may
/// have written outside its own target through an absolute glif path)
pub fn restore(root: &Path, want: &Snap) {
    let have = snapshot(root);
    let mut extra: Vec<&String> = have.keys().filter(|k| !want.contains_key(*k)).collect();
    extra.sort_by(|a, b| b.len().cmp(&a.len()));
    for k in extra {
        let p = root.join(k);
        if have[k].is_none() {
            let _ = std::fs::remove_dir_all(&p);
        } else {
            let _ = std::fs::remove_file(&p);
        }
    }
    for (k, v) in want {
        if let Some(b) = v {
            if have.get(k) != Some(v) {
                let _ = std::fs::write(root.join(k), b);
            }
        }
    }
}

/// 52-bit FNV-1a of the bytes: the opaque content token of the model
pub fn tok(b: &[u8]) -> u64 {
    let mut h: u64 = 0xcbf29ce484222325;
    for x in b {
        h ^= *x as u64;
        h = h.wrapping_mul(0x100000001b3);
    }
    (h ^ (h >> 52)) & ((1u64 << 52) - 1)
}
pub fn is_png(b: &[u8]) -> bool {
    b.starts_with(&PNG)
}

// ---------------------------------------------------------------- Gallina printing
pub fn gq(s: &str) -> String {
    format!("\"{}\"", s.replace('"', "\"\""))
}
pub fn gpath_of(parts: &[String]) -> String {
    format!("[{}]", parts.iter().map(|p| gq(p)).collect::<Vec<_>>().join(";"))
}
pub fn split_rel(rel: &str) -> Vec<String> {
    if rel.is_empty() {
        vec![]
    } else {
        rel.split('/').map(|s| s.to_string()).collect()
    }
}
pub fn gcontent(b: &[u8]) -> String {
    format!("(C {} {})", tok(b), g_bool(is_png(b)))
}
pub fn gsnap(s: &Snap) -> String {
    let mut out = String::from("[");
    let mut first = true;
    for (k, v) in s {
        if !first {
            out.push(';');
        }
        first = false;
        match v {
            None => {
                let _ = write!(out, "({},D)", gpath_of(&split_rel(k)));
            }
            Some(b) => {
                let _ = write!(out, "({},F {} {})", gpath_of(&split_rel(k)), tok(b), g_bool(is_png(b)));
            }
        }
    }
    out.push(']');
    out
}
/// a `PathBuf` as Rust's `components()` sees it; an absolute path below the sandbox is printed
/// as `RootDir` followed by the components below the sandbox root
pub fn grel(p: &Path, sandbox: &Path) -> String {
    let mut v = Vec::new();
    let q: PathBuf;
    let mut p = p;
    if p.is_absolute() {
        if let Ok(r) = p.strip_prefix(sandbox) {
            v.push("RootDir".to_string());
            q = r.to_path_buf();
            p = &q;
        }
    }
    for c in p.components() {
        match c {
            Component::Normal(s) => v.push(format!("Normal {}", gq(&s.to_string_lossy()))),
            Component::ParentDir => v.push("ParentDir".into()),
            Component::CurDir => v.push("CurDir".into()),
            Component::RootDir => v.push("RootDir".into()),
            Component::Prefix(_) => v.push("RootDir".into()),
        }
    }
    format!("[{}]", v.join(";"))
}
pub fn single_normal(p: &Path) -> bool {
    let mut it = p.components();
    matches!((it.next(), it.next()), (Some(Component::Normal(_)), None))
}

// ---------------------------------------------------------------- recipes
#[derive(Clone, Debug)]
pub struct GlyphR {
    pub name: String,
    pub objlibs: bool,
    pub uid: bool, // a plist Uid in the glyph's lib: the glyph cannot be encoded
    pub width: u32,
}
#[derive(Clone, Debug)]
pub struct LayerR {
    pub name: String,
    pub color: bool,
    pub lib: bool,
    pub glyphs: Vec<GlyphR>,
}
#[derive(Clone, Debug)]
pub struct Recipe {
    pub version: u8,
    pub creator: u8, // 0 norad, 1 other, 2 none
    pub minor: u32,
    pub info: bool,
    pub bad_info: u8,                   // 0 valid; 1 selection bit; 2 guideline angle; 3 date; 4 family class
    pub guideline: Option<(u32, bool)>, // angle, has lib
    pub lib: bool,
    pub objlibs_key: bool,
    pub groups: u8,   // 0 none, 1 ok, 2 one empty group, 3 overlapping kerning groups (invalid)
    pub kerning: u8,  // 0 none, 1 pair, 2 first with empty inner map
    pub features: u8, // 0 none, 1 lf, 2 crlf
    pub layers: Vec<LayerR>,
    pub data: Vec<(String, Vec<u8>)>,
    pub images: Vec<(String, Vec<u8>)>,
}

const LAYER_NAMES: [&str; 8] = ["background", "B", "x y", "fore.ground", "CON", "Sketch 1", "a_b", "Zz"];
const GLYPH_NAMES: [&str; 10] = ["a", "A", "b", "space", "a.alt", "A_", "f_i", "Aacute", "zero", "x"];
pub const DATA_KEYS: [&str; 14] = [
    "a.txt", "b.bin", "d/e.bin", "d/f/g", "com.x/y.plist", "d/h.txt", "Z", "q/r/s/t.dat", "NOEXT", ".dot/.file",
    "sp ace/f ile.txt", "\u{dc}n\u{ef}/c\u{f6}d\u{e9}.bin", "deep/er/and/deeper/x.Y.Z", "Thumbs.db",
];
/// image file names as they occur: any case of the extension, none, another one, a leading dot,
/// spaces, non-ASCII (the image store tracks every plain file of images/)
pub const IMAGE_KEYS: [&str; 12] = [
    "i.png", "j.png", "K.PNG", "l", "Cover.Png", "thumb", "scan.jpg", ".hidden.png", ".DS_Store", "with space.png",
    "bild\u{e9}.png", "SCAN.PNG",
];

impl Recipe {
    pub fn plain() -> Recipe {
        Recipe {
            version: 3,
            creator: 0,
            minor: 0,
            info: false,
            bad_info: 0,
            guideline: None,
            lib: false,
            objlibs_key: false,
            groups: 0,
            kerning: 0,
            features: 0,
            layers: vec![LayerR { name: "public.default".into(), color: false, lib: false, glyphs: vec![] }],
            data: vec![],
            images: vec![],
        }
    }
    /// a valid font: no refusal kind, no late failure
    pub fn random_valid(r: &mut Rng) -> Recipe {
        let mut x = Recipe::plain();
        x.creator = r.below(3) as u8;
        x.minor = *r.pick(&[0, 0, 2]);
        x.info = r.chance(1, 2);
        if r.chance(1, 3) {
            x.guideline = Some((*r.pick(&[0, 45, 360]), r.chance(1, 2)));
        }
        x.lib = r.chance(1, 2);
        x.groups = r.below(3) as u8;
        x.kerning = r.below(3) as u8;
        x.features = r.below(3) as u8;
        let nl = *r.pick(&[0usize, 0, 1, 1, 2, 3]);
        let mut names: Vec<&str> = LAYER_NAMES.to_vec();
        for _ in 0..nl {
            let i = r.below(names.len() as u64) as usize;
            let n = names.remove(i);
            x.layers.push(LayerR { name: n.into(), color: false, lib: false, glyphs: vec![] });
        }
        if r.chance(1, 4) {
            x.layers[0].name = "Default Layer".into();
        }
        for l in x.layers.iter_mut() {
            l.color = r.chance(1, 3);
            l.lib = r.chance(1, 3);
            let ng = *r.pick(&[0usize, 1, 2, 3]);
            let mut gn: Vec<&str> = GLYPH_NAMES.to_vec();
            for _ in 0..ng {
                let i = r.below(gn.len() as u64) as usize;
                let n = gn.remove(i);
                l.glyphs.push(GlyphR { name: n.into(), objlibs: false, uid: false, width: r.below(1000) as u32 });
            }
        }
        if r.chance(1, 2) {
            x.data = pick_keys(r, &DATA_KEYS, 3, false);
        }
        if r.chance(1, 2) {
            x.images = pick_keys(r, &IMAGE_KEYS, 2, true);
        }
        overlap_names(&mut x, r);
        x
    }
    pub fn describe(&self) -> String {
        format!("{:?}", self)
    }
}

/// the two stores are separate name spaces: give the data store entries that are named like
/// image entries (different bytes; a data file may itself be a valid PNG)
pub fn overlap_names(rc: &mut Recipe, r: &mut Rng) {
    let names: Vec<String> = rc.images.iter().map(|(k, _)| k.clone()).collect();
    for k in names {
        if !r.chance(1, 2) || rc.data.iter().any(|(d, _)| *d == k || d.starts_with(&format!("{}/", k))) {
            continue;
        }
        let mut b: Vec<u8> = if r.chance(1, 2) { PNG.to_vec() } else { vec![b'd', b'a', b't', b'a'] };
        b.push(r.below(256) as u8);
        b.extend_from_slice(b" data entry named like an image: ");
        b.extend_from_slice(k.as_bytes());
        rc.data.push((k, b));
    }
}

pub fn pick_keys(r: &mut Rng, pool: &[&str], max: u64, png: bool) -> Vec<(String, Vec<u8>)> {
    let mut ks: Vec<&str> = pool.to_vec();
    let mut out = vec![];
    let n = 1 + r.below(max);
    for _ in 0..n {
        if ks.is_empty() {
            break;
        }
        let i = r.below(ks.len() as u64) as usize;
        let k = ks.remove(i);
        let mut b: Vec<u8> = if png { PNG.to_vec() } else { vec![] };
        let len = r.below(6);
        for _ in 0..len {
            b.push(r.below(256) as u8);
        }
        b.extend_from_slice(k.as_bytes());
        out.push((k.to_string(), b));
    }
    out
}

// ---------------------------------------------------------------- store shadows
#[derive(Clone, Debug, PartialEq)]
pub enum CellS {
    NotLoaded,
    Loaded(Vec<u8>),
    Error,
}
#[derive(Clone, Debug, Default)]
pub struct Shadow {
    pub data_root: Vec<String>, // sandbox-relative components of the UFO the store was opened on
    pub images_root: Vec<String>,
    pub data: BTreeMap<String, CellS>,
    pub images: BTreeMap<String, CellS>,
}
impl Shadow {
    /// after `Font::load` from `root`: one cell per file on disk, nothing read yet
    pub fn opened(font: &Font, root: &[String]) -> Shadow {
        let mut s = Shadow { data_root: root.to_vec(), images_root: root.to_vec(), ..Default::default() };
        for k in font.data.keys() {
            s.data.insert(k.to_string_lossy().to_string(), CellS::NotLoaded);
        }
        for k in font.images.keys() {
            s.images.insert(k.to_string_lossy().to_string(), CellS::NotLoaded);
        }
        s
    }
}
/// `get` on the real store, recording what the cell now holds
pub fn touch(font: &Font, sh: &mut Shadow, image: bool, key: &str) {
    let p = PathBuf::from(key);
    let r = if image { font.images.get(&p) } else { font.data.get(&p) };
    let cell = match r {
        Some(Ok(b)) => CellS::Loaded(b.to_vec()),
        Some(Err(_)) => CellS::Error,
        None => return,
    };
    if image {
        sh.images.insert(key.to_string(), cell);
    } else {
        sh.data.insert(key.to_string(), cell);
    }
}

// ---------------------------------------------------------------- building
pub fn build_font(r: &Recipe) -> (Font, Shadow) {
    let mut f = Font::new();
    f.meta.format_version = match r.version {
        1 => FormatVersion::V1,
        2 => FormatVersion::V2,
        _ => FormatVersion::V3,
    };
    f.meta.creator = match r.creator {
        0 => Some("org.linebender.norad".into()),
        1 => Some("com.example.other".into()),
        _ => None,
    };
    f.meta.format_version_minor = r.minor;
    if r.info {
        f.font_info.family_name = Some("Fam".into());
    }
    if let Some((angle, has_lib)) = r.guideline {
        let mut g = Guideline::new(Line::Angle { x: 1.0, y: 2.0, degrees: angle as f64 }, None, None, None);
        if has_lib {
            let mut l = Plist::new();
            l.insert("z".into(), 1.into());
            g.replace_lib(l);
        }
        f.guidelines_mut().push(g);
    }
    apply_bad_info(&mut f, r.bad_info);
    if r.lib {
        f.lib.insert("com.example.k".into(), 1.into());
    }
    if r.objlibs_key {
        f.lib.insert("public.objectLibs".into(), plist::Value::Dictionary(Default::default()));
    }
    apply_groups(&mut f, r.groups);
    match r.kerning {
        1 => {
            f.kerning.entry(Name::new("a").unwrap()).or_default().insert(Name::new("b").unwrap(), -10.0);
        }
        2 => {
            f.kerning.entry(Name::new("a").unwrap()).or_default();
        }
        _ => {}
    }
    match r.features {
        1 => f.features = "a;\nb;\n".into(),
        2 => f.features = "a;\r\nb;\rc".into(),
        _ => {}
    }
    for (i, l) in r.layers.iter().enumerate() {
        let layer = if i == 0 {
            if l.name != "public.default" {
                f.layers.rename_layer("public.default", &l.name, false).unwrap();
            }
            f.default_layer_mut()
        } else {
            f.layers.new_layer(&l.name).unwrap()
        };
        if l.color {
            layer.color = Some(Color::new(1.0, 0.0, 0.5, 1.0).unwrap());
        }
        if l.lib {
            layer.lib.insert("k".into(), 1.into());
        }
        for g in &l.glyphs {
            layer.insert_glyph(make_glyph(g));
        }
    }
    let mut sh = Shadow::default();
    for (k, b) in &r.data {
        f.data.insert(PathBuf::from(k), b.clone()).unwrap();
        sh.data.insert(k.clone(), CellS::Loaded(b.clone()));
    }
    for (k, b) in &r.images {
        f.images.insert(PathBuf::from(k), b.clone()).unwrap();
        sh.images.insert(k.clone(), CellS::Loaded(b.clone()));
    }
    (f, sh)
}
pub fn make_glyph(g: &GlyphR) -> Glyph {
    let mut gl = Glyph::new(&g.name);
    gl.width = g.width as f64;
    if g.objlibs {
        gl.lib.insert("public.objectLibs".into(), plist::Value::Dictionary(Default::default()));
    }
    if g.uid {
        let mut inner = plist::Dictionary::new();
        inner.insert("u".into(), plist::Value::Uid(plist::Uid::new(7)));
        gl.lib.insert("com.example.nested".into(), plist::Value::Array(vec![plist::Value::Dictionary(inner)]));
    }
    gl
}
pub fn apply_bad_info(f: &mut Font, kind: u8) {
    match kind {
        1 => f.font_info.open_type_os2_selection = Some(vec![1, 5]),
        2 => {
            let g = Guideline::new(Line::Angle { x: 0.0, y: 0.0, degrees: 400.0 }, None, None, None);
            f.guidelines_mut().push(g);
        }
        3 => f.font_info.open_type_head_created = Some("2020/13/01 00:00:00".into()),
        4 => f.font_info.postscript_blue_values = Some(vec![1.0, 2.0, 3.0]),
        _ => {}
    }
}
pub fn apply_groups(f: &mut Font, kind: u8) {
    match kind {
        1 => {
            f.groups.insert(Name::new("public.kern1.a").unwrap(), vec![Name::new("a").unwrap()]);
        }
        2 => {
            f.groups.insert(Name::new("g").unwrap(), vec![]);
        }
        3 => {
            f.groups.insert(Name::new("public.kern1.a").unwrap(), vec![Name::new("a").unwrap()]);
            f.groups.insert(Name::new("public.kern1.b").unwrap(), vec![Name::new("a").unwrap()]);
        }
        _ => {}
    }
}

// ---------------------------------------------------------------- abstraction
/// lexical resolution of `base` + components inside a snapshot keyed by "/"-joined paths
pub fn lexical(base: &[String], p: &Path, sandbox: &Path) -> Vec<String> {
    let mut cur: Vec<String> = base.to_vec();
    let q: PathBuf;
    let mut p = p;
    if p.is_absolute() {
        if let Ok(r) = p.strip_prefix(sandbox) {
            cur.clear();
            q = r.to_path_buf();
            p = &q;
        }
    }
    for c in p.components() {
        match c {
            Component::Normal(s) => cur.push(s.to_string_lossy().to_string()),
            Component::ParentDir => {
                cur.pop();
            }
            Component::CurDir => {}
            _ => cur.clear(),
        }
    }
    cur
}

pub struct AbsInput<'a> {
    pub font: &'a Font,
    pub groups_ok: bool,
    pub info_valid: bool,
    pub shadow: &'a Shadow,
    /// snapshot of the sandbox in which the reference save ran, and the reference target in it
    pub reftree: &'a Snap,
    pub ref_target: &'a [String],
    /// the real sandbox root (absolute glif paths are recognised by this prefix) and what the
    /// real sandbox held right after the reference save (an absolute path lands there in both saves)
    pub sandbox: &'a Path,
    pub abs_tree: &'a Snap,
}

fn ref_content(a: &AbsInput, comps: &[String]) -> String {
    match a.reftree.get(&comps.join("/")) {
        Some(Some(b)) => gcontent(b),
        _ => "(C 0 false)".to_string(),
    }
}
fn ref_top(a: &AbsInput, name: &str) -> String {
    let mut c = a.ref_target.to_vec();
    c.push(name.to_string());
    ref_content(a, &c)
}
fn gopt(present: bool, c: String) -> String {
    if present {
        format!("(Some {})", c)
    } else {
        "None".into()
    }
}
fn gcell(c: &CellS) -> String {
    match c {
        CellS::NotLoaded => "NotLoaded".into(),
        CellS::Loaded(b) => format!("(Loaded {})", gcontent(b)),
        CellS::Error => "Error".into(),
    }
}
fn gstore<'a>(keys: impl Iterator<Item = &'a PathBuf>, root: &[String], cells: &BTreeMap<String, CellS>) -> String {
    let mut ks: Vec<String> = keys.map(|k| k.to_string_lossy().to_string()).collect();
    ks.sort();
    let mut items = vec![];
    for k in ks {
        let c = cells.get(&k).unwrap_or_else(|| panic!("harness: no shadow cell for store key {}", k));
        items.push(format!("({},{})", gpath_of(&split_rel(&k)), gcell(c)));
    }
    format!("(Store {} [{}])", gpath_of(root), items.join(";"))
}

pub fn has_uid(v: &plist::Value) -> bool {
    match v {
        plist::Value::Uid(_) => true,
        plist::Value::Array(a) => a.iter().any(has_uid),
        plist::Value::Dictionary(d) => d.values().any(has_uid),
        _ => false,
    }
}

/// the `font_abs` term of a real font (see coq/Model/Save.v)
pub fn abstract_font(a: &AbsInput) -> String {
    let f = a.font;
    let version = match f.meta.format_version {
        FormatVersion::V1 => 1,
        FormatVersion::V2 => 2,
        FormatVersion::V3 => 3,
    };
    let glib = f.guidelines().iter().any(|g| g.lib().is_some());
    let mut layers = vec![];
    for l in f.layers.iter() {
        let ldir = lexical(a.ref_target, l.path(), a.sandbox);
        let mut glifs = vec![];
        for g in l.iter() {
            let gp = match l.get_path(g.name()) {
                Some(p) => p,
                None => continue, // not in the contents index: never written
            };
            let body = if g.lib.contains_key("public.objectLibs") {
                "None".to_string()
            } else if has_uid(&plist::Value::Dictionary(g.lib.clone())) {
                glifs.push(format!("GlifEnc {}", grel(gp, a.sandbox)));
                continue;
            } else {
                let mut base = a.ref_target.to_vec();
                base = lexical(&base, l.path(), a.sandbox);
                let at = lexical(&base, gp, a.sandbox);
                if gp.is_absolute() {
                    match a.abs_tree.get(&at.join("/")) {
                        Some(Some(b)) => format!("(Some {})", gcontent(b)),
                        _ => "(Some (C 0 false))".to_string(),
                    }
                } else {
                    format!("(Some {})", ref_content(a, &at))
                }
            };
            glifs.push(format!("Glif {} {}", grel(gp, a.sandbox), body));
        }
        let mut cpath = ldir.clone();
        cpath.push("contents.plist".into());
        let mut ipath = ldir.clone();
        ipath.push("layerinfo.plist".into());
        layers.push(format!(
            "Layer {} {} {} {} [{}]",
            gq(l.name()),
            grel(l.path(), a.sandbox),
            ref_content(a, &cpath),
            gopt(l.color.is_some() || !l.lib.is_empty(), ref_content(a, &ipath)),
            glifs.join(";")
        ));
    }
    format!(
        "(Font {} {} {} {} {} {} {} {} {} {} {} [{}] {} {})",
        version,
        g_bool(f.lib.contains_key("public.objectLibs")),
        g_bool(a.groups_ok),
        g_bool(a.info_valid),
        ref_top(a, "metainfo.plist"),
        gopt(!f.font_info.is_empty(), ref_top(a, "fontinfo.plist")),
        gopt(!f.lib.is_empty() || glib, ref_top(a, "lib.plist")),
        gopt(!f.groups.is_empty(), ref_top(a, "groups.plist")),
        gopt(!f.kerning.is_empty(), ref_top(a, "kerning.plist")),
        gopt(!f.features.is_empty(), ref_top(a, "features.fea")),
        ref_top(a, "layercontents.plist"),
        layers.join(";"),
        gstore(f.data.keys(), &a.shadow.data_root, &a.shadow.data),
        gstore(f.images.keys(), &a.shadow.images_root, &a.shadow.images),
    )
}

// ---------------------------------------------------------------- outcomes
pub fn obs_of(r: &Result<Result<(), FontWriteError>, String>) -> (String, String) {
    // (Gallina term of type obs, short name)
    let e = match r {
        Err(_) => return ("ObsPanic".into(), "PANIC".into()),
        Ok(Ok(())) => return ("(Obs Saved)".into(), "Saved".into()),
        Ok(Err(e)) => e,
    };
    let t: String = match e {
        FontWriteError::Downgrade => "Downgrade".into(),
        FontWriteError::PreexistingPublicObjectLibsKey => "PreexistingObjLibs".into(),
        FontWriteError::InvalidGroups(_) => "InvalidGroups".into(),
        FontWriteError::InvalidFontInfo(_) => "InvalidFontInfo".into(),
        FontWriteError::InvalidStoreEntry { .. } => "InvalidStoreEntry".into(),
        FontWriteError::Cleanup(_) => "Cleanup".into(),
        FontWriteError::CreateUfoDir(_) => "CreateUfoDir".into(),
        FontWriteError::CustomFile { name, .. } => match *name {
            "metainfo.plist" => "(CustomFile FMeta)".into(),
            "fontinfo.plist" => "(CustomFile FInfo)".into(),
            "lib.plist" => "(CustomFile FLib)".into(),
            "groups.plist" => "(CustomFile FGroups)".into(),
            "kerning.plist" => "(CustomFile FKerning)".into(),
            "layercontents.plist" => "(CustomFile FLayerContents)".into(),
            _ => return ("ObsOther".into(), format!("CustomFile({})", name)),
        },
        FontWriteError::FeatureFile(_) => "FeatureFile".into(),
        FontWriteError::Layer { name, source, .. } => {
            let le = match &**source {
                LayerWriteError::CreateDir(_) => "LCreateDir",
                LayerWriteError::Contents(_) => "LContents",
                LayerWriteError::LayerInfo(_) => "LLayerInfo",
                LayerWriteError::Glyph { source: GlifWriteError::PreexistingPublicObjectLibsKey, .. } => {
                    "LGlyphObjLibs"
                }
                LayerWriteError::Glyph { source: GlifWriteError::Io(_), .. } => "LGlyphIo",
                LayerWriteError::Glyph { source: GlifWriteError::Plist(_), .. } => "LGlyphEncode",
                _ => return ("ObsOther".into(), "Layer(other)".into()),
            };
            format!("(LayerErr {} {})", gq(name), le)
        }
        FontWriteError::CreateStoreDir { .. } => "CreateStoreDir".into(),
        FontWriteError::Data { .. } => "DataErr".into(),
        FontWriteError::Image { .. } => "ImageErr".into(),
        _ => return ("ObsOther".into(), "other".into()),
    };
    (format!("(Obs (Failed {}))", t), t)
}

pub fn json_str(s: &str) -> String {
    serde_json::to_string(s).unwrap()
}

/// first difference between two snapshots, for diagnostics
pub fn snap_diff(a: &Snap, b: &Snap) -> Vec<String> {
    let mut d = vec![];
    for (k, v) in a {
        match b.get(k) {
            None => d.push(format!("removed: {}", k)),
            Some(w) if w != v => d.push(format!("changed: {}", k)),
            _ => {}
        }
    }
    for k in b.keys() {
        if !a.contains_key(k) {
            d.push(format!("created: {}", k));
        }
    }
    d
}
