//! C14: not implemented yet.
use crate::util::Args;
pub fn main(_a: &Args) {
    eprintln!("c14: not implemented");
    std::process::exit(2);
}
