//! C14: format 1 / format 2 font info conversion, observed through `Font::load` of generated UFO
//! directories (metainfo.plist, fontinfo.plist with legacy keys, lib.plist with RoboFab data,
//! features.fea, an empty default layer), followed by `validate` and `save`.
//!
//! Output (in --out): `cases.txt` one Gallina term `(mk .., tm)` per line = the abstract input
//! and the dump of what norad did; `cases.jsonl` the same inputs as JSON (replayable) with the
//! direct oracle results; `summary.json` the measured input distribution.
//! The legacy field lists and types come from `--schema FILE` (extracted from norad's source by
//! the driver on this run), so a field added to FontInfoV1/V2 is generated automatically.
use crate::util::*;
use norad::error::{FontInfoErrorKind, FontInfoLoadError, FontLoadError};
use norad::Font;
use serde_json::{json, Value as J};
use std::collections::BTreeMap;
use std::path::Path;

#[path = "c14_fields.rs"]
mod fields;

// ------------------------------------------------------------------------------------ values
#[derive(Clone, Debug)]
pub enum P {
    Int(i128),
    Real(f64),
    Str(String),
    Bool(bool),
    Data(Vec<u8>),
    Arr(Vec<P>),
    Dict(Vec<(String, P)>),
}

#[derive(Clone, Debug)]
pub struct Case {
    pub label: String,
    pub version: u8,
    pub fontinfo: Option<Vec<(String, P)>>,
    pub lib: Option<Vec<(String, P)>>,
    pub fea: Option<String>,
    /// surface variation: write the dictionaries' entries in this rotated order
    pub rot: usize,
    /// which DataRequest the tree is loaded with (index into REQUESTS)
    pub req: usize,
}

/// (name, lib requested, features.fea requested)
pub const REQUESTS: [(&str, bool, bool); 6] = [
    ("all()", true, true),
    ("all().lib(false)", false, true),
    ("none()", false, false),
    ("none().lib(true)", true, false),
    ("all().features(false)", true, false),
    ("all().kerning(false).groups(false)", true, true),
];
fn data_request(i: usize) -> norad::DataRequest<'static> {
    use norad::DataRequest as R;
    match i {
        1 => R::all().lib(false),
        2 => R::none(),
        3 => R::none().lib(true),
        4 => R::all().features(false),
        5 => R::all().kerning(false).groups(false),
        _ => R::all(),
    }
}

pub fn tm_i(z: i128) -> Tm {
    if z < 0 {
        Tm::L(vec![Tm::N(1), Tm::N((-z) as u64)])
    } else {
        Tm::L(vec![Tm::N(0), Tm::N(z as u64)])
    }
}
pub fn tm_str(s: &str) -> Tm {
    Tm::L(s.bytes().map(|b| Tm::N(b as u64)).collect())
}
pub fn tm_bytes(s: &[u8]) -> Tm {
    Tm::L(s.iter().map(|b| Tm::N(*b as u64)).collect())
}
pub fn tm_f64(x: f64) -> Tm {
    let (neg, m, e, class) = dyadic(x);
    match class {
        2 => Tm::L(vec![Tm::N(3)]),
        1 => Tm::L(vec![Tm::N(2), Tm::b(neg)]),
        _ => {
            if m == 0 {
                if neg {
                    Tm::L(vec![Tm::N(1)])
                } else {
                    Tm::L(vec![Tm::N(0), tm_i(0), tm_i(0)])
                }
            } else {
                let mm = if neg { -(m as i128) } else { m as i128 };
                Tm::L(vec![Tm::N(0), tm_i(mm), tm_i(e as i128)])
            }
        }
    }
}

fn g_z(z: i128) -> String {
    if z < 0 {
        format!("({})", z)
    } else {
        format!("{}", z)
    }
}
fn g_f64(x: f64) -> String {
    let (neg, m, e, class) = dyadic(x);
    match class {
        2 => "NaN".into(),
        1 => format!("(Inf {})", g_bool(neg)),
        _ => {
            if m == 0 {
                if neg {
                    "NegZero".into()
                } else {
                    "(Fin 0 0)".into()
                }
            } else {
                let mm = if neg { -(m as i128) } else { m as i128 };
                format!("(Fin {} {})", g_z(mm), g_z(e as i128))
            }
        }
    }
}
fn g_string(s: &str) -> String {
    let safe = s.bytes().all(|b| (b == b' ' || b.is_ascii_alphanumeric() || b"._-()/:@;=[]{}#,+*".contains(&b)));
    if safe {
        format!("\"{}\"", s)
    } else {
        format!("(bs {})", g_bytes(s.as_bytes()))
    }
}
fn g_p(p: &P) -> String {
    match p {
        P::Int(z) => format!("(PInt {})", g_z(*z)),
        P::Real(x) => format!("(PReal {})", g_f64(*x)),
        P::Str(s) => format!("(PStr {})", g_string(s)),
        P::Bool(b) => format!("(PBool {})", g_bool(*b)),
        P::Data(d) => format!("(PData (bs {}))", g_bytes(d)),
        P::Arr(l) => format!("(PArr [{}])", l.iter().map(g_p).collect::<Vec<_>>().join(";")),
        P::Dict(d) => format!("(PDict {})", g_dict(d)),
    }
}
fn g_dict(d: &[(String, P)]) -> String {
    format!(
        "[{}]",
        d.iter().map(|(k, v)| format!("({},{})", g_string(k), g_p(v))).collect::<Vec<_>>().join(";")
    )
}
fn g_case(c: &Case) -> String {
    format!(
        "(rq {} {}, mk {} {} {} {})",
        g_bool(REQUESTS[c.req].1),
        g_bool(REQUESTS[c.req].2),
        c.version,
        g_opt(c.fontinfo.as_ref().map(|d| g_dict(d))),
        g_opt(c.lib.as_ref().map(|d| g_dict(d))),
        g_opt(c.fea.as_ref().map(|s| g_string(s)))
    )
}

fn j_p(p: &P) -> J {
    match p {
        P::Int(z) => json!({"i": z.to_string()}),
        P::Real(x) => json!({"r": format!("{:016x}", x.to_bits()), "x": format!("{:?}", x)}),
        P::Str(s) => json!({"s": s}),
        P::Bool(b) => json!({"b": b}),
        P::Data(d) => json!({"d": d}),
        P::Arr(l) => json!({"a": l.iter().map(j_p).collect::<Vec<_>>()}),
        P::Dict(d) => json!({"m": d.iter().map(|(k, v)| json!([k, j_p(v)])).collect::<Vec<_>>()}),
    }
}
fn p_j(j: &J) -> P {
    if let Some(s) = j.get("i") {
        P::Int(s.as_str().unwrap().parse().unwrap())
    } else if let Some(s) = j.get("r") {
        P::Real(f64::from_bits(u64::from_str_radix(s.as_str().unwrap(), 16).unwrap()))
    } else if let Some(s) = j.get("s") {
        P::Str(s.as_str().unwrap().to_string())
    } else if let Some(b) = j.get("b") {
        P::Bool(b.as_bool().unwrap())
    } else if let Some(d) = j.get("d") {
        P::Data(d.as_array().unwrap().iter().map(|x| x.as_u64().unwrap() as u8).collect())
    } else if let Some(a) = j.get("a") {
        P::Arr(a.as_array().unwrap().iter().map(p_j).collect())
    } else {
        P::Dict(dict_j(j.get("m").unwrap()))
    }
}
fn dict_j(j: &J) -> Vec<(String, P)> {
    j.as_array()
        .unwrap()
        .iter()
        .map(|kv| (kv[0].as_str().unwrap().to_string(), p_j(&kv[1])))
        .collect()
}
fn j_case(c: &Case) -> J {
    json!({
        "label": c.label, "version": c.version, "rot": c.rot,
        "request": c.req, "request_name": REQUESTS[c.req].0,
        "fontinfo": c.fontinfo.as_ref().map(|d| j_p(&P::Dict(d.clone()))),
        "lib": c.lib.as_ref().map(|d| j_p(&P::Dict(d.clone()))),
        "features_fea": c.fea,
    })
}
fn case_j(j: &J) -> Case {
    let d = |k: &str| match j.get(k) {
        Some(J::Null) | None => None,
        Some(v) => Some(dict_j(v.get("m").unwrap())),
    };
    Case {
        label: j["label"].as_str().unwrap_or("").to_string(),
        version: j["version"].as_u64().unwrap() as u8,
        rot: j.get("rot").and_then(|r| r.as_u64()).unwrap_or(0) as usize,
        req: (j.get("request").and_then(|r| r.as_u64()).unwrap_or(0) as usize).min(REQUESTS.len() - 1),
        fontinfo: d("fontinfo"),
        lib: d("lib"),
        fea: j.get("features_fea").and_then(|s| s.as_str()).map(|s| s.to_string()),
    }
}

// ------------------------------------------------------------------------- writing a UFO tree
fn to_plist(p: &P) -> plist::Value {
    match p {
        P::Int(z) => {
            if *z < 0 {
                plist::Value::Integer((*z as i64).into())
            } else {
                plist::Value::Integer((*z as u64).into())
            }
        }
        P::Real(x) => plist::Value::Real(*x),
        P::Str(s) => plist::Value::String(s.clone()),
        P::Bool(b) => plist::Value::Boolean(*b),
        P::Data(d) => plist::Value::Data(d.clone()),
        P::Arr(l) => plist::Value::Array(l.iter().map(to_plist).collect()),
        P::Dict(d) => plist::Value::Dictionary(to_pdict(d, 0)),
    }
}
fn to_pdict(d: &[(String, P)], rot: usize) -> plist::Dictionary {
    let mut m = plist::Dictionary::new();
    let n = d.len();
    for i in 0..n {
        let (k, v) = &d[(i + rot) % n];
        m.insert(k.clone(), to_plist(v));
    }
    m
}

fn write_ufo(dir: &Path, c: &Case) {
    let _ = std::fs::remove_dir_all(dir);
    std::fs::create_dir_all(dir.join("glyphs")).unwrap();
    let mut meta = plist::Dictionary::new();
    meta.insert("creator".into(), plist::Value::String("org.verif.c14".into()));
    meta.insert("formatVersion".into(), plist::Value::Integer((c.version as u64).into()));
    plist::Value::Dictionary(meta).to_file_xml(dir.join("metainfo.plist")).unwrap();
    plist::Value::Dictionary(plist::Dictionary::new())
        .to_file_xml(dir.join("glyphs").join("contents.plist"))
        .unwrap();
    if let Some(fi) = &c.fontinfo {
        // the top-level order of a struct's fields is insignificant: rotate it
        plist::Value::Dictionary(to_pdict(fi, c.rot)).to_file_xml(dir.join("fontinfo.plist")).unwrap();
    }
    if let Some(lib) = &c.lib {
        plist::Value::Dictionary(to_pdict(lib, c.rot)).to_file_xml(dir.join("lib.plist")).unwrap();
    }
    if let Some(f) = &c.fea {
        std::fs::write(dir.join("features.fea"), f).unwrap();
    }
}

// ------------------------------------------------------------------------------ observation
fn tm_plist(v: &plist::Value) -> Tm {
    match v {
        plist::Value::Integer(i) => {
            let z = if let Some(s) = i.as_signed() { s as i128 } else { i.as_unsigned().unwrap() as i128 };
            Tm::L(vec![Tm::N(0), tm_i(z)])
        }
        plist::Value::Real(x) => Tm::L(vec![Tm::N(1), tm_f64(*x)]),
        plist::Value::String(s) => Tm::L(vec![Tm::N(2), tm_str(s)]),
        plist::Value::Boolean(b) => Tm::L(vec![Tm::N(3), Tm::b(*b)]),
        plist::Value::Data(d) => Tm::L(vec![Tm::N(4), tm_bytes(d)]),
        plist::Value::Array(a) => Tm::L(vec![Tm::N(5), Tm::L(a.iter().map(tm_plist).collect())]),
        plist::Value::Dictionary(d) => Tm::L(vec![
            Tm::N(6),
            Tm::L(d.iter().map(|(k, v)| Tm::L(vec![tm_str(k), tm_plist(v)])).collect()),
        ]),
        _ => Tm::L(vec![Tm::N(99)]),
    }
}

fn tm_kind(k: &FontInfoErrorKind) -> Tm {
    match k {
        FontInfoErrorKind::UnknownFontStyle(v) => Tm::L(vec![Tm::N(1), tm_i(*v as i128)]),
        FontInfoErrorKind::UnknownMsCharSet(v) => Tm::L(vec![Tm::N(2), tm_i(*v as i128)]),
        FontInfoErrorKind::UnknownWidthClass(s) => Tm::L(vec![Tm::N(3), tm_str(s)]),
        FontInfoErrorKind::InvalidOpenTypeHeadCreatedDate => Tm::L(vec![Tm::N(5)]),
        FontInfoErrorKind::DisallowedSelectionBits => Tm::L(vec![Tm::N(6)]),
        FontInfoErrorKind::InvalidOs2FamilyClass => Tm::L(vec![Tm::N(7)]),
        FontInfoErrorKind::InvalidPostscriptListLength { name, max_len, len } => {
            Tm::L(vec![Tm::N(8), tm_str(name), tm_i(*max_len as i128), tm_i(*len as i128)])
        }
        FontInfoErrorKind::PostscriptListMustBePairs(name) => Tm::L(vec![Tm::N(9), tm_str(name)]),
        other => Tm::L(vec![Tm::N(99), tm_str(&format!("{:?}", other))]),
    }
}

fn tm_error(e: &FontLoadError) -> Tm {
    match e {
        FontLoadError::FontInfo(FontInfoLoadError::ParsePlist(_)) => Tm::L(vec![Tm::N(1)]),
        FontLoadError::FontInfo(FontInfoLoadError::FontInfoUpconversion(k)) => Tm::L(vec![Tm::N(2), tm_kind(k)]),
        FontLoadError::ParsePlist { name, .. } if *name == "lib.plist" => Tm::L(vec![Tm::N(3)]),
        FontLoadError::FontInfoV1Upconversion(k) => Tm::L(vec![Tm::N(4), tm_kind(k)]),
        other => Tm::L(vec![Tm::N(99), tm_str(&format!("{:?}", other))]),
    }
}

pub struct Obs {
    pub tm: Tm,
    pub loaded: bool,
    pub panic: Option<String>,
    pub error: Option<String>,
    /// direct oracle on a loaded font: (format version is 3, validate() ok, save ok, saved
    /// metainfo says 3, reload ok, reloaded info/features/lib equal or not comparable)
    pub oracle: Vec<(String, bool)>,
    pub info_keys: Vec<String>,
    /// the generated files parse back to the intended values
    pub writer_ok: bool,
}

fn has_nan(i: &norad::FontInfo) -> bool {
    i != i
}

/// the plist text that was written holds exactly the intended values (reals bit for bit)
fn same_value(p: &P, v: &plist::Value) -> bool {
    match (p, v) {
        (P::Int(z), plist::Value::Integer(i)) => {
            i.as_signed().map(|s| s as i128 == *z).unwrap_or(false) || i.as_unsigned().map(|u| u as i128 == *z).unwrap_or(false)
        }
        (P::Real(x), plist::Value::Real(y)) => x.to_bits() == y.to_bits() || (x.is_nan() && y.is_nan()),
        (P::Str(a), plist::Value::String(b)) => a == b,
        (P::Bool(a), plist::Value::Boolean(b)) => a == b,
        (P::Data(a), plist::Value::Data(b)) => a == b,
        (P::Arr(a), plist::Value::Array(b)) => a.len() == b.len() && a.iter().zip(b.iter()).all(|(x, y)| same_value(x, y)),
        (P::Dict(a), plist::Value::Dictionary(b)) => same_dict(a, b),
        _ => false,
    }
}
fn same_dict(a: &[(String, P)], b: &plist::Dictionary) -> bool {
    a.len() == b.len() && a.iter().all(|(k, v)| b.get(k).map(|w| same_value(v, w)).unwrap_or(false))
}
fn written_as_intended(dir: &Path, c: &Case) -> bool {
    let chk = |name: &str, d: &Option<Vec<(String, P)>>| match d {
        None => true,
        Some(d) => plist::Value::from_file(dir.join(name))
            .ok()
            .and_then(|v| v.into_dictionary())
            .map(|m| same_dict(d, &m))
            .unwrap_or(false),
    };
    chk("fontinfo.plist", &c.fontinfo) && chk("lib.plist", &c.lib)
}

pub fn observe(dir: &Path, c: &Case) -> Obs {
    write_ufo(dir, c);
    let writer_ok = written_as_intended(dir, c);
    // Font::load is load_requested_data(DataRequest::all()); exercise the entry point itself
    let r = if c.req == 0 {
        catch(|| Font::load(dir))
    } else {
        catch(|| Font::load_requested_data(dir, data_request(c.req)))
    };
    let mut o = Obs { tm: Tm::L(vec![]), loaded: false, panic: None, error: None, oracle: vec![], info_keys: vec![], writer_ok };
    match r {
        Err(msg) => {
            o.tm = Tm::L(vec![Tm::N(2), Tm::N(0)]);
            o.panic = Some(msg);
        }
        Ok(Err(e)) => {
            o.tm = Tm::L(vec![Tm::N(1), tm_error(&e)]);
            o.error = Some(format!("{:?}", e).chars().take(200).collect());
        }
        Ok(Ok(font)) => {
            o.loaded = true;
            let d = fields::dump(&font.font_info);
            let mut info = vec![];
            for (idx, t) in d.into_iter().enumerate() {
                if let Some(t) = t {
                    info.push(Tm::L(vec![Tm::N(idx as u64), t]));
                    o.info_keys.push(fields::KEYS[idx].to_string());
                }
            }
            let mut lib: BTreeMap<&String, &plist::Value> = BTreeMap::new();
            for (k, v) in font.lib.iter() {
                lib.insert(k, v);
            }
            let libtm = Tm::L(lib.iter().map(|(k, v)| Tm::L(vec![tm_str(k), tm_plist(v)])).collect());
            let ver = font.meta.format_version as u8;
            o.tm = Tm::L(vec![Tm::N(0), tm_i(ver as i128), Tm::L(info), tm_str(&font.features), libtm]);
            // ---- direct oracle: reports format 3, passes validation, can be saved
            o.oracle.push(("format_version_is_3".into(), ver == 3));
            let v = catch(|| font.font_info.validate());
            o.oracle.push(("validate_ok".into(), matches!(v, Ok(Ok(())))));
            let out = dir.with_extension("saved.ufo");
            let s = catch(|| font.save(&out));
            let saved = matches!(s, Ok(Ok(())));
            o.oracle.push(("save_ok".into(), saved));
            if saved {
                let mv = plist::Value::from_file(out.join("metainfo.plist"))
                    .ok()
                    .and_then(|v| v.into_dictionary())
                    .and_then(|d| d.get("formatVersion").and_then(|x| x.as_unsigned_integer()));
                o.oracle.push(("saved_metainfo_says_3".into(), mv == Some(3)));
                match catch(|| Font::load(&out)) {
                    Ok(Ok(f2)) => {
                        o.oracle.push(("reload_ok".into(), true));
                        if !has_nan(&font.font_info) {
                            o.oracle.push(("reload_info_equal".into(), f2.font_info == font.font_info));
                        }
                        o.oracle.push(("reload_features_equal".into(), f2.features == font.features));
                        o.oracle.push(("reload_lib_equal".into(), f2.lib == font.lib));
                    }
                    _ => o.oracle.push(("reload_ok".into(), false)),
                }
            }
            let _ = std::fs::remove_dir_all(&out);
        }
    }
    let _ = std::fs::remove_dir_all(dir);
    o
}

// ---------------------------------------------------------------------------------- generator
pub struct Schema {
    pub v1: Vec<(String, String)>,
    pub v2: Vec<(String, String)>,
    pub v1_conv: Option<Vec<String>>,
    pub v2_conv: Option<Vec<String>>,
}
fn load_schema(p: &Path) -> Schema {
    let j: J = serde_json::from_str(&std::fs::read_to_string(p).expect("schema file")).expect("schema json");
    let f = |k: &str| {
        j[k].as_array()
            .unwrap()
            .iter()
            .map(|kv| (kv[0].as_str().unwrap().to_string(), kv[1].as_str().unwrap().to_string()))
            .collect()
    };
    // legacy keys whose conversion is not a plain copy (round, abs, ...); absent: treat all as such
    let g = |k: &str| -> Option<Vec<String>> {
        j.get(k).and_then(|a| a.as_array()).map(|a| a.iter().filter_map(|x| x.as_str().map(|s| s.to_string())).collect())
    };
    Schema { v1: f("v1"), v2: f("v2"), v1_conv: g("v1_conv"), v2_conv: g("v2_conv") }
}

const FONT_STYLES: [i128; 5] = [0, 1, 32, 33, 64];
const CHARSETS: [i128; 20] =
    [0, 1, 2, 77, 128, 129, 130, 134, 136, 161, 162, 163, 177, 178, 186, 200, 204, 222, 238, 255];
const WIDTHS: [&str; 13] = [
    "Ultra-condensed", "Extra-condensed", "Condensed", "Semi-condensed", "Medium (normal)", "Normal",
    "All", "medium", "Medium", "Semi-expanded", "Expanded", "Extra-expanded", "Ultra-expanded",
];
const STYLES: [&str; 4] = ["regular", "italic", "bold", "bold italic"];

/// a legal value for the attribute, distinct per (attribute index, salt)
fn legal(key: &str, ty: &str, idx: usize, salt: u64) -> P {
    let n = (idx as i128) * 37 + 101 + (salt as i128) * 4001;
    match (key, ty) {
        ("openTypeHeadCreated", _) => P::Str(format!(
            "{:04}/{:02}/{:02} {:02}:{:02}:{:02}",
            1900 + (n % 200),
            1 + (n % 12),
            1 + (n % 31),
            n % 24,
            n % 60,
            (n / 7) % 60
        )),
        ("openTypeOS2Selection", _) => {
            let pool = [1i128, 2, 3, 4, 7, 8, 9];
            P::Arr((0..(1 + n % 3)).map(|k| P::Int(pool[((n + k) % 7) as usize])).collect())
        }
        ("fontStyle", _) => P::Int(FONT_STYLES[(n % 5) as usize]),
        ("msCharSet", _) => P::Int(CHARSETS[(n % 20) as usize]),
        ("widthName", _) => P::Str(WIDTHS[(n % 13) as usize].to_string()),
        ("postscriptBlueValues", _) | ("postscriptFamilyBlues", _) => {
            P::Arr((0..(2 * (n % 8))).map(|k| num(n + k, k)).collect())
        }
        ("postscriptOtherBlues", _) | ("postscriptFamilyOtherBlues", _) => {
            P::Arr((0..(2 * (n % 6))).map(|k| num(n + k, k)).collect())
        }
        ("postscriptStemSnapH", _) | ("postscriptStemSnapV", _) => {
            P::Arr((0..(n % 13)).map(|k| num(n + 3 * k, k)).collect())
        }
        (_, "TNum") => num(n, n),
        (_, "TNonNegNum") => num(n, 0),
        (_, "TI32") => P::Int(if n % 2 == 0 { n } else { -n }),
        (_, "TU32") => P::Int(n),
        (_, "TStr") => P::Str(format!("{}#{}", key, n)),
        (_, "TBool") => P::Bool(n % 2 == 0),
        (_, "TNums") => P::Arr((0..(n % 5)).map(|k| num(n + k, k)).collect()),
        (_, "TBits") => P::Arr((0..(n % 4)).map(|k| P::Int((n + 11 * k) % 32)).collect()),
        (_, "TFamilyClass") => P::Arr(vec![P::Int(n % 15), P::Int((n / 3) % 16)]),
        (_, "TPanose") => P::Arr((0..10).map(|k| P::Int((n + k) % 23)).collect()),
        (_, "TPanoseV2") => P::Arr((0..10).map(|k| P::Int(if k % 3 == 0 { -((n + k) % 23) } else { (n + k) % 23 })).collect()),
        (_, "TStyle") => P::Str(STYLES[(n % 4) as usize].to_string()),
        (_, "TWidth") => P::Int(1 + n % 9),
        (_, "TCharSet") => P::Int(1 + n % 20),
        _ => P::Str(format!("?{}", ty)),
    }
}
/// a number with a fractional part chosen by `sel` (.0 as <integer>, .0 as <real>, .25, .5, .75,
/// negative)
fn num(n: i128, sel: i128) -> P {
    match sel.rem_euclid(7) {
        0 => P::Int(n),
        1 => P::Real(n as f64),
        2 => P::Real(n as f64 + 0.25),
        3 => P::Real(n as f64 + 0.5),
        4 => P::Real(-(n as f64) - 0.5),
        5 => P::Real(n as f64 + 0.75),
        _ => P::Real(-(n as f64) - 0.25),
    }
}

fn special_reals() -> Vec<f64> {
    let mut v = vec![
        0.0, -0.0, 0.5, -0.5, 1.5, -1.5, 2.5, -2.5, 3.5, 0.49999999999999994, -0.49999999999999994,
        0.9999999999999999, 1.0000000000000002, 1e-17, 5e-324, -5e-324, 2.2250738585072014e-308,
        0.1, -0.1, 0.25, 0.75, 1.0 / 3.0, 7.3, -7.3, 12.5, -12.5, 750.0, -750.0, 1000.49, 1000.51,
        2147483646.5, 2147483647.0, 2147483647.4, 2147483647.5, 2147483648.0, 2147483648.5,
        -2147483647.5, -2147483648.0, -2147483648.4, -2147483648.5, -2147483649.0, 3e9, -3e9,
        4294967294.5, 4294967295.0, 4294967295.4, 4294967295.5, 4294967296.0, -4294967295.5,
        -4294967296.0, 4503599627370495.5, 4503599627370496.5, 9007199254740992.0, 1e15, 1e19, -1e19,
        1e300, -1e300, f64::MAX, f64::MIN, f64::INFINITY, f64::NEG_INFINITY, f64::NAN,
    ];
    for k in [1.0f64, 2.0, 1000.0, 2147483647.0, 4294967295.0] {
        v.push(f64::from_bits(k.to_bits() + 1));
        v.push(f64::from_bits(k.to_bits() - 1));
        v.push(-f64::from_bits(k.to_bits() + 1));
    }
    v
}
/// the neighbours in the binary64 order (bit pattern +-1)
fn succ(x: f64) -> f64 {
    if x == 0.0 {
        f64::from_bits(1)
    } else if x > 0.0 {
        f64::from_bits(x.to_bits() + 1)
    } else {
        f64::from_bits(x.to_bits() - 1)
    }
}
fn pred(x: f64) -> f64 {
    -succ(-x)
}
/// every rounding / cast boundary the conversions have, with its two neighbours, both signs:
/// halves k + 0.5 (small k, around the i32 / u32 limits, the last half below 2^52), the
/// integers themselves (small, the type limits, 2^52, 2^53, 2^63, 2^64) and zero (-0.0 and the
/// smallest subnormals)
fn boundary_reals() -> Vec<f64> {
    let mut base: Vec<f64> = vec![];
    for k in [0.0f64, 1.0, 2.0, 3.0, 4.0, 10.0, 99.0, 1000.0, 32767.0, 65535.0, 2147483646.0, 2147483647.0,
              2147483648.0, 4294967294.0, 4294967295.0, 4294967296.0, 4503599627370495.0] {
        base.push(k + 0.5);
    }
    for k in [0.0f64, 1.0, 2.0, 3.0, 1000.0, 2147483647.0, 2147483648.0, 4294967295.0, 4294967296.0,
              4503599627370496.0, 9007199254740992.0, 9223372036854775808.0, 18446744073709551616.0] {
        base.push(k);
    }
    let mut out: Vec<f64> = vec![];
    let mut seen = std::collections::BTreeSet::new();
    for b in base {
        for x in [b, pred(b), succ(b)] {
            for y in [x, -x] {
                if seen.insert(y.to_bits()) {
                    out.push(y);
                }
            }
        }
    }
    out
}

fn special_ints() -> Vec<i128> {
    vec![
        0, 1, -1, 2, -2, 255, 256, 65535, 2147483647, 2147483648, -2147483648, -2147483649, 4294967295,
        4294967296, 9007199254740992, 9007199254740993, -9007199254740993, 9223372036854775807,
        -9223372036854775808, 18446744073709551615, 9223372036854775808, 18014398509481985,
    ]
}

fn case(label: &str, version: u8, fi: Option<Vec<(String, P)>>, lib: Option<Vec<(String, P)>>, fea: Option<&str>) -> Case {
    Case { label: label.to_string(), version, fontinfo: fi, lib, fea: fea.map(|s| s.to_string()), rot: 0, req: 0 }
}

fn schema_of(s: &Schema, v: u8) -> &Vec<(String, String)> {
    if v == 1 {
        &s.v1
    } else {
        &s.v2
    }
}

const LIB_HINT: &str = "org.robofab.postScriptHintData";
const LIB_CLASSES: &str = "org.robofab.opentype.classes";
const LIB_ORDER: &str = "org.robofab.opentype.featureorder";
const LIB_FEATURES: &str = "org.robofab.opentype.features";

fn rand_plist(r: &mut Rng, depth: u32) -> P {
    match r.below(if depth == 0 { 5 } else { 7 }) {
        0 => P::Int(r.range(-1000, 1000) as i128),
        1 => P::Real(r.range(-4000, 4000) as f64 / 8.0),
        2 => P::Str(format!("v{}", r.below(1000))),
        3 => P::Bool(r.chance(1, 2)),
        4 => P::Data((0..r.below(6)).map(|_| r.below(256) as u8).collect()),
        5 => P::Arr((0..r.below(4)).map(|_| rand_plist(r, depth - 1)).collect()),
        _ => P::Dict((0..r.below(4)).map(|k| (format!("k{}{}", k, r.below(50)), rand_plist(r, depth - 1))).collect()),
    }
}

fn hint_dict(r: &mut Rng, full: bool, valid: bool) -> Vec<(String, P)> {
    let mut d: Vec<(String, P)> = vec![];
    let mut pairs = |r: &mut Rng, maxpairs: u64| -> P {
        let n = if valid { r.below(maxpairs + 1) } else { r.below(maxpairs + 3) };
        P::Arr(
            (0..n)
                .map(|k| {
                    if valid || r.chance(3, 4) {
                        P::Arr(vec![num(r.range(-300, 900) as i128, k as i128), num(r.range(-300, 900) as i128, 0)])
                    } else {
                        // odd total length / empty inner list
                        P::Arr((0..r.below(4)).map(|_| P::Int(r.range(-9, 9) as i128)).collect())
                    }
                })
                .collect(),
        )
    };
    let keys: [(&str, u8); 10] = [
        ("blueFuzz", 0), ("blueScale", 0), ("blueShift", 0), ("blueValues", 7), ("otherBlues", 5),
        ("familyBlues", 7), ("familyOtherBlues", 5), ("forceBold", 1), ("hStems", 2), ("vStems", 2),
    ];
    for (k, kind) in keys.iter() {
        if !(full || r.chance(1, 2)) {
            continue;
        }
        let v = match kind {
            0 => num(r.range(0, 40) as i128, r.range(0, 6) as i128),
            1 => P::Bool(r.chance(1, 2)),
            2 => {
                let n = if valid { r.below(13) } else { r.below(16) };
                P::Arr((0..n).map(|q| num(r.range(10, 300) as i128, q as i128)).collect())
            }
            m => pairs(r, *m as u64),
        };
        d.push((k.to_string(), v));
    }
    if r.chance(1, 4) {
        d.push(("someOtherKey".into(), rand_plist(r, 1)));
    }
    d
}

fn feature_lib(r: &mut Rng) -> Vec<(String, P)> {
    let tags = ["kern", "liga", "aalt", "smcp", "c2sc", "Zzzz", "a", "ab", "B", "\u{e9}x"];
    let mut lib = vec![];
    if r.chance(2, 3) {
        let c = match r.below(4) {
            0 => String::new(),
            1 => "@caps = [A B C];\n".to_string(),
            2 => "@a=[a];".to_string(),
            _ => format!("# classes {}\n@x = [x y];\n", r.below(100)),
        };
        lib.push((LIB_CLASSES.to_string(), P::Str(c)));
    }
    let mut present: Vec<&str> = vec![];
    if r.chance(4, 5) {
        let n = r.below(5) as usize;
        let mut pool: Vec<&str> = tags.to_vec();
        let mut blocks = vec![];
        for _ in 0..n {
            let t = pool.remove(r.below(pool.len() as u64) as usize);
            present.push(t);
            let body = if r.chance(1, 8) { String::new() } else { format!("feature {} {{ sub a by b{}; }} {};\n", t, r.below(100), t) };
            blocks.push((t.to_string(), P::Str(body)));
        }
        lib.push((LIB_FEATURES.to_string(), P::Dict(blocks)));
    }
    if r.chance(1, 2) {
        // an order list: a permutation / subset of the blocks, unknown tags, duplicates
        let mut order: Vec<P> = vec![];
        let mut pool = present.clone();
        while !pool.is_empty() && r.chance(5, 6) {
            order.push(P::Str(pool.remove(r.below(pool.len() as u64) as usize).to_string()));
        }
        if r.chance(1, 3) {
            order.insert(r.below(order.len() as u64 + 1) as usize, P::Str("none".into()));
        }
        if !order.is_empty() && r.chance(1, 4) {
            let d = order[r.below(order.len() as u64) as usize].clone();
            order.push(d);
        }
        lib.push((LIB_ORDER.to_string(), P::Arr(order)));
    }
    lib
}

fn other_lib_entries(r: &mut Rng) -> Vec<(String, P)> {
    let mut v = vec![];
    let names = ["com.example.foo", "public.glyphOrder", "org.robofab.other", "org.robofab.opentype.featureorderX", "z", "A", "public.objectLibs"];
    for n in names.iter() {
        if r.chance(1, 3) {
            v.push((n.to_string(), rand_plist(r, 2)));
        }
    }
    v
}

fn shuffle<T>(r: &mut Rng, v: &mut Vec<T>) {
    for k in (1..v.len()).rev() {
        let j = r.below(k as u64 + 1) as usize;
        v.swap(k, j);
    }
}

pub fn gen_cases(s: &Schema, seed: u64, thorough: bool) -> Vec<Case> {
    let mut r = Rng::new(seed ^ 0xC14);
    let mut cs: Vec<Case> = vec![];
    let scale: u64 = if thorough { 20 } else { 1 };

    // -- A. every legacy attribute individually, a few distinct values each
    for v in [1u8, 2u8] {
        let sch = schema_of(s, v).clone();
        for (idx, (k, t)) in sch.iter().enumerate() {
            for salt in 0..(3 * scale) {
                cs.push(case(&format!("single:{}", k), v, Some(vec![(k.clone(), legal(k, t, idx, salt + seed % 97))]), None, None));
            }
        }
        // -- B. all attributes together with distinct values; random subsets
        for salt in 0..(6 * scale) {
            let mut fi: Vec<(String, P)> =
                sch.iter().enumerate().map(|(idx, (k, t))| (k.clone(), legal(k, t, idx, salt + seed % 89))).collect();
            if salt % 2 == 1 {
                shuffle(&mut r, &mut fi);
            }
            cs.push(case("all-attributes", v, Some(fi), None, None));
        }
        for _ in 0..(60 * scale) {
            let mut fi: Vec<(String, P)> = vec![];
            let p = 1 + r.below(4);
            for (idx, (k, t)) in sch.iter().enumerate() {
                if r.chance(p, 5) {
                    fi.push((k.clone(), legal(k, t, idx, r.below(1000))));
                }
            }
            shuffle(&mut r, &mut fi);
            cs.push(case("subset", v, Some(fi), None, None));
        }
        cs.push(case("empty-fontinfo", v, Some(vec![]), None, None));
        cs.push(case("no-fontinfo", v, None, None, None));
    }

    // -- C. enumeration codes, exhaustively over a window around the tables
    for code in -5i128..=300 {
        cs.push(case("fontStyle-code", 1, Some(vec![("fontStyle".into(), P::Int(code))]), None, None));
        cs.push(case("msCharSet-code", 1, Some(vec![("msCharSet".into(), P::Int(code))]), None, None));
    }
    for code in [-2147483648i128, -1000, 301, 1000, 65536, 2147483647] {
        cs.push(case("fontStyle-code-far", 1, Some(vec![("fontStyle".into(), P::Int(code))]), None, None));
        cs.push(case("msCharSet-code-far", 1, Some(vec![("msCharSet".into(), P::Int(code))]), None, None));
    }
    for w in -5i128..=12 {
        cs.push(case("weightValue", 1, Some(vec![("weightValue".into(), P::Int(w))]), None, None));
    }
    for w in [-2147483648i128, -2147483647, -1000, 400, 1000, 2147483647] {
        cs.push(case("weightValue-far", 1, Some(vec![("weightValue".into(), P::Int(w))]), None, None));
    }
    // several enumerations at once: which error is reported first
    for _ in 0..(80 * scale) {
        let mut fi = vec![];
        let code = |r: &mut Rng, good: &[i128]| -> i128 {
            if r.chance(1, 2) { *r.pick(good) } else { r.range(-3, 260) as i128 }
        };
        if r.chance(4, 5) { fi.push(("fontStyle".to_string(), P::Int(code(&mut r, &FONT_STYLES)))); }
        if r.chance(4, 5) { fi.push(("msCharSet".to_string(), P::Int(code(&mut r, &CHARSETS)))); }
        if r.chance(4, 5) {
            let w = if r.chance(1, 2) { r.pick(&WIDTHS).to_string() } else { "Wide".to_string() };
            fi.push(("widthName".to_string(), P::Str(w)));
        }
        if r.chance(1, 2) { fi.push(("weightValue".to_string(), P::Int(r.range(-2, 3) as i128))); }
        shuffle(&mut r, &mut fi);
        cs.push(case("enum-combination", 1, Some(fi), None, None));
    }

    // -- D. width names and near misses
    let mut names: Vec<String> = WIDTHS.iter().map(|s| s.to_string()).collect();
    for w in WIDTHS.iter() {
        names.push(w.to_lowercase());
        names.push(w.to_uppercase());
        names.push(format!("{} ", w));
        names.push(format!(" {}", w));
        names.push(w[..w.len() - 1].to_string());
        names.push(format!("{}x", w));
        names.push(w.replace('-', " "));
        names.push(w.replace('-', ""));
    }
    for extra in ["", "normal", "Regular", "Medium(normal)", "Medium (Normal)", "all", "ALL", "Bold", "5", "Ultra\u{2010}condensed", "M\u{e9}dium", "Expanded\n", "\"Normal\""] {
        names.push(extra.to_string());
    }
    for n in names {
        cs.push(case("widthName", 1, Some(vec![("widthName".into(), P::Str(n))]), None, None));
    }

    // -- E. numeric classes on every numeric conversion
    let reals = special_reals();
    let ints = special_ints();
    for v in [1u8, 2u8] {
        let sch = schema_of(s, v).clone();
        let numeric: Vec<&(String, String)> = sch.iter().filter(|(_, t)| t == "TNum").collect();
        let int32: Vec<&(String, String)> = sch.iter().filter(|(_, t)| t == "TI32").collect();
        // every numeric attribute meets every special value in thorough; a rotating slice in quick
        for (fi, (k, _)) in numeric.iter().enumerate() {
            for (vi, x) in reals.iter().enumerate() {
                if thorough || (vi + fi + seed as usize) % 6 == 0 || k == "unitsPerEm" {
                    cs.push(case("real-class", v, Some(vec![(k.to_string(), P::Real(*x))]), None, None));
                }
            }
            for (vi, z) in ints.iter().enumerate() {
                if thorough || (vi + fi + seed as usize) % 5 == 0 || k == "unitsPerEm" {
                    cs.push(case("int-for-number", v, Some(vec![(k.to_string(), P::Int(*z))]), None, None));
                }
            }
        }
        // ties and the casts' boundaries reach every numeric attribute in every run
        let always = [0.5f64, -0.5, 1.5, -1.5, 2.5, -2.5, 1000.5, -1000.5, 2147483647.5, -2147483648.5, 4294967295.5, -3e9, 3e9];
        for (k, _) in numeric.iter() {
            for x in always.iter() {
                cs.push(case("real-tie", v, Some(vec![(k.to_string(), P::Real(*x))]), None, None));
            }
        }
        // the boundary neighbours: on every attribute with a numeric conversion in every run, on
        // the copied ones in rotation
        let conv = if v == 1 { &s.v1_conv } else { &s.v2_conv };
        let bounds = boundary_reals();
        for (fi, (k, _)) in numeric.iter().enumerate() {
            let converted = conv.as_ref().map(|c| c.contains(k)).unwrap_or(true);
            for (vi, x) in bounds.iter().enumerate() {
                if converted || thorough || (vi + fi + seed as usize) % 8 == 0 {
                    cs.push(case("real-boundary", v, Some(vec![(k.to_string(), P::Real(*x))]), None, None));
                }
            }
        }
        let uint32: Vec<&(String, String)> = sch.iter().filter(|(_, t)| t == "TU32").collect();
        for (k, _) in uint32.iter() {
            for z in ints.iter() {
                cs.push(case("uint-class", v, Some(vec![(k.to_string(), P::Int(*z))]), None, None));
            }
            cs.push(case("real-for-uint", v, Some(vec![(k.to_string(), P::Real(400.0))]), None, None));
        }
        for (fi, (k, _)) in int32.iter().enumerate() {
            for (vi, z) in ints.iter().enumerate() {
                if thorough || (vi + fi) % 4 == 0 || k == "versionMinor" || k == "weightValue" {
                    cs.push(case("int-class", v, Some(vec![(k.to_string(), P::Int(*z))]), None, None));
                }
            }
            cs.push(case("real-for-int", v, Some(vec![(k.to_string(), P::Real(3.0))]), None, None));
        }
        // random numbers on random numeric attributes
        for _ in 0..(150 * scale) {
            let (k, _) = *r.pick(&numeric);
            let x = match r.below(5) {
                0 => r.range(-5000, 5000) as f64 / 2.0,
                1 => r.range(-100000, 100000) as f64 / 16.0,
                2 => f64::from_bits(r.next()),
                3 => (r.range(-3, 3) as f64) * 2147483647.75 + r.range(-2, 2) as f64 * 0.5,
                _ => r.range(-40, 40) as f64 + 0.5,
            };
            cs.push(case("real-random", v, Some(vec![(k.to_string(), P::Real(x))]), None, None));
        }
    }
    // panose
    for _ in 0..(12 * scale) {
        let l: Vec<P> = (0..10)
            .map(|_| P::Int(*r.pick(&[0i128, 1, -1, 5, -5, 255, -256, 2147483647, -2147483648, -2147483647])))
            .collect();
        cs.push(case("panose", 2, Some(vec![("openTypeOS2Panose".into(), P::Arr(l))]), None, None));
    }
    for n in [0usize, 9, 11] {
        cs.push(case("panose-length", 2, Some(vec![("openTypeOS2Panose".into(), P::Arr((0..n).map(|k| P::Int(k as i128)).collect()))]), None, None));
    }
    cs.push(case("panose-out-of-range", 2, Some(vec![("openTypeOS2Panose".into(), P::Arr((0..10).map(|k| P::Int(if k == 4 { 2147483648 } else { 1 })).collect()))]), None, None));

    // -- F. format-2 enumerations are read by the typed reader
    for w in -1i128..=11 {
        cs.push(case("v2-widthClass", 2, Some(vec![("openTypeOS2WidthClass".into(), P::Int(w))]), None, None));
    }
    for c in [-1i128, 0, 1, 2, 19, 20, 21, 255, 256] {
        cs.push(case("v2-charset", 2, Some(vec![("postscriptWindowsCharacterSet".into(), P::Int(c))]), None, None));
    }
    for st in ["regular", "italic", "bold", "bold italic", "Regular", "bolditalic", "", "italic "] {
        cs.push(case("v2-styleMapStyleName", 2, Some(vec![("styleMapStyleName".into(), P::Str(st.into()))]), None, None));
    }

    // -- G. converted info that fails validation
    let dates = [
        "2020/01/01 00:00:00", "2020/12/31 23:59:59", "2020/13/01 00:00:00", "2020/00/10 00:00:00",
        "2020/01/00 00:00:00", "2020/01/32 00:00:00", "2020/01/01 24:00:00", "2020/01/01 00:60:00",
        "2020/01/01 00:00:60", "2020-01-01 00:00:00", "2020/01/01T00:00:00", "2020/1/1 0:0:0",
        "2020/01/01 00:00:0", "2020/01/01 00:00:000", "", "0000/01/01 00:00:00", "9999/12/31 23:59:59",
        " 020/01/01 00:00:00", "2020/ 1/01 00:00:00", "2020/01/01 00:00:0\u{e9}", "2020/01/01  0:00:00",
        "20200/1/01 00:00:00", "2020/01/01/00:00:00", "2020/01/01 00 00 00", "////////// ::::::::",
    ];
    for d in dates.iter() {
        cs.push(case("v2-date", 2, Some(vec![("openTypeHeadCreated".into(), P::Str(d.to_string()))]), None, None));
    }
    for bits in [vec![], vec![0i128], vec![5], vec![6], vec![1, 2, 3, 4], vec![7, 8, 9, 0], vec![1, 6, 2], vec![255], vec![256], vec![-1]] {
        cs.push(case("v2-selection", 2, Some(vec![("openTypeOS2Selection".into(), P::Arr(bits.into_iter().map(P::Int).collect()))]), None, None));
    }
    for fc in [vec![0i128, 0], vec![14, 15], vec![15, 0], vec![0, 16], vec![14, 16], vec![255, 255], vec![1], vec![1, 2, 3], vec![], vec![256, 0]] {
        cs.push(case("v2-familyClass", 2, Some(vec![("openTypeOS2FamilyClass".into(), P::Arr(fc.into_iter().map(P::Int).collect()))]), None, None));
    }
    for (k, _max) in [("postscriptBlueValues", 14), ("postscriptOtherBlues", 10), ("postscriptFamilyBlues", 14), ("postscriptFamilyOtherBlues", 10), ("postscriptStemSnapH", 12), ("postscriptStemSnapV", 12)] {
        for n in 0..=16usize {
            cs.push(case("v2-ps-list-length", 2, Some(vec![(k.to_string(), P::Arr((0..n).map(|q| num(q as i128 * 10, q as i128)).collect()))]), None, None));
        }
    }
    // several invalid attributes at once: which check fires first
    for _ in 0..(30 * scale) {
        let mut fi = vec![];
        if r.chance(1, 2) { fi.push(("openTypeHeadCreated".to_string(), P::Str(r.pick(&dates).to_string()))); }
        if r.chance(1, 2) { fi.push(("openTypeOS2Selection".to_string(), P::Arr(vec![P::Int(r.below(8) as i128)]))); }
        if r.chance(1, 2) { fi.push(("openTypeOS2FamilyClass".to_string(), P::Arr(vec![P::Int(r.range(12, 16) as i128), P::Int(r.range(13, 17) as i128)]))); }
        for k in ["postscriptBlueValues", "postscriptOtherBlues", "postscriptFamilyBlues", "postscriptFamilyOtherBlues", "postscriptStemSnapH", "postscriptStemSnapV"] {
            if r.chance(1, 3) {
                fi.push((k.to_string(), P::Arr((0..r.range(8, 16)).map(|q| P::Int(q as i128)).collect())));
            }
        }
        shuffle(&mut r, &mut fi);
        cs.push(case("v2-invalid-combination", 2, Some(fi), None, None));
    }

    // -- H. format-1 lib data
    for i in 0..(260 * scale) {
        let mut lib = vec![];
        if r.chance(3, 4) {
            let valid = r.chance(3, 4);
            lib.push((LIB_HINT.to_string(), P::Dict(hint_dict(&mut r, i % 7 == 0, valid))));
        }
        lib.extend(feature_lib(&mut r));
        lib.extend(other_lib_entries(&mut r));
        shuffle(&mut r, &mut lib);
        let fea = match r.below(3) { 0 => None, 1 => Some("# features.fea on disk\n"), _ => Some("") };
        let sch = &s.v1;
        let fi = if r.chance(2, 3) {
            let mut fi: Vec<(String, P)> = vec![];
            for (idx, (k, t)) in sch.iter().enumerate() {
                if r.chance(1, 6) { fi.push((k.clone(), legal(k, t, idx, r.below(500)))); }
            }
            Some(fi)
        } else { None };
        // the same lib under format 2 must be left alone
        let ver = if i % 6 == 5 { 2 } else { 1 };
        let fi = if ver == 2 { None } else { fi };
        cs.push(case("robofab", ver, fi, Some(lib), fea));
    }
    cs.push(case("robofab-empty-lib", 1, None, Some(vec![]), None));
    cs.push(case("robofab-empty-lib-fea", 1, None, Some(vec![]), Some("languagesystem DFLT dflt;\n")));
    cs.push(case("robofab-empty-features-dict", 1, None, Some(vec![(LIB_FEATURES.into(), P::Dict(vec![]))]), Some("on disk")));
    cs.push(case("robofab-empty-classes", 1, None, Some(vec![(LIB_CLASSES.into(), P::Str("".into()))]), Some("on disk")));
    cs.push(case("robofab-order-only", 1, None, Some(vec![(LIB_ORDER.into(), P::Arr(vec![P::Str("kern".into())]))]), Some("on disk")));
    cs.push(case("robofab-hint-empty", 1, Some(vec![("fontStyle".into(), P::Int(64))]), Some(vec![(LIB_HINT.into(), P::Dict(vec![]))]), None));
    // ill-typed lib data
    let bad: Vec<(&str, P)> = vec![
        (LIB_CLASSES, P::Int(1)), (LIB_ORDER, P::Str("kern".into())), (LIB_ORDER, P::Arr(vec![P::Int(1)])),
        (LIB_FEATURES, P::Arr(vec![])), (LIB_FEATURES, P::Dict(vec![("kern".into(), P::Int(1))])),
        (LIB_HINT, P::Arr(vec![])), (LIB_HINT, P::Dict(vec![("blueFuzz".into(), P::Str("1".into()))])),
        (LIB_HINT, P::Dict(vec![("blueValues".into(), P::Arr(vec![P::Int(1), P::Int(2)]))])),
        (LIB_HINT, P::Dict(vec![("hStems".into(), P::Arr(vec![P::Arr(vec![P::Int(1)])]))])),
        (LIB_HINT, P::Dict(vec![("forceBold".into(), P::Int(1))])),
        (LIB_HINT, P::Dict(vec![("forceBold".into(), P::Bool(false)), ("blueScale".into(), P::Bool(true))])),
    ];
    for (k, v) in bad {
        for ver in [1u8, 2u8] {
            cs.push(case("robofab-ill-typed", ver, None, Some(vec![(k.to_string(), v.clone()), ("keep".into(), P::Int(7))]), None));
        }
    }

    // -- I. files the typed reader rejects
    for v in [1u8, 2u8] {
        let sch = schema_of(s, v).clone();
        let other = schema_of(s, 3 - v).clone();
        for (k, t) in other.iter() {
            if !sch.iter().any(|(k2, _)| k2 == k) && (thorough || r.chance(1, 3)) {
                cs.push(case("foreign-key", v, Some(vec![(k.clone(), legal(k, t, 3, 1))]), None, None));
            }
        }
        for k in ["guidelines", "woffMajorVersion", "openTypeGaspRangeRecords", "unknownKey", "Ascender", "ascender "] {
            cs.push(case("unknown-key", v, Some(vec![(k.to_string(), P::Int(1))]), None, None));
        }
        for (idx, (k, t)) in sch.iter().enumerate() {
            if thorough || (idx + seed as usize) % 3 == 0 {
                let wrong = match t.as_str() {
                    "TStr" | "TStyle" => P::Int(5),
                    "TBool" => P::Str("true".into()),
                    "TNum" => P::Str("12".into()),
                    "TNums" | "TBits" | "TFamilyClass" | "TPanoseV2" => P::Int(3),
                    _ => P::Real(1.5),
                };
                cs.push(case("wrong-type", v, Some(vec![(k.clone(), wrong)]), None, None));
            }
        }
    }

    // the request dimension: the conversion must not depend on what the caller asked for. Every
    // tree with a lib.plist is also loaded under each non-default request, every third other
    // tree under one of them in rotation.
    let base = cs.len();
    for i in 0..base {
        if cs[i].lib.is_some() {
            for q in 1..REQUESTS.len() {
                let mut c = cs[i].clone();
                c.req = q;
                cs.push(c);
            }
        } else if cs[i].label != "real-boundary" && (i + seed as usize) % 3 == 0 {
            let mut c = cs[i].clone();
            c.req = 1 + (i / 3 + seed as usize) % (REQUESTS.len() - 1);
            cs.push(c);
        }
    }
    // surface variation: rotate the order in which the dictionaries are written
    for (i, c) in cs.iter_mut().enumerate() {
        let n = c.fontinfo.as_ref().map(|d| d.len()).unwrap_or(0).max(c.lib.as_ref().map(|d| d.len()).unwrap_or(0));
        if n > 1 && i % 3 == 1 {
            c.rot = 1 + (i + seed as usize) % (n - 1);
        }
    }
    cs
}

fn corpus_cases(dir: &Path) -> Vec<Case> {
    let mut v = vec![];
    if let Ok(rd) = std::fs::read_dir(dir) {
        let mut files: Vec<_> = rd.filter_map(|e| e.ok()).map(|e| e.path()).filter(|p| p.extension().map(|e| e == "json").unwrap_or(false)).collect();
        files.sort();
        for p in files {
            if let Ok(txt) = std::fs::read_to_string(&p) {
                if let Ok(j) = serde_json::from_str::<J>(&txt) {
                    let inp = j.get("input").cloned().unwrap_or(j);
                    if inp.get("version").is_some() {
                        let mut c = case_j(&inp);
                        c.label = format!("corpus:{}", p.file_name().unwrap().to_string_lossy());
                        v.push(c);
                    }
                }
            }
        }
    }
    v
}

fn run_cases(a: &Args, cases: Vec<Case>) {
    std::fs::create_dir_all(&a.out).unwrap();
    let work = a.out.join("ufo");
    std::fs::create_dir_all(&work).unwrap();
    let mut lines = String::new();
    let mut jl = String::new();
    let mut dist: BTreeMap<String, u64> = BTreeMap::new();
    let mut outcome: BTreeMap<String, u64> = BTreeMap::new();
    let mut by_request: BTreeMap<String, u64> = BTreeMap::new();
    let mut keys_seen: BTreeMap<String, u64> = BTreeMap::new();
    for (i, c) in cases.iter().enumerate() {
        let dir = work.join(format!("c{}.ufo", i));
        let o = observe(&dir, c);
        // the same abstract input written in canonical order must behave identically
        let mut tm = o.tm.clone();
        let mut variant_differs = false;
        if c.rot != 0 {
            let mut c0 = c.clone();
            c0.rot = 0;
            let o0 = observe(&dir, &c0);
            if o0.tm != o.tm {
                variant_differs = true;
                tm = Tm::L(vec![Tm::N(98), o0.tm.clone(), o.tm.clone()]);
            }
        }
        lines.push_str(&format!("({}, {})\n", g_case(c), tm.to_string()));
        let kind = c.label.split(':').next().unwrap().to_string();
        *dist.entry(kind).or_insert(0) += 1;
        *by_request.entry(REQUESTS[c.req].0.to_string()).or_insert(0) += 1;
        let oc = if o.loaded { "loaded" } else if o.panic.is_some() { "panic" } else { "error" };
        *outcome.entry(oc.to_string()).or_insert(0) += 1;
        for k in &o.info_keys {
            *keys_seen.entry(k.clone()).or_insert(0) += 1;
        }
        let mut j = j_case(c);
        j["index"] = json!(i);
        j["loaded"] = json!(o.loaded);
        j["panic"] = json!(o.panic);
        j["error"] = json!(o.error);
        j["variant_differs"] = json!(variant_differs);
        j["writer_roundtrip"] = json!(o.writer_ok);
        j["oracle"] = json!(o.oracle.iter().map(|(k, v)| json!([k, v])).collect::<Vec<_>>());
        j["info_keys"] = json!(o.info_keys);
        jl.push_str(&j.to_string());
        jl.push('\n');
    }
    write_file(&a.out.join("cases.txt"), &lines);
    write_file(&a.out.join("cases.jsonl"), &jl);
    let summary = json!({
        "cases": cases.len(), "by_kind": dist, "by_outcome": outcome, "by_request": by_request,
        "format3_attributes_observed_set": keys_seen.len(), "attribute_hits": keys_seen,
    });
    write_file(&a.out.join("summary.json"), &summary.to_string());
    let _ = std::fs::remove_dir_all(&work);
}

pub fn main(a: &Args) {
    if let Some(rp) = &a.replay {
        // a file with one JSON case (or a replay file with an "input" member)
        let j: J = serde_json::from_str(&std::fs::read_to_string(rp).expect("replay file")).expect("json");
        let inp = j.get("input").cloned().unwrap_or(j);
        let c = case_j(&inp);
        std::fs::create_dir_all(&a.out).unwrap();
        let o = observe(&a.out.join("replay.ufo"), &c);
        println!("input: {}", j_case(&c));
        println!("generated files parse back to the intended values: {}", o.writer_ok);
        println!("loaded: {}", o.loaded);
        if let Some(e) = &o.error {
            println!("error: {}", e);
        }
        if let Some(p) = &o.panic {
            println!("panic: {}", p);
        }
        println!("format-3 attributes set: {:?}", o.info_keys);
        for (k, v) in &o.oracle {
            println!("oracle {}: {}", k, v);
        }
        println!("dump: {}", o.tm.to_string());
        return;
    }
    let mut schema_path = None;
    let mut corpus = None;
    let mut i = 0;
    while i < a.extra.len() {
        match a.extra[i].as_str() {
            "--schema" => {
                schema_path = Some(a.extra[i + 1].clone());
                i += 1;
            }
            "--corpus" => {
                corpus = Some(a.extra[i + 1].clone());
                i += 1;
            }
            _ => {}
        }
        i += 1;
    }
    let s = load_schema(Path::new(&schema_path.expect("--schema FILE required")));
    let mut cases = vec![];
    if let Some(c) = corpus {
        cases.extend(corpus_cases(Path::new(&c)));
    }
    cases.extend(gen_cases(&s, a.seed, a.thorough()));
    run_cases(a, cases);
}
