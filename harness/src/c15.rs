//! C15: group validation and legacy kerning upconversion through Font::load of generated
//! V1/V2/V3 UFO directories and Font::save.
//!
//! For every case the harness writes (a) the case as a Gallina term together with everything the
//! implementation did (load outcome with the resulting groups and kerning or the error variant,
//! outcome of saving a font that carries the given groups, class flags) for the comparison with
//! the Coq model, and (b) the verdict of the property's own predicate, evaluated by an
//! independent reading of the property text (`oracle_*` below; no knowledge of how norad names
//! the new groups: the renaming is searched for).
use crate::util::*;
use norad::error::{FontLoadError, FontWriteError, GroupsValidationError};
use norad::{Font, Name};
use std::collections::{BTreeMap, BTreeSet};
use std::fmt::Write as _;
use std::path::{Path, PathBuf};

pub const K1: &str = "public.kern1.";
pub const K2: &str = "public.kern2.";
pub const MMKL: &str = "@MMK_L_";
pub const MMKR: &str = "@MMK_R_";

pub type GMap = BTreeMap<String, Vec<String>>;
pub type KMap = BTreeMap<String, BTreeMap<String, u64>>; // f64 by bit pattern

#[derive(Clone, Debug)]
pub struct GlyphSpec {
    pub name: String,
    pub inner: Option<String>, // name attribute inside the glif, if different
    pub comps: Vec<String>,    // component bases
}

#[derive(Clone, Debug)]
pub struct Case {
    pub ver: u8,
    pub groups: Option<GMap>,
    pub kerning: Option<KMap>,
    pub glyphs: Vec<GlyphSpec>,
    pub shuffle: u64, // order in which dictionary keys are written to the files
}

impl Case {
    pub fn glyph_names(&self) -> BTreeSet<String> {
        self.glyphs.iter().map(|g| g.name.clone()).collect()
    }
    /// content of norad's NameList after loading the layers
    pub fn interned(&self) -> BTreeSet<String> {
        let mut s = BTreeSet::new();
        for g in &self.glyphs {
            s.insert(g.name.clone());
            if let Some(i) = &g.inner {
                s.insert(i.clone());
            }
            for c in &g.comps {
                s.insert(c.clone());
            }
        }
        s
    }
    pub fn to_json(&self) -> serde_json::Value {
        use serde_json::{json, Value};
        let g = match &self.groups {
            None => Value::Null,
            Some(g) => Value::Array(g.iter().map(|(n, ms)| json!([n, ms])).collect()),
        };
        let k = match &self.kerning {
            None => Value::Null,
            Some(k) => Value::Array(
                k.iter()
                    .map(|(a, row)| {
                        json!([a, row.iter().map(|(b, v)| json!([b, f64::from_bits(*v)])).collect::<Vec<_>>()])
                    })
                    .collect(),
            ),
        };
        let gl: Vec<Value> = self
            .glyphs
            .iter()
            .map(|g| json!({"name": g.name, "inner": g.inner, "components": g.comps}))
            .collect();
        json!({"format_version": self.ver, "groups": g, "kerning": k, "glyphs": gl, "shuffle": self.shuffle})
    }
    pub fn from_json(v: &serde_json::Value) -> Case {
        let groups = v["groups"].as_array().map(|a| {
            a.iter()
                .map(|e| {
                    (
                        e[0].as_str().unwrap().to_string(),
                        e[1].as_array().unwrap().iter().map(|m| m.as_str().unwrap().to_string()).collect(),
                    )
                })
                .collect::<GMap>()
        });
        let kerning = v["kerning"].as_array().map(|a| {
            a.iter()
                .map(|e| {
                    (
                        e[0].as_str().unwrap().to_string(),
                        e[1].as_array()
                            .unwrap()
                            .iter()
                            .map(|p| (p[0].as_str().unwrap().to_string(), p[1].as_f64().unwrap().to_bits()))
                            .collect::<BTreeMap<String, u64>>(),
                    )
                })
                .collect::<KMap>()
        });
        let glyphs = v["glyphs"]
            .as_array()
            .map(|a| {
                a.iter()
                    .map(|g| GlyphSpec {
                        name: g["name"].as_str().unwrap().to_string(),
                        inner: g["inner"].as_str().map(|s| s.to_string()),
                        comps: g["components"]
                            .as_array()
                            .map(|c| c.iter().map(|x| x.as_str().unwrap().to_string()).collect())
                            .unwrap_or_default(),
                    })
                    .collect()
            })
            .unwrap_or_default();
        Case {
            ver: v["format_version"].as_u64().unwrap_or(2) as u8,
            groups,
            kerning,
            glyphs,
            shuffle: v["shuffle"].as_u64().unwrap_or(0),
        }
    }
}

// ------------------------------------------------------------------ dump tree with string leaves
#[derive(Clone, Debug, PartialEq)]
pub enum O {
    N(u64),
    V(u64), // kerning value (bit pattern)
    S(String),
    L(Vec<O>),
}
/// Names are sent to Coq as indices into one table per run (a string literal costs ten term
/// nodes per byte; a shard of 4 000 cases with literal names took a minute to type-check),
/// kerning values (f64 bit patterns, only ever copied) as indices into a value table.
#[derive(Default)]
pub struct Interner {
    pub names: Vec<String>,
    idx: std::collections::HashMap<String, usize>,
    pub vals: Vec<u64>,
    vidx: std::collections::HashMap<u64, usize>,
}
impl Interner {
    pub fn name(&mut self, s: &str) -> usize {
        if let Some(i) = self.idx.get(s) {
            return *i;
        }
        self.names.push(s.to_string());
        self.idx.insert(s.to_string(), self.names.len() - 1);
        self.names.len() - 1
    }
    pub fn val(&mut self, v: u64) -> usize {
        if let Some(i) = self.vidx.get(&v) {
            return *i;
        }
        self.vals.push(v);
        self.vidx.insert(v, self.vals.len() - 1);
        self.vals.len() - 1
    }
}
impl O {
    /// `in_val`: numbers directly under a kerning pair are value indices
    pub fn render(&self, out: &mut String, it: &mut Interner) {
        match self {
            O::N(n) => {
                let _ = write!(out, "EN {}", n);
            }
            O::V(v) => {
                let _ = write!(out, "EN {}", it.val(*v));
            }
            O::S(s) => {
                let _ = write!(out, "EI {}", it.name(s));
            }
            O::L(l) => {
                out.push_str("EL [");
                for (i, t) in l.iter().enumerate() {
                    if i > 0 {
                        out.push(';');
                    }
                    t.render(out, it);
                }
                out.push(']');
            }
        }
    }
}
/// Hash of a dump tree, computed the same way by Run/C15.v ([otm_hash]); the outcomes of the
/// enumerated cases are compared by hash (one numeral per case instead of sixty).
/// tokens: N n -> 1,n ; V v -> 1,(v/10 as integer: the enumerated cases use 10,20,..) ;
/// S s -> 2,len,bytes ; L l -> 3,len,children.  h' = (h * 1000003 + token + 1) mod 2^63.
pub fn o_hash(o: &O) -> u64 {
    fn feed(h: &mut u64, x: u64) {
        *h = h.wrapping_mul(1_000_003).wrapping_add(x).wrapping_add(1) & ((1u64 << 63) - 1);
    }
    fn go(o: &O, h: &mut u64) {
        match o {
            O::N(n) => {
                feed(h, 1);
                feed(h, *n);
            }
            O::V(v) => {
                feed(h, 1);
                feed(h, (f64::from_bits(*v) / 10.0) as u64);
            }
            O::S(s) => {
                feed(h, 2);
                feed(h, s.len() as u64);
                for b in s.bytes() {
                    feed(h, b as u64);
                }
            }
            O::L(l) => {
                feed(h, 3);
                feed(h, l.len() as u64);
                for x in l {
                    go(x, h);
                }
            }
        }
    }
    let mut h: u64 = 7;
    go(o, &mut h);
    h
}
fn o_groups(g: &GMap) -> O {
    O::L(g.iter()
        .map(|(n, ms)| O::L(vec![O::S(n.clone()), O::L(ms.iter().map(|m| O::S(m.clone())).collect())]))
        .collect())
}
fn o_kerning(k: &KMap) -> O {
    O::L(k.iter()
        .map(|(a, row)| {
            O::L(vec![
                O::S(a.clone()),
                O::L(row.iter().map(|(b, v)| O::L(vec![O::S(b.clone()), O::V(*v)])).collect()),
            ])
        })
        .collect())
}
fn o_gerr(e: &GroupsValidationError) -> O {
    match e {
        GroupsValidationError::InvalidName => O::L(vec![O::N(0)]),
        GroupsValidationError::OverlappingKerningGroups { glyph_name, group_name } => {
            O::L(vec![O::N(1), O::S(glyph_name.to_string()), O::S(group_name.to_string())])
        }
        #[allow(unreachable_patterns)]
        _ => O::L(vec![O::N(7)]),
    }
}

// ------------------------------------------------------------------ Gallina rendering of a case
fn g_names<'a, I: IntoIterator<Item = &'a String>>(xs: I, it: &mut Interner) -> String {
    let mut s = String::from("[");
    for (i, x) in xs.into_iter().enumerate() {
        if i > 0 {
            s.push(';');
        }
        let _ = write!(s, "{}", it.name(x));
    }
    s.push(']');
    s
}
pub fn render_case(c: &Case, it: &mut Interner) -> String {
    let mut s = String::new();
    let _ = write!(s, "mkcase {} ", c.ver);
    match &c.groups {
        None => s.push_str("None"),
        Some(g) => {
            s.push_str("(Some [");
            for (i, (n, ms)) in g.iter().enumerate() {
                if i > 0 {
                    s.push(';');
                }
                let _ = write!(s, "({},{})", it.name(n), g_names(ms, it));
            }
            s.push_str("])");
        }
    }
    s.push(' ');
    match &c.kerning {
        None => s.push_str("None"),
        Some(k) => {
            s.push_str("(Some [");
            for (i, (a, row)) in k.iter().enumerate() {
                if i > 0 {
                    s.push(';');
                }
                let _ = write!(s, "({},[", it.name(a));
                for (j, (b, v)) in row.iter().enumerate() {
                    if j > 0 {
                        s.push(';');
                    }
                    let _ = write!(s, "({},{})", it.name(b), it.val(*v));
                }
                s.push_str("])");
            }
            s.push_str("])");
        }
    }
    s.push(' ');
    s.push_str(&g_names(c.interned().iter(), it));
    s.push(' ');
    s.push_str(&g_names(c.glyph_names().iter(), it));
    s
}

// ------------------------------------------------------------------ writing the UFO
pub fn esc(s: &str) -> String {
    let mut o = String::new();
    for c in s.chars() {
        match c {
            '&' => o.push_str("&amp;"),
            '<' => o.push_str("&lt;"),
            '>' => o.push_str("&gt;"),
            '"' => o.push_str("&quot;"),
            c => o.push(c),
        }
    }
    o
}
pub const HEAD: &str = "<?xml version=\"1.0\" encoding=\"UTF-8\"?>\n<plist version=\"1.0\">\n";

pub fn order<T: Clone>(items: Vec<T>, shuffle: u64, salt: u64) -> Vec<T> {
    let mut v = items;
    if shuffle != 0 {
        let mut r = Rng::new(shuffle ^ salt);
        for k in (1..v.len()).rev() {
            let j = r.below(k as u64 + 1) as usize;
            v.swap(k, j);
        }
    }
    v
}

fn fmt_val(bits: u64) -> String {
    let v = f64::from_bits(bits);
    if v.fract() == 0.0 && v.abs() < 1e9 {
        format!("<integer>{}</integer>", v as i64)
    } else {
        format!("<real>{}</real>", v)
    }
}

pub fn groups_plist(g: &GMap, shuffle: u64) -> String {
    let mut s = String::from(HEAD);
    s.push_str("<dict>\n");
    for (n, ms) in order(g.iter().collect::<Vec<_>>(), shuffle, 1) {
        let _ = write!(s, "<key>{}</key><array>", esc(n));
        for m in ms {
            let _ = write!(s, "<string>{}</string>", esc(m));
        }
        s.push_str("</array>\n");
    }
    s.push_str("</dict>\n</plist>\n");
    s
}
pub fn kerning_plist(k: &KMap, shuffle: u64) -> String {
    let mut s = String::from(HEAD);
    s.push_str("<dict>\n");
    for (a, row) in order(k.iter().collect::<Vec<_>>(), shuffle, 2) {
        let _ = write!(s, "<key>{}</key><dict>", esc(a));
        for (b, v) in order(row.iter().collect::<Vec<_>>(), shuffle, 3) {
            let _ = write!(s, "<key>{}</key>{}", esc(b), fmt_val(*v));
        }
        s.push_str("</dict>\n");
    }
    s.push_str("</dict>\n</plist>\n");
    s
}

pub fn write_ufo(dir: &Path, c: &Case) {
    let _ = std::fs::remove_dir_all(dir);
    std::fs::create_dir_all(dir.join("glyphs")).unwrap();
    write_file(
        &dir.join("metainfo.plist"),
        &format!(
            "{}<dict><key>creator</key><string>org.verif.c15</string><key>formatVersion</key><integer>{}</integer></dict>\n</plist>\n",
            HEAD, c.ver
        ),
    );
    if let Some(g) = &c.groups {
        write_file(&dir.join("groups.plist"), &groups_plist(g, c.shuffle));
    }
    if let Some(k) = &c.kerning {
        write_file(&dir.join("kerning.plist"), &kerning_plist(k, c.shuffle));
    }
    if c.ver == 3 {
        write_file(
            &dir.join("layercontents.plist"),
            &format!("{}<array><array><string>public.default</string><string>glyphs</string></array></array>\n</plist>\n", HEAD),
        );
    }
    let mut contents = String::from(HEAD);
    contents.push_str("<dict>\n");
    let fmt = if c.ver == 3 { 2 } else { 1 };
    for (i, g) in c.glyphs.iter().enumerate() {
        let _ = writeln!(contents, "<key>{}</key><string>g{}.glif</string>", esc(&g.name), i);
        let mut glif = String::from("<?xml version=\"1.0\" encoding=\"UTF-8\"?>\n");
        let _ = writeln!(glif, "<glyph name=\"{}\" format=\"{}\">", esc(g.inner.as_ref().unwrap_or(&g.name)), fmt);
        glif.push_str("<advance width=\"500\"/>\n<outline>\n");
        for b in &g.comps {
            let _ = writeln!(glif, "<component base=\"{}\"/>", esc(b));
        }
        glif.push_str("</outline>\n</glyph>\n");
        write_file(&dir.join("glyphs").join(format!("g{}.glif", i)), &glif);
    }
    contents.push_str("</dict>\n</plist>\n");
    write_file(&dir.join("glyphs").join("contents.plist"), &contents);
}

// ------------------------------------------------------------------ what the implementation did
#[derive(Clone, Debug)]
pub enum LoadOut {
    Ok(GMap, KMap),
    InvalidGroups(O),
    UpconversionFailure(O),
    Other(String),
    Panicked(String),
}
#[derive(Clone, Debug, PartialEq)]
pub enum SaveOut {
    NotRun,
    Ok,
    InvalidGroups(O),
    Other(String),
    Panicked(String),
}

fn font_gk(f: &Font) -> (GMap, KMap) {
    let g = f.groups.iter().map(|(n, ms)| (n.to_string(), ms.iter().map(|m| m.to_string()).collect())).collect();
    let k = f
        .kerning
        .iter()
        .map(|(a, row)| (a.to_string(), row.iter().map(|(b, v)| (b.to_string(), v.to_bits())).collect()))
        .collect();
    (g, k)
}

pub struct Observed {
    pub load: LoadOut,
    pub save_direct: SaveOut,   // Font::new() carrying the given groups (and kerning), saved
    pub resave: SaveOut,        // the loaded font saved again (sampled)
    pub resave_same: bool,      // ... and loaded again: same groups and kerning
}

pub fn observe(dir: &Path, c: &Case, do_resave: bool) -> Observed {
    observe_with(dir, c, do_resave, &|_| {}).0
}

/// `extra` may add files to the generated UFO before it is loaded; the loaded font is returned too
pub fn observe_with(dir: &Path, c: &Case, do_resave: bool, extra: &dyn Fn(&Path)) -> (Observed, Option<Font>) {
    let ufo = dir.join("in.ufo");
    write_ufo(&ufo, c);
    extra(&ufo);
    let mut loaded: Option<Font> = None;
    let load = match catch(|| Font::load(&ufo)) {
        Err(m) => LoadOut::Panicked(m),
        Ok(Err(FontLoadError::InvalidGroups(e))) => LoadOut::InvalidGroups(o_gerr(&e)),
        Ok(Err(FontLoadError::GroupsUpconversionFailure(e))) => LoadOut::UpconversionFailure(o_gerr(&e)),
        Ok(Err(e)) => LoadOut::Other(format!("{:?}", e).chars().take(200).collect()),
        Ok(Ok(f)) => {
            let (g, k) = font_gk(&f);
            loaded = Some(f);
            LoadOut::Ok(g, k)
        }
    };
    let mut resave = SaveOut::NotRun;
    let mut resave_same = true;
    if let (Some(f), true) = (&loaded, do_resave) {
        let out = dir.join("out.ufo");
        let _ = std::fs::remove_dir_all(&out);
        resave = match catch(|| f.save(&out)) {
            Err(m) => SaveOut::Panicked(m),
            Ok(Err(FontWriteError::InvalidGroups(e))) => SaveOut::InvalidGroups(o_gerr(&e)),
            Ok(Err(e)) => SaveOut::Other(format!("{:?}", e).chars().take(200).collect()),
            Ok(Ok(())) => SaveOut::Ok,
        };
        if resave == SaveOut::Ok {
            match catch(|| Font::load(&out)) {
                Ok(Ok(f2)) => resave_same = font_gk(&f2) == font_gk(f),
                _ => resave_same = false,
            }
        }
    }
    let mut save_direct = SaveOut::NotRun;
    if let Some(g) = &c.groups {
        let made = catch(|| {
            let mut f = Font::new();
            for (n, ms) in g {
                f.groups.insert(Name::new(n).unwrap(), ms.iter().map(|m| Name::new(m).unwrap()).collect());
            }
            if let Some(k) = &c.kerning {
                for (a, row) in k {
                    f.kerning.insert(
                        Name::new(a).unwrap(),
                        row.iter().map(|(b, v)| (Name::new(b).unwrap(), f64::from_bits(*v))).collect(),
                    );
                }
            }
            f
        });
        if let Ok(f) = made {
            let out = dir.join("direct.ufo");
            let _ = std::fs::remove_dir_all(&out);
            save_direct = match catch(|| f.save(&out)) {
                Err(m) => SaveOut::Panicked(m),
                Ok(Err(FontWriteError::InvalidGroups(e))) => SaveOut::InvalidGroups(o_gerr(&e)),
                Ok(Err(e)) => SaveOut::Other(format!("{:?}", e).chars().take(200).collect()),
                Ok(Ok(())) => SaveOut::Ok,
            };
        }
    }
    (Observed { load, save_direct, resave, resave_same }, loaded)
}

// ------------------------------------------------------------------ the property's own predicates
/// "Groups in which a glyph belongs to two first-side or two second-side groups, or whose
/// kerning-group name is only the prefix" are invalid; all other groups are valid.  As in the
/// reference implementation a glyph listed twice in one kerning group counts as two.
pub fn groups_ok(g: &GMap) -> bool {
    for pre in [K1, K2] {
        let mut seen: BTreeSet<&str> = BTreeSet::new();
        for (n, ms) in g {
            if n.starts_with(pre) {
                if n == pre {
                    return false;
                }
                for m in ms {
                    if !seen.insert(m.as_str()) {
                        return false;
                    }
                }
            }
        }
    }
    true
}

/// the groups that have to be duplicated, by the property text: legacy prefix, or used on that
/// side of a kerning pair (a kerning key naming a group, not a glyph, not already in new form)
pub fn spec_cands(g: &GMap, k: &KMap, glyphs: &BTreeSet<String>) -> (BTreeSet<String>, BTreeSet<String>) {
    let mut c1 = BTreeSet::new();
    let mut c2 = BTreeSet::new();
    for n in g.keys() {
        if n.starts_with(MMKL) {
            c1.insert(n.clone());
        }
        if n.starts_with(MMKR) {
            c2.insert(n.clone());
        }
    }
    for (a, row) in k {
        if g.contains_key(a) && !glyphs.contains(a) && !a.starts_with(K1) {
            c1.insert(a.clone());
        }
        for b in row.keys() {
            if g.contains_key(b) && !glyphs.contains(b) && !b.starts_with(K2) {
                c2.insert(b.clone());
            }
        }
    }
    (c1, c2)
}

#[derive(Debug, PartialEq)]
pub enum Conv {
    Ok,
    GroupsFail(String),
    PairsFail(String),
}

fn assignments(cands: &[String], news: &[String], g: &GMap, g2: &GMap) -> Vec<BTreeMap<String, String>> {
    // all bijections cands -> news with identical member lists
    fn go(
        i: usize,
        cands: &[String],
        news: &[String],
        used: &mut Vec<bool>,
        cur: &mut BTreeMap<String, String>,
        g: &GMap,
        g2: &GMap,
        out: &mut Vec<BTreeMap<String, String>>,
    ) {
        if out.len() >= 5000 {
            return;
        }
        if i == cands.len() {
            out.push(cur.clone());
            return;
        }
        for j in 0..news.len() {
            if !used[j] && g2.get(&news[j]) == g.get(&cands[i]) {
                used[j] = true;
                cur.insert(cands[i].clone(), news[j].clone());
                go(i + 1, cands, news, used, cur, g, g2, out);
                cur.remove(&cands[i]);
                used[j] = false;
            }
        }
    }
    let mut out = vec![];
    if cands.len() == news.len() {
        go(0, cands, news, &mut vec![false; news.len()], &mut BTreeMap::new(), g, g2, &mut out);
    }
    out
}

/// the relation "Upconverted" of the property text: originals kept, every candidate duplicated
/// under a distinct fresh name of its side with identical members, nothing else added, every
/// pair renamed with its value unchanged and nothing else in the kerning
pub fn oracle_upconverted(g: &GMap, k: &KMap, glyphs: &BTreeSet<String>, g2: &GMap, k2: &KMap) -> Conv {
    for (n, ms) in g {
        if g2.get(n) != Some(ms) {
            return Conv::GroupsFail(format!("original group {:?} missing or altered", n));
        }
    }
    let mut n1 = vec![];
    let mut n2 = vec![];
    for n in g2.keys() {
        if !g.contains_key(n) {
            if n.starts_with(K1) {
                n1.push(n.clone());
            } else if n.starts_with(K2) {
                n2.push(n.clone());
            } else {
                return Conv::GroupsFail(format!("group {:?} added without a kerning prefix", n));
            }
        }
    }
    let (c1, c2) = spec_cands(g, k, glyphs);
    let c1: Vec<String> = c1.into_iter().collect();
    let c2: Vec<String> = c2.into_iter().collect();
    if c1.len() != n1.len() || c2.len() != n2.len() {
        return Conv::GroupsFail(format!(
            "groups to duplicate: first side {:?}, second side {:?}; new groups found: {:?} {:?}",
            c1, c2, n1, n2
        ));
    }
    let a1 = assignments(&c1, &n1, g, g2);
    let a2 = assignments(&c2, &n2, g, g2);
    if a1.is_empty() || a2.is_empty() {
        return Conv::GroupsFail("no assignment of new names to the groups to duplicate with identical members".into());
    }
    let mut why = String::new();
    for s1 in &a1 {
        for s2 in &a2 {
            let mut want: BTreeMap<(String, String), u64> = BTreeMap::new();
            let mut rows: BTreeSet<String> = BTreeSet::new();
            let mut clash = false;
            for (a, row) in k {
                let a2n = s1.get(a).unwrap_or(a).clone();
                if !rows.insert(a2n.clone()) {
                    clash = true;
                }
                for (b, v) in row {
                    let b2n = s2.get(b).unwrap_or(b).clone();
                    if want.insert((a2n.clone(), b2n), *v).is_some() {
                        clash = true;
                    }
                }
            }
            let mut have: BTreeMap<(String, String), u64> = BTreeMap::new();
            for (a, row) in k2 {
                for (b, v) in row {
                    have.insert((a.clone(), b.clone()), *v);
                }
            }
            let have_rows: BTreeSet<String> = k2.keys().cloned().collect();
            if !clash && want == have && rows == have_rows {
                return Conv::Ok;
            }
            if why.is_empty() {
                why = if clash {
                    "two kerning keys coincide after renaming; a pair or row was lost".to_string()
                } else {
                    format!("kerning after conversion {:?} is not the renamed input {:?}", have, want)
                };
            }
        }
    }
    Conv::PairsFail(why)
}

/// may a conforming conversion of valid legacy groups be refused?  Only when the result the
/// property demands (copies with identical members under first/second-side names) is itself
/// invalid by the first sentence of the property, or a new name would be the bare prefix.
pub fn refusal_justified(g: &GMap, k: &KMap, glyphs: &BTreeSet<String>) -> bool {
    let (c1, c2) = spec_cands(g, k, glyphs);
    for (pre, cs, pat) in [(K1, &c1, MMKL), (K2, &c2, MMKR)] {
        let mut seen: BTreeSet<&str> = BTreeSet::new();
        for (n, ms) in g {
            if n.starts_with(pre) {
                for m in ms {
                    if !seen.insert(m) {
                        return true;
                    }
                }
            }
        }
        for c in cs.iter() {
            if c.replace(pat, "").is_empty() {
                return true;
            }
            for m in &g[c] {
                if !seen.insert(m) {
                    return true;
                }
            }
        }
    }
    false
}

/// Class predicate "PairCollision" (input-determined): with the new names made the way the
/// reference algorithm makes them (ascending candidate order, legacy prefix removed, first free
/// of name, name1, name2, ...), two first-level kerning keys or two keys of one row coincide
/// after renaming.  Used only to classify an oracle failure, never to judge one.
pub fn class_pair_collision(g: &GMap, k: &KMap, interned: &BTreeSet<String>) -> bool {
    let (c1, c2) = spec_cands(g, k, interned);
    let mut gn: BTreeSet<String> = g.keys().cloned().collect();
    let mut tabs: Vec<BTreeMap<String, String>> = vec![];
    for (pre, pat, cs) in [(K1, MMKL, &c1), (K2, MMKR, &c2)] {
        let mut t = BTreeMap::new();
        for c in cs.iter() {
            let base = format!("{}{}", pre, c.replace(pat, ""));
            let mut n = base.clone();
            let mut i = 1u64;
            while gn.contains(&n) {
                n = format!("{}{}", base, i);
                i += 1;
            }
            gn.insert(n.clone());
            t.insert(c.clone(), n);
        }
        tabs.push(t);
    }
    let mut rows = BTreeSet::new();
    for (a, row) in k {
        if !rows.insert(tabs[0].get(a).unwrap_or(a).clone()) {
            return true;
        }
        let mut bs = BTreeSet::new();
        for b in row.keys() {
            if !bs.insert(tabs[1].get(b).unwrap_or(b).clone()) {
                return true;
            }
        }
    }
    false
}

pub struct Verdict {
    pub expected: O,            // everything observable, for the comparison with the model
    pub failures: Vec<(String, String)>, // (class or "", what) of the property oracle
    pub converted: bool,
    pub f21: bool,
    pub pc: bool,
}

pub fn judge(c: &Case, ob: &Observed) -> Verdict {
    let glyphs = c.glyph_names();
    let interned = c.interned();
    let empty_k = KMap::new();
    let kin = c.kerning.as_ref().unwrap_or(&empty_k);
    let mut failures: Vec<(String, String)> = vec![];
    let legacy = c.ver < 3;
    // class flags
    let mut f21 = false;
    let mut pc = false;
    let mut converted = false;
    if let (Some(g), true) = (&c.groups, legacy) {
        if groups_ok(g) {
            f21 = spec_cands(g, kin, &glyphs) != spec_cands(g, kin, &interned);
            pc = class_pair_collision(g, kin, &interned);
            if let LoadOut::Ok(g2, _) = &ob.load {
                converted = g2.len() > g.len();
            }
        }
    }
    // ---- the comparison dump
    let load_o = match &ob.load {
        LoadOut::Ok(g2, k2) => O::L(vec![O::N(0), o_groups(g2), o_kerning(k2)]),
        LoadOut::InvalidGroups(e) => O::L(vec![O::N(1), e.clone()]),
        LoadOut::UpconversionFailure(e) => O::L(vec![O::N(2), e.clone()]),
        LoadOut::Other(_) => O::L(vec![O::N(8)]),
        LoadOut::Panicked(_) => O::L(vec![O::N(9)]),
    };
    let save_o = match &ob.save_direct {
        SaveOut::NotRun => O::L(vec![]),
        SaveOut::Ok => O::L(vec![O::N(0)]),
        SaveOut::InvalidGroups(e) => O::L(vec![O::N(1), e.clone()]),
        SaveOut::Other(_) => O::L(vec![O::N(8)]),
        SaveOut::Panicked(_) => O::L(vec![O::N(9)]),
    };
    let expected = O::L(vec![load_o, save_o, O::N(f21 as u64), O::N(pc as u64)]);

    // ---- the property oracle
    match &ob.load {
        LoadOut::Panicked(m) => failures.push(("".into(), format!("Font::load panicked: {}", m))),
        LoadOut::Other(m) => failures.push(("".into(), format!("Font::load failed for another reason: {}", m))),
        _ => {}
    }
    if let LoadOut::Ok(g2, k2) = &ob.load {
        if !groups_ok(g2) {
            failures.push(("".into(), "Font::load returned groups that violate the kerning group rules".into()));
        }
        match (&c.groups, legacy) {
            (None, _) => {
                if !g2.is_empty() || k2 != kin {
                    failures.push(("".into(), "no groups file: groups must be empty and kerning unchanged".into()));
                }
            }
            (Some(g), false) => {
                if g2 != g || k2 != kin {
                    failures.push(("".into(), "format 3: groups and kerning must be returned unaltered".into()));
                }
            }
            (Some(g), true) => {
                let r = oracle_upconverted(g, kin, &glyphs, g2, k2);
                if r != Conv::Ok {
                    // known classes: judged with the interner's content instead of the glyph names (F21),
                    // and the overwritten pair (PairCollision)
                    let ri = if f21 { oracle_upconverted(g, kin, &interned, g2, k2) } else { Conv::Ok };
                    let what = format!("{:?}", r);
                    if f21 && (ri == Conv::Ok || (matches!(ri, Conv::PairsFail(_)) && pc)) {
                        failures.push(("F21".into(), what));
                    } else if !f21 && matches!(r, Conv::PairsFail(_)) && pc {
                        failures.push(("PairCollision".into(), what));
                    } else {
                        failures.push(("".into(), what));
                    }
                }
            }
        }
    }
    if let Some(g) = &c.groups {
        let ok = groups_ok(g);
        match &ob.load {
            LoadOut::Ok(..) if !ok => {
                failures.push(("".into(), "Font::load accepted groups that violate the kerning group rules".into()))
            }
            LoadOut::InvalidGroups(_) if ok => {
                failures.push(("".into(), "Font::load refused valid groups".into()))
            }
            LoadOut::UpconversionFailure(_) => {
                if !ok || !legacy {
                    failures.push(("".into(), "GroupsUpconversionFailure outside a conversion of valid groups".into()));
                } else if !refusal_justified(g, kin, &glyphs) {
                    if f21 && refusal_justified(g, kin, &interned) {
                        failures.push(("F21".into(), "valid legacy groups refused (judged by the interned names)".into()));
                    } else {
                        failures.push(("".into(), "valid legacy groups refused although the demanded result is valid".into()));
                    }
                }
            }
            _ => {}
        }
        if legacy && ok {
            if let LoadOut::Ok(..) = &ob.load {
                if refusal_justified(g, kin, &glyphs) && !f21 {
                    failures.push(("".into(), "conversion accepted although the demanded result is invalid".into()));
                }
            }
        }
        match &ob.save_direct {
            SaveOut::Ok if !ok => failures.push(("".into(), "Font::save wrote groups that violate the kerning group rules".into())),
            SaveOut::InvalidGroups(_) if ok => failures.push(("".into(), "Font::save refused valid groups".into())),
            SaveOut::Other(m) => failures.push(("".into(), format!("Font::save failed for another reason: {}", m))),
            SaveOut::Panicked(m) => failures.push(("".into(), format!("Font::save panicked: {}", m))),
            _ => {}
        }
    }
    match &ob.resave {
        SaveOut::NotRun => {}
        SaveOut::Ok => {
            if !ob.resave_same {
                failures.push(("".into(), "saving the loaded font and loading it again changed groups or kerning".into()));
            }
        }
        other => failures.push(("".into(), format!("saving the loaded font failed: {:?}", other))),
    }
    Verdict { expected, failures, converted, f21, pc }
}

// ------------------------------------------------------------------ generators
pub const UNIVERSES: [[&str; 5]; 2] = [
    ["A", "@MMK_L_A", "@MMK_R_A", "public.kern1.A", "public.kern2.A"],
    ["A", "A1", "@MMK_L_A", "public.kern1.A", "public.kern1.A1"],
];

fn subsets_le3() -> Vec<Vec<usize>> {
    let mut v = vec![vec![]];
    for a in 0..5 {
        v.push(vec![a]);
    }
    for a in 0..5 {
        for b in a + 1..5 {
            v.push(vec![a, b]);
        }
    }
    for a in 0..5 {
        for b in a + 1..5 {
            for c in b + 1..5 {
                v.push(vec![a, b, c]);
            }
        }
    }
    v
}
fn pairsets_le2() -> Vec<Vec<usize>> {
    let mut v = vec![vec![]];
    for a in 0..25 {
        v.push(vec![a]);
    }
    for a in 0..25 {
        for b in a + 1..25 {
            v.push(vec![a, b]);
        }
    }
    v
}

pub struct Exh {
    gs: Vec<Vec<usize>>,
    ps: Vec<Vec<usize>>,
    pub mvs: usize,
    pub glyph_variants: usize,
}
impl Exh {
    pub fn new(mvs: usize) -> Exh {
        Exh { gs: subsets_le3(), ps: pairsets_le2(), mvs, glyph_variants: 6 }
    }
    pub fn len(&self) -> usize {
        self.gs.len() * self.ps.len() * self.mvs * self.glyph_variants
    }
    pub fn case(&self, u: &[&str; 5], mut idx: usize) -> Case {
        let gv = idx % self.glyph_variants;
        idx /= self.glyph_variants;
        let mv = idx % self.mvs;
        idx /= self.mvs;
        let pi = idx % self.ps.len();
        idx /= self.ps.len();
        let gi = idx;
        let mut g = GMap::new();
        for &i in &self.gs[gi] {
            let ms = match mv {
                0 => vec![format!("m{}", i)],
                1 => vec!["x".to_string()],
                _ => vec![format!("m{}", i), "x".to_string()],
            };
            g.insert(u[i].to_string(), ms);
        }
        let mut k = KMap::new();
        for (j, &p) in self.ps[pi].iter().enumerate() {
            k.entry(u[p / 5].to_string()).or_default().insert(u[p % 5].to_string(), ((j + 1) as f64 * 10.0).to_bits());
        }
        let glyphs = if gv == 0 { vec![] } else { vec![GlyphSpec { name: u[gv - 1].to_string(), inner: None, comps: vec![] }] };
        Case { ver: 1 + (pi % 2) as u8, groups: Some(g), kerning: Some(k), glyphs, shuffle: 0 }
    }
}

const POOL: [&str; 26] = [
    "A", "B", "A1", "A2", "@MMK_L_A", "@MMK_L_B", "@MMK_R_A", "@MMK_R_B", "@MMK_L_@MMK_L_A", "@MMK_L_", "@MMK_R_",
    "@MMK_@MMK_L_L_A", "@MMK_L_A1", "public.kern1.A", "public.kern1.A1", "public.kern1.A2", "public.kern1.B",
    "public.kern2.A", "public.kern2.A1", "public.kern1.", "public.kern2.", "public.kern1.@MMK_L_A", "public.kern3.A",
    "\u{e9}", "@MMK_L_\u{e9}", "a\"b<&",
];
const GLYPHPOOL: [&str; 6] = ["x", "y", "z", "A", "B", "public.kern1.A"];

pub fn random_case(seed: u64, idx: u64, harvested: &[String]) -> Case {
    let mut r = Rng::new(seed.wrapping_mul(0x2545_F491_4F6C_DD1D) ^ idx.wrapping_mul(0x9E37_79B9_7F4A_7C15) ^ 0xC15);
    // a small sub-universe, so that the set relations between names are dense
    let usize_ = 3 + r.below(6) as usize;
    let mut uni: Vec<&str> = vec![];
    while uni.len() < usize_ {
        // one name in four from around the prefixes in byte order / from the source's literals
        let n: &str = if r.chance(1, 4) {
            let k = r.below((VAL_NAMES.len() + harvested.len()) as u64) as usize;
            if k < VAL_NAMES.len() {
                VAL_NAMES[k]
            } else {
                harvested[k - VAL_NAMES.len()].as_str()
            }
        } else {
            *r.pick(&POOL)
        };
        // the bare prefixes make the whole file invalid: keep them rare
        if (n == K1 || n == K2) && !r.chance(1, 6) {
            continue;
        }
        if !uni.contains(&n) {
            uni.push(n);
        }
    }
    let ver = match r.below(10) {
        0 | 1 => 3,
        2..=4 => 1,
        _ => 2,
    };
    let overlap_mode = r.below(4); // 0: distinct members; 1..: members drawn from a shared pool more and more
    let groups = if r.chance(1, 12) {
        None
    } else {
        let mut g = GMap::new();
        let n = r.below(7) as usize;
        for gi in 0..n {
            let name = r.pick(&uni).to_string();
            let nm = r.below(4) as usize;
            let mut ms = vec![];
            for mi in 0..nm {
                if r.below(8) < overlap_mode {
                    ms.push(r.pick(&GLYPHPOOL).to_string());
                } else {
                    ms.push(format!("m{}_{}", gi, mi));
                }
            }
            if nm > 0 && r.chance(1, 25) {
                let d = ms[0].clone();
                ms.push(d); // a glyph twice in one group
            }
            g.insert(name, ms);
        }
        Some(g)
    };
    let kerning = if r.chance(1, 10) {
        None
    } else {
        let mut k = KMap::new();
        let n = r.below(7) as usize;
        for pi in 0..n {
            let a = if r.chance(3, 4) { r.pick(&uni).to_string() } else { r.pick(&GLYPHPOOL).to_string() };
            let b = if r.chance(3, 4) { r.pick(&uni).to_string() } else { r.pick(&GLYPHPOOL).to_string() };
            let v: f64 = match r.below(4) {
                0 => -((pi + 1) as f64) * 7.0,
                1 => (pi + 1) as f64 + 0.5,
                _ => (pi + 1) as f64 * 3.0,
            };
            k.entry(a).or_default().insert(b, v.to_bits());
        }
        if r.chance(1, 15) {
            k.entry(r.pick(&uni).to_string()).or_default(); // a row without pairs
        }
        Some(k)
    };
    let mut glyphs: Vec<GlyphSpec> = vec![];
    let ng = r.below(4) as usize;
    for _ in 0..ng {
        let name = if r.chance(1, 2) { r.pick(&uni).to_string() } else { r.pick(&GLYPHPOOL).to_string() };
        if glyphs.iter().any(|g| g.name == name) {
            continue;
        }
        let inner = if r.chance(1, 6) { Some(r.pick(&uni).to_string()) } else { None };
        let mut comps = vec![];
        if r.chance(1, 5) {
            comps.push(r.pick(&uni).to_string());
        }
        glyphs.push(GlyphSpec { name, inner, comps });
    }
    let shuffle = if r.chance(1, 2) { r.next() | 1 } else { 0 };
    Case { ver, groups, kerning, glyphs, shuffle }
}

// ------------------------------------------------------------------ corpus (witnesses run first)
pub fn corpus_cases(dir: &Path) -> Vec<(String, Case)> {
    let mut v = vec![];
    if let Ok(rd) = std::fs::read_dir(dir) {
        let mut files: Vec<PathBuf> = rd.filter_map(|e| e.ok()).map(|e| e.path()).filter(|p| p.extension().map(|x| x == "json").unwrap_or(false)).collect();
        files.sort();
        for p in files {
            if let Ok(txt) = std::fs::read_to_string(&p) {
                if let Ok(j) = serde_json::from_str::<serde_json::Value>(&txt) {
                    let inp = if j.get("input").is_some() { &j["input"] } else { &j };
                    v.push((p.file_name().unwrap().to_string_lossy().to_string(), Case::from_json(inp)));
                }
            }
        }
    }
    v
}

/// Names around the two kerning prefixes in byte order: before, between and after the
/// `public.kern1.*` and `public.kern2.*` runs of a sorted map, and near-prefix spellings.
pub const VAL_NAMES: [&str; 20] = [
    "Public.kern1.A", "a", "public.kerN1.A", "public.kern", "public.kern1", "public.kern1.", "public.kern1.A",
    "public.kern1.\u{e9}", "public.kern1/", "public.kern10.A", "public.kern1A", "public.kern1_x", "public.kern2",
    "public.kern2.", "public.kern2.A", "public.kern2.B", "public.kern3.A", "zzz", "\u{e9}", "public.kern1.B",
];
const VAL_CORE: [&str; 6] = ["public.kern1.A", "public.kern1.B", "public.kern2.A", "public.kern2.B", "public.kern1.", "public.kern2."];

/// "magic" strings: the string literals of src/groups.rs and src/upconversion.rs that are valid
/// names (code before the test modules first), each also with its last byte dropped and with
/// a letter appended
pub fn harvested_names(repo: &Path) -> Vec<String> {
    let mut lits: Vec<String> = vec![];
    for pass in 0..2 {
        for f in ["src/groups.rs", "src/upconversion.rs"] {
            let src = std::fs::read_to_string(repo.join(f)).unwrap_or_default();
            let cut = src.find("#[cfg(test)]").unwrap_or(src.len());
            let part = if pass == 0 { &src[..cut] } else { &src[cut..] };
            let b: Vec<char> = part.chars().collect();
            let mut i = 0;
            while i < b.len() {
                if b[i] == '"' {
                    let mut j = i + 1;
                    let mut t = String::new();
                    let mut ok = true;
                    while j < b.len() && b[j] != '"' {
                        if b[j] == '\\' || b[j] == '{' || b[j] == '\n' {
                            ok = false;
                        }
                        if b[j] == '\\' {
                            j += 1;
                        }
                        t.push(b[j.min(b.len() - 1)]);
                        j += 1;
                    }
                    if ok && !t.is_empty() && t.len() <= 32 && !t.contains(' ') && Name::new(&t).is_ok() && !lits.contains(&t) {
                        lits.push(t);
                    }
                    i = j + 1;
                } else if b[i] == '\'' && i + 2 < b.len() && b[i + 1] == '"' && b[i + 2] == '\'' {
                    i += 3; // the char literal '"'
                } else {
                    i += 1;
                }
            }
        }
    }
    let mut out: Vec<String> = vec![];
    for l in lits.iter().take(10) {
        let mut vs = vec![l.clone(), format!("{}A", l)];
        let mut cs: Vec<char> = l.chars().collect();
        cs.pop();
        if !cs.is_empty() {
            vs.push(cs.into_iter().collect());
        }
        for v in vs {
            if !out.contains(&v) && !VAL_NAMES.contains(&v.as_str()) && out.len() < 24 {
                out.push(v);
            }
        }
    }
    out
}

/// the validation stream: format 3 (no conversion), no kerning; every set of <= 3 of the
/// VAL_NAMES (and pairs / core triples with the harvested names) as group names, under three
/// member patterns that make same-side groups overlap or not
pub fn validation_cases(harvested: &[String]) -> Vec<Case> {
    let f: Vec<String> = VAL_NAMES.iter().map(|s| s.to_string()).collect();
    let mut sets: Vec<Vec<String>> = vec![vec![]];
    for a in 0..f.len() {
        sets.push(vec![f[a].clone()]);
        for b in a + 1..f.len() {
            sets.push(vec![f[a].clone(), f[b].clone()]);
            for c in b + 1..f.len() {
                sets.push(vec![f[a].clone(), f[b].clone(), f[c].clone()]);
            }
        }
    }
    // four groups: a first-side and a second-side pair with one name of the universe in addition
    for extra in f.iter() {
        for (p, q) in [("public.kern2.A", "public.kern2.B"), ("public.kern1.A", "public.kern1.B"), ("public.kern1.A", "public.kern2.")] {
            if extra != p && extra != q && extra != "public.kern1.\u{e9}" {
                sets.push(vec!["public.kern1.\u{e9}".to_string(), extra.clone(), p.to_string(), q.to_string()]);
            }
        }
    }
    for h in harvested {
        sets.push(vec![h.clone()]);
        for u in f.iter().chain(harvested.iter()) {
            if u != h {
                sets.push(vec![h.clone(), u.clone()]);
            }
        }
        for a in 0..VAL_CORE.len() {
            for b in a + 1..VAL_CORE.len() {
                if h != VAL_CORE[a] && h != VAL_CORE[b] {
                    sets.push(vec![h.clone(), VAL_CORE[a].to_string(), VAL_CORE[b].to_string()]);
                }
            }
        }
    }
    let mut v = vec![];
    for (si, set) in sets.iter().enumerate() {
        for pat in 0..3 {
            if set.is_empty() && pat > 0 {
                continue;
            }
            let mut g = GMap::new();
            for (i, n) in set.iter().enumerate() {
                let ms = match pat {
                    0 => vec!["x".to_string()],
                    1 => vec![format!("m{}", i)],
                    _ => vec![format!("m{}", i), "x".to_string()],
                };
                g.insert(n.clone(), ms);
            }
            v.push(Case { ver: 3, groups: Some(g), kerning: None, glyphs: vec![], shuffle: if (si + pat) % 3 == 0 { si as u64 * 2 + 1 } else { 0 } });
        }
    }
    v
}

pub struct Plan {
    pub validation: usize,
    pub harvested: Vec<String>,
    pub corpus: Vec<(String, Case)>,
    pub exh_universes: usize,
    pub exh: Exh,
    pub exh_stride: usize, // quick tier: every stride-th case of the second universe
    pub random: usize,
    pub seed: u64,
}
impl Plan {
    pub fn new(a: &Args) -> Plan {
        let corpus_dir = a
            .extra
            .iter()
            .position(|x| x == "--corpus")
            .and_then(|i| a.extra.get(i + 1))
            .map(PathBuf::from)
            .unwrap_or_else(|| PathBuf::from("corpus/C15"));
        let th = a.thorough();
        let repo = a
            .extra
            .iter()
            .position(|x| x == "--repo")
            .and_then(|i| a.extra.get(i + 1))
            .map(PathBuf::from)
            .unwrap_or_else(|| PathBuf::from("/repo"));
        let harvested = harvested_names(&repo);
        // corpus first, then the validation stream (both travel as structured cases)
        let mut pre = corpus_cases(&corpus_dir);
        let ncorpus = pre.len();
        for c in validation_cases(&harvested) {
            pre.push((String::new(), c));
        }
        Plan {
            validation: pre.len() - ncorpus,
            harvested,
            corpus: pre,
            exh_universes: 2,
            exh: Exh::new(if th { 3 } else { 2 }),
            exh_stride: if th { 1 } else { 4 },
            random: if th { 300_000 } else { 12_000 },
            seed: a.seed,
        }
    }
    fn exh2_offset(&self) -> usize {
        // the offset into each stride window moves with the seed, so that successive runs
        // with different seeds sweep the whole second universe
        self.seed as usize % self.exh_stride
    }
    fn exh2_len(&self) -> usize {
        (self.exh.len() - self.exh2_offset() + self.exh_stride - 1) / self.exh_stride
    }
    /// (universe, index inside the enumeration) of an exhaustive case
    pub fn exh_pos(&self, i: usize) -> Option<(usize, usize)> {
        let c = self.corpus.len();
        let e = self.exh.len();
        if i < c {
            None
        } else if i < c + e {
            Some((0, i - c))
        } else if i < c + e + self.exh2_len() {
            Some((1, (i - c - e) * self.exh_stride + self.exh2_offset()))
        } else {
            None
        }
    }
    pub fn len(&self) -> usize {
        self.corpus.len() + self.exh.len() + self.exh2_len() + self.random
    }
    pub fn kind(&self, i: usize) -> &'static str {
        let c = self.corpus.len();
        if i < c - self.validation {
            "corpus"
        } else if i < c {
            "validation"
        } else if i < c + self.exh.len() + self.exh2_len() {
            "exhaustive"
        } else {
            "random"
        }
    }
    pub fn case(&self, i: usize) -> Case {
        let c = self.corpus.len();
        let e = self.exh.len();
        if i < c {
            self.corpus[i].1.clone()
        } else if i < c + e {
            self.exh.case(&UNIVERSES[0], i - c)
        } else if i < c + e + self.exh2_len() {
            self.exh.case(&UNIVERSES[1], self.exh_pos(i).unwrap().1)
        } else {
            random_case(self.seed, (i - c - e - self.exh2_len()) as u64, &self.harvested)
        }
    }
}

fn print_observed(c: &Case, ob: &Observed, v: &Verdict) {
    println!("case: {}", c.to_json());
    println!("glyph names: {:?}", c.glyph_names());
    println!("interned names: {:?}", c.interned());
    println!("load: {:?}", ob.load);
    println!("save of a font with these groups: {:?}", ob.save_direct);
    println!("save of the loaded font: {:?} (reloaded equal: {})", ob.resave, ob.resave_same);
    println!("classes: F21={} PairCollision={}", v.f21, v.pc);
    if v.failures.is_empty() {
        println!("property oracle: holds");
    }
    for (cl, w) in &v.failures {
        println!("property oracle FAILS{}: {}", if cl.is_empty() { String::new() } else { format!(" [known class {}]", cl) }, w);
    }
}

pub fn main(a: &Args) {
    if let Some(rp) = &a.replay {
        let txt = std::fs::read_to_string(rp).expect("replay file");
        let j: serde_json::Value = serde_json::from_str(&txt).expect("json");
        let inp = if j.get("input").is_some() && j["input"].get("case").is_some() {
            j["input"]["case"].clone()
        } else if j.get("input").is_some() {
            j["input"].clone()
        } else if j.get("case").is_some() {
            j["case"].clone()
        } else {
            j.clone()
        };
        let c = Case::from_json(&inp);
        let dir = a.out.join("replay");
        std::fs::create_dir_all(&dir).unwrap();
        let ob = observe(&dir, &c, true);
        let v = judge(&c, &ob);
        print_observed(&c, &ob, &v);
        let mut it = Interner::default();
        let mut s = String::new();
        let rc = render_case(&c, &mut it);
        v.expected.render(&mut s, &mut it);
        println!("coq-case: ({}, {})", rc, s);
        println!("coq-names: {:?}", it.names);
        let _ = std::fs::remove_dir_all(&dir);
        return;
    }
    let plan = Plan::new(a);
    if let Some(i) = a.extra.iter().position(|x| x == "--case-json") {
        // print the JSON of the cases with the given indices (for replay files)
        for ix in a.extra[i + 1..].iter().filter_map(|x| x.parse::<usize>().ok()) {
            if ix < plan.len() {
                println!("{}", serde_json::json!({"index": ix, "kind": plan.kind(ix), "case": plan.case(ix).to_json()}));
            }
        }
        return;
    }
    std::fs::create_dir_all(&a.out).unwrap();
    let n = plan.len();
    let nthreads = std::thread::available_parallelism().map(|x| x.get()).unwrap_or(4).min(8).max(1);
    let chunk = (n + nthreads - 1) / nthreads;
    struct Res {
        expected: O,
        failures: Vec<(String, String)>,
        converted: bool,
        f21: bool,
        pc: bool,
        load_kind: u8,
    }
    let mut results: Vec<Vec<Res>> = vec![];
    std::thread::scope(|sc| {
        let mut hs = vec![];
        for t in 0..nthreads {
            let plan = &plan;
            let out = a.out.clone();
            hs.push(sc.spawn(move || {
                let dir = out.join(format!("work_{}", t));
                std::fs::create_dir_all(&dir).unwrap();
                let lo = t * chunk;
                let hi = ((t + 1) * chunk).min(n);
                let mut v = Vec::with_capacity(hi.saturating_sub(lo));
                for i in lo..hi {
                    let c = plan.case(i);
                    let resave = plan.kind(i) != "exhaustive" || i % 16 == 0;
                    let ob = observe(&dir, &c, resave);
                    let vd = judge(&c, &ob);
                    let load_kind = match &ob.load {
                        LoadOut::Ok(..) => 0,
                        LoadOut::InvalidGroups(_) => 1,
                        LoadOut::UpconversionFailure(_) => 2,
                        _ => 8,
                    };
                    v.push(Res { expected: vd.expected, failures: vd.failures, converted: vd.converted, f21: vd.f21, pc: vd.pc, load_kind });
                }
                let _ = std::fs::remove_dir_all(&dir);
                v
            }));
        }
        for h in hs {
            results.push(h.join().unwrap());
        }
    });
    let mut cases = String::new();
    let mut exh = String::new();
    let mut it = Interner::default();
    let mut fails = vec![];
    let (mut conv, mut f21, mut pc, mut inv, mut upf, mut other) = (0u64, 0u64, 0u64, 0u64, 0u64, 0u64);
    let mut distinct: BTreeSet<u64> = BTreeSet::new();
    let mut i = 0usize;
    for chunk in &results {
        for r in chunk {
            let line: String = if let Some((u, j)) = plan.exh_pos(i) {
                let l = format!("{} {} {} {}\n", i, u, j, o_hash(&r.expected));
                exh.push_str(&l);
                l
            } else {
                let start = cases.len();
                let _ = write!(cases, "({}, (", i);
                cases.push_str(&render_case(&plan.case(i), &mut it));
                cases.push_str(", ");
                r.expected.render(&mut cases, &mut it);
                cases.push_str("))\n");
                cases[start..].to_string()
            };
            if r.converted {
                conv += 1;
            }
            if r.converted || r.load_kind != 0 {
                // distinct by content among the cases that leave the default branch
                let mut h: u64 = 0xcbf29ce484222325;
                for b in line.bytes() {
                    h = (h ^ b as u64).wrapping_mul(0x100000001b3);
                }
                distinct.insert(h);
            }
            f21 += r.f21 as u64;
            pc += r.pc as u64;
            match r.load_kind {
                1 => inv += 1,
                2 => upf += 1,
                0 => {}
                _ => other += 1,
            }
            for (cl, w) in &r.failures {
                fails.push(serde_json::json!({"index": i, "class": cl, "what": w, "kind": plan.kind(i), "case": plan.case(i).to_json()}));
            }
            i += 1;
        }
    }
    write_file(&a.out.join("cases.txt"), &cases);
    write_file(&a.out.join("exh.txt"), &exh);
    write_file(&a.out.join("names.txt"), &(it.names.join("\n") + "\n"));
    write_file(&a.out.join("values.txt"), &(it.vals.iter().map(|v| v.to_string()).collect::<Vec<_>>().join("\n") + "\n"));
    write_file(&a.out.join("oracle.json"), &serde_json::to_string(&fails).unwrap());
    let summ = serde_json::json!({
        "cases": n, "corpus": plan.corpus.len() - plan.validation, "validation_stream": plan.validation, "harvested_names": plan.harvested.clone(),
        "corpus_files": plan.corpus.iter().map(|x| x.0.clone()).filter(|x| !x.is_empty()).collect::<Vec<_>>(),
        "exhaustive_universe_1": plan.exh.len(), "exhaustive_universe_2_slice": plan.exh2_len(),
        "exhaustive_stride_universe_2": plan.exh_stride, "exhaustive_member_variants": plan.exh.mvs, "random": plan.random,
        "converted": conv, "load_refused_invalid_groups": inv, "load_refused_upconversion_failure": upf,
        "load_other": other, "in_class_F21": f21, "in_class_PairCollision": pc,
        "distinct_nontrivial": distinct.len(), "oracle_failures": fails.len(),
        "universes": UNIVERSES.iter().map(|u| u.to_vec()).collect::<Vec<_>>(),
    });
    write_file(&a.out.join("summary.json"), &summ.to_string());
}
