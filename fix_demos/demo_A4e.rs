//! A4 (e): a contents.plist that maps two glyph names to the same glif file
//! must make `Font::load` return an error. It used to load as two glyphs that
//! share one file; saving wrote that file twice (a data race with the `rayon`
//! feature) and loading the result gave two copies of whichever glyph was
//! written last, so save-then-load did not reproduce the loaded font.

use std::fs;
use std::path::{Path, PathBuf};

use norad::Font;

const PLIST_HEAD: &str = "<?xml version=\"1.0\" encoding=\"UTF-8\"?>\n<!DOCTYPE plist PUBLIC \"-//Apple//DTD PLIST 1.0//EN\" \"http://www.apple.com/DTDs/PropertyList-1.0.dtd\">\n<plist version=\"1.0\">\n";

fn glif(name: &str, width: u32) -> String {
    format!("<?xml version=\"1.0\" encoding=\"UTF-8\"?>\n<glyph name=\"{name}\" format=\"2\">\n<advance width=\"{width}\"/>\n</glyph>\n")
}

/// Creates `<root>/font.ufo` whose default layer has the given
/// (glyph name, file name) contents; each distinct file gets a glif.
fn make_ufo(root: &Path, contents: &[(&str, &str)]) -> PathBuf {
    let ufo = root.join("font.ufo");
    fs::create_dir_all(ufo.join("glyphs")).unwrap();
    fs::write(
        ufo.join("metainfo.plist"),
        format!("{PLIST_HEAD}<dict><key>creator</key><string>org.linebender.norad</string><key>formatVersion</key><integer>3</integer></dict>\n</plist>\n"),
    )
    .unwrap();
    fs::write(
        ufo.join("layercontents.plist"),
        format!("{PLIST_HEAD}<array>\n<array><string>public.default</string><string>glyphs</string></array>\n</array>\n</plist>\n"),
    )
    .unwrap();
    let mut entries = String::new();
    for (i, (name, file)) in contents.iter().enumerate() {
        entries.push_str(&format!("<key>{name}</key><string>{file}</string>\n"));
        fs::write(ufo.join("glyphs").join(file), glif(name, 100 + i as u32)).unwrap();
    }
    fs::write(
        ufo.join("glyphs/contents.plist"),
        format!("{PLIST_HEAD}<dict>\n{entries}</dict>\n</plist>\n"),
    )
    .unwrap();
    ufo
}

#[test]
fn two_glyphs_sharing_a_glif_file_are_rejected() {
    let tmp = tempfile::TempDir::new().unwrap();
    let ufo = make_ufo(tmp.path(), &[("a", "a.glif"), ("b", "a.glif"), ("c", "c.glif")]);
    match Font::load(&ufo) {
        // (with the fix: FontLoadError::Layer { source: LayerLoadError::DuplicateGlyphFileName, .. })
        Err(err) => {
            let source = std::error::Error::source(&err).expect("a layer error").to_string();
            assert!(source.contains("'a.glif' is used by more than one glyph"), "{err:?}");
        }
        Ok(font) => {
            let layer = font.default_layer();
            panic!(
                "loaded; glyph files: a -> {:?}, b -> {:?}",
                layer.get_path("a"),
                layer.get_path("b")
            );
        }
    }
}

#[test]
fn file_names_differing_only_in_case_are_distinct() {
    // (exact comparison of file names; only meaningful on a case-sensitive file system)
    let tmp = tempfile::TempDir::new().unwrap();
    let ufo = make_ufo(tmp.path(), &[("a", "a_.glif"), ("A", "A_.glif")]);
    if fs::read_to_string(ufo.join("glyphs/a_.glif")).unwrap().contains("name=\"A\"") {
        return; // case-insensitive file system: the second glif overwrote the first
    }
    let font = Font::load(&ufo).unwrap();
    assert_eq!(font.glyph_count(), 2);
    let out = tmp.path().join("out.ufo");
    font.save(&out).unwrap();
    assert_eq!(Font::load(&out).unwrap(), font);
}

#[test]
fn distinct_files_still_load_and_round_trip() {
    let tmp = tempfile::TempDir::new().unwrap();
    let ufo = make_ufo(tmp.path(), &[("a", "a.glif"), ("b", "b.glif")]);
    let font = Font::load(&ufo).unwrap();
    assert_eq!(font.glyph_count(), 2);
    let out = tmp.path().join("out.ufo");
    font.save(&out).unwrap();
    assert_eq!(Font::load(&out).unwrap(), font);
}
