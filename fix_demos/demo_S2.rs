//! S2: store keys must consist of plain file/directory names only: no `..`, no `.`,
//! no root. Differently spelt paths naming the same file (trailing or repeated
//! separators) must not break save.

use std::path::{Path, PathBuf};

use norad::datastore::{DataStore, ImageStore};
use norad::Font;

const PNG: [u8; 11] = [137u8, 80, 78, 71, 13, 10, 26, 10, 1, 2, 3];

#[test]
fn data_keys_with_non_normal_components_are_rejected() {
    let mut store = DataStore::default();
    store.insert(PathBuf::from("keep/me.txt"), b"x".to_vec()).unwrap();

    for bad in ["..", ".", "../evil.txt", "../../evil.txt", "./a", "a/../b", "a/..", "a/../../b"] {
        let result = store.insert(PathBuf::from(bad), b"evil".to_vec());
        assert!(result.is_err(), "data key {bad:?} was accepted");
        // A rejected insertion leaves the store unchanged.
        assert_eq!(store.len(), 1, "store changed by rejected key {bad:?}");
        assert!(!store.contains_key(Path::new(bad)));
    }
    let err = store.insert(PathBuf::from("../evil.txt"), vec![]).unwrap_err();
    assert_eq!(format!("{err:?}"), "InvalidPathComponent");
}

#[test]
fn image_keys_with_non_normal_components_are_rejected() {
    let mut store = ImageStore::default();

    for bad in ["..", ".", "./a.png", "../a.png"] {
        let result = store.insert(PathBuf::from(bad), PNG.to_vec());
        assert!(result.is_err(), "image key {bad:?} was accepted");
        assert!(store.is_empty());
    }
    let err = store.insert(PathBuf::from(".."), PNG.to_vec()).unwrap_err();
    assert_eq!(format!("{err:?}"), "InvalidPathComponent");

    store.insert(PathBuf::from("a.png"), PNG.to_vec()).unwrap();
}

#[test]
fn cur_dir_spelling_is_not_a_second_key_for_the_same_file() {
    let mut store = DataStore::default();
    store.insert(PathBuf::from("a"), b"one".to_vec()).unwrap();
    assert!(store.insert(PathBuf::from("./a"), b"two".to_vec()).is_err());
    assert_eq!(store.len(), 1);
    assert_eq!(&*store.get(Path::new("a")).unwrap().unwrap(), b"one");
}

#[test]
fn save_writes_nothing_outside_the_target() {
    let dir = tempfile::TempDir::new().unwrap();
    let parent = dir.path().join("x").join("y");
    std::fs::create_dir_all(&parent).unwrap();
    let target = parent.join("out.ufo");

    let mut font = Font::new();
    font.data.insert(PathBuf::from("ok.txt"), b"fine".to_vec()).unwrap();
    // `out.ufo/data/../../evil.txt` is `y/evil.txt`, one more `..` is `x/evil.txt`.
    let _ = font.data.insert(PathBuf::from("../../evil.txt"), b"evil".to_vec());
    let _ = font.data.insert(PathBuf::from("../../../evil.txt"), b"evil".to_vec());
    let _ = font.save(&target);

    assert!(!parent.join("evil.txt").exists(), "save wrote next to the target directory");
    assert!(!dir.path().join("x").join("evil.txt").exists(), "save wrote above the target");
    let siblings: Vec<_> =
        std::fs::read_dir(&parent).unwrap().map(|e| e.unwrap().file_name()).collect();
    assert_eq!(siblings, vec![std::ffi::OsString::from("out.ufo")]);
}

#[test]
fn trailing_and_repeated_separators_do_not_break_save() {
    let dir = tempfile::TempDir::new().unwrap();
    let target = dir.path().join("out.ufo");
    Font::new().save(&target).unwrap();

    let mut font = Font::new();
    // If the store takes these spellings, they must be writable.
    let trailing = font.data.insert(PathBuf::from("a/"), b"trailing".to_vec());
    let doubled = font.data.insert(PathBuf::from("d//e.txt"), b"doubled".to_vec());
    let image = font.images.insert(PathBuf::from("i.png/"), PNG.to_vec());

    font.save(&target).unwrap();

    if trailing.is_ok() {
        assert_eq!(std::fs::read(target.join("data").join("a")).unwrap(), b"trailing");
        assert!(font.data.keys().any(|k| k.as_os_str() == "a"), "key is stored as `a`");
    }
    if doubled.is_ok() {
        assert_eq!(std::fs::read(target.join("data").join("d").join("e.txt")).unwrap(), b"doubled");
    }
    if image.is_ok() {
        assert_eq!(std::fs::read(target.join("images").join("i.png")).unwrap(), PNG);
        assert!(font.images.keys().any(|k| k.as_os_str() == "i.png"));
    }
}
