//! A1 `layer-dir-dotdot`: a layercontents.plist entry whose directory is not a
//! plain directory name (e.g. `..`, `glyphs/..`, `../outside`) must make
//! `Font::load` return an error; it used to panic (`..`, `glyphs/..`) or to
//! load a layer from outside the UFO (`../outside`).

use std::fs;
use std::path::Path;

use norad::error::FontLoadError;
use norad::Font;

const PLIST_HEAD: &str = "<?xml version=\"1.0\" encoding=\"UTF-8\"?>\n<!DOCTYPE plist PUBLIC \"-//Apple//DTD PLIST 1.0//EN\" \"http://www.apple.com/DTDs/PropertyList-1.0.dtd\">\n<plist version=\"1.0\">\n";

fn write_empty_contents(dir: &Path) {
    fs::create_dir_all(dir).unwrap();
    fs::write(dir.join("contents.plist"), format!("{PLIST_HEAD}<dict/>\n</plist>\n")).unwrap();
}

/// Creates `<root>/font.ufo` with a default layer and a second layer "other"
/// whose directory entry is `other_dir`.
fn make_ufo(root: &Path, other_dir: &str) -> std::path::PathBuf {
    let ufo = root.join("font.ufo");
    fs::create_dir(&ufo).unwrap();
    fs::write(
        ufo.join("metainfo.plist"),
        format!("{PLIST_HEAD}<dict><key>creator</key><string>org.linebender.norad</string><key>formatVersion</key><integer>3</integer></dict>\n</plist>\n"),
    )
    .unwrap();
    fs::write(
        ufo.join("layercontents.plist"),
        format!("{PLIST_HEAD}<array>\n<array><string>public.default</string><string>glyphs</string></array>\n<array><string>other</string><string>{other_dir}</string></array>\n</array>\n</plist>\n"),
    )
    .unwrap();
    write_empty_contents(&ufo.join("glyphs"));
    ufo
}

fn assert_rejected(other_dir: &str) {
    let tmp = tempfile::TempDir::new().unwrap();
    let ufo = make_ufo(tmp.path(), other_dir);
    // make sure a contents.plist exists wherever the entry resolves to
    write_empty_contents(&ufo.join(other_dir));
    let result = Font::load(&ufo);
    // (with the fix this is `FontLoadError::InvalidLayerDirectory`; the variant is
    // not named here so that this file also compiles on the parent commit)
    let err: FontLoadError = match result {
        Err(err) => err,
        Ok(_) => panic!("layer directory {other_dir:?}: expected an error, but the font loaded"),
    };
    assert!(err.to_string().contains("plain directory name"), "unexpected error {err:?}");
}

#[test]
fn dotdot_is_an_error_not_a_panic() {
    assert_rejected("..");
}

#[test]
fn glyphs_dotdot_is_an_error_not_a_panic() {
    assert_rejected("glyphs/..");
}

#[test]
fn directory_outside_the_ufo_is_rejected() {
    assert_rejected("../outside");
}

#[test]
fn nested_dot_and_absolute_directories_are_rejected() {
    assert_rejected("glyphs/nested");
    assert_rejected("./glyphs.other");
    assert_rejected(".");
    let tmp = tempfile::TempDir::new().unwrap();
    let abs = tmp.path().join("abs");
    assert_rejected(abs.to_str().unwrap());
}

#[test]
fn plain_directory_names_still_load_and_round_trip() {
    let tmp = tempfile::TempDir::new().unwrap();
    let ufo = make_ufo(tmp.path(), "glyphs.other");
    write_empty_contents(&ufo.join("glyphs.other"));
    let font = Font::load(&ufo).unwrap();
    assert_eq!(font.layers.len(), 2);
    assert_eq!(font.layers.get("other").unwrap().path(), Path::new("glyphs.other"));
    let out = tmp.path().join("out.ufo");
    font.save(&out).unwrap();
    assert_eq!(Font::load(&out).unwrap(), font);
}
