//! A4 (a)-(d): `layercontents.plist` was not checked for uniqueness. Loading
//! must fail for (a) duplicate layer names, (b) duplicate layer directories,
//! (c) a non-default layer named `public.default`, (d) two entries with the
//! directory `glyphs`. On the parent commit all four loaded, giving fonts with
//! two layers of the same name, two default layers, or a font whose save fails
//! with `CreateDir AlreadyExists` after the target was wiped.

use std::fs;
use std::path::{Path, PathBuf};

use norad::error::FontLoadError;
use norad::Font;

const PLIST_HEAD: &str = "<?xml version=\"1.0\" encoding=\"UTF-8\"?>\n<!DOCTYPE plist PUBLIC \"-//Apple//DTD PLIST 1.0//EN\" \"http://www.apple.com/DTDs/PropertyList-1.0.dtd\">\n<plist version=\"1.0\">\n";

/// Creates `<root>/font.ufo` with the given (layer name, directory) entries;
/// every directory gets an empty contents.plist.
fn make_ufo(root: &Path, layers: &[(&str, &str)]) -> PathBuf {
    let ufo = root.join("font.ufo");
    fs::create_dir(&ufo).unwrap();
    fs::write(
        ufo.join("metainfo.plist"),
        format!("{PLIST_HEAD}<dict><key>creator</key><string>org.linebender.norad</string><key>formatVersion</key><integer>3</integer></dict>\n</plist>\n"),
    )
    .unwrap();
    let mut entries = String::new();
    for (name, dir) in layers {
        entries.push_str(&format!("<array><string>{name}</string><string>{dir}</string></array>\n"));
        fs::create_dir_all(ufo.join(dir)).unwrap();
        fs::write(ufo.join(dir).join("contents.plist"), format!("{PLIST_HEAD}<dict/>\n</plist>\n"))
            .unwrap();
    }
    fs::write(
        ufo.join("layercontents.plist"),
        format!("{PLIST_HEAD}<array>\n{entries}</array>\n</plist>\n"),
    )
    .unwrap();
    ufo
}

/// Loads the UFO and returns the error message, or panics describing the
/// invalid font that was loaded.
fn load_error(layers: &[(&str, &str)]) -> String {
    let tmp = tempfile::TempDir::new().unwrap();
    let ufo = make_ufo(tmp.path(), layers);
    let result: Result<Font, FontLoadError> = Font::load(&ufo);
    match result {
        Err(err) => err.to_string(),
        Ok(font) => {
            let loaded: Vec<_> =
                font.layers.iter().map(|l| (l.name().to_string(), l.path().to_owned())).collect();
            let saved = font.save(tmp.path().join("out.ufo"));
            panic!("{layers:?} loaded as {loaded:?}; saving it: {saved:?}");
        }
    }
}

#[test]
fn a_duplicate_layer_names() {
    let msg = load_error(&[("foreground", "glyphs"), ("bg", "glyphs.a"), ("bg", "glyphs.b")]);
    assert!(msg.contains("layer name 'bg'"), "{msg}");
    // the default layer's name counts, too
    let msg = load_error(&[("foreground", "glyphs"), ("foreground", "glyphs.b")]);
    assert!(msg.contains("layer name 'foreground'"), "{msg}");
}

#[test]
fn b_duplicate_layer_directories() {
    let msg = load_error(&[("foreground", "glyphs"), ("a", "glyphs.bg"), ("b", "glyphs.bg")]);
    assert!(msg.contains("layer directory 'glyphs.bg'"), "{msg}");
    // the same directory spelled with a trailing separator
    let msg = load_error(&[("foreground", "glyphs"), ("a", "glyphs.bg"), ("b", "glyphs.bg/")]);
    assert!(msg.contains("layer directory 'glyphs.bg/'"), "{msg}");
}

#[test]
fn c_non_default_layer_named_public_default() {
    let msg = load_error(&[("foreground", "glyphs"), ("public.default", "glyphs.bg")]);
    assert!(msg.contains("only the default layer"), "{msg}");
}

#[test]
fn d_two_default_layers() {
    let msg = load_error(&[("foreground", "glyphs"), ("other", "glyphs")]);
    assert!(msg.contains("layer directory 'glyphs'"), "{msg}");
}

#[test]
fn directories_differing_only_in_case_are_distinct() {
    // (exact comparison of directory names; only meaningful on a case-sensitive file system)
    let tmp = tempfile::TempDir::new().unwrap();
    let ufo = make_ufo(tmp.path(), &[("foreground", "glyphs"), ("a", "glyphs.bg")]);
    if ufo.join("glyphs.BG").exists() {
        return; // case-insensitive file system
    }
    drop(tmp);
    let tmp = tempfile::TempDir::new().unwrap();
    let ufo =
        make_ufo(tmp.path(), &[("foreground", "glyphs"), ("a", "glyphs.bg"), ("b", "glyphs.BG")]);
    let font = Font::load(&ufo).unwrap();
    let out = tmp.path().join("out.ufo");
    font.save(&out).unwrap();
    assert_eq!(Font::load(&out).unwrap(), font);
}

#[test]
fn valid_layer_contents_still_load_and_round_trip() {
    let tmp = tempfile::TempDir::new().unwrap();
    // the default layer need not come first and may be named `public.default`
    let ufo = make_ufo(
        tmp.path(),
        &[("background", "glyphs.background"), ("public.default", "glyphs"), ("x", "glyphs.x")],
    );
    let font = Font::load(&ufo).unwrap();
    let names: Vec<_> = font.layers.iter().map(|l| l.name().to_string()).collect();
    assert_eq!(names, ["public.default", "background", "x"]);
    let out = tmp.path().join("out.ufo");
    font.save(&out).unwrap();
    assert_eq!(Font::load(&out).unwrap(), font);
}
