//! R1: layer directories / glif file names that differ only in case must be
//! refused at load, because the taken-sets compare names without case.

use std::fs;
use std::path::Path;

use norad::error::{FontLoadError, LayerLoadError};
use norad::{Font, Glyph};

const GLIF_X: &str = r#"<?xml version="1.0" encoding="UTF-8"?>
<glyph name="x" format="2">
</glyph>
"#;

const GLIF_BIG_X: &str = r#"<?xml version="1.0" encoding="UTF-8"?>
<glyph name="X" format="2">
</glyph>
"#;

fn write_metainfo(ufo: &Path) {
    fs::write(
        ufo.join("metainfo.plist"),
        r#"<?xml version="1.0" encoding="UTF-8"?>
<!DOCTYPE plist PUBLIC "-//Apple//DTD PLIST 1.0//EN" "http://www.apple.com/DTDs/PropertyList-1.0.dtd">
<plist version="1.0">
<dict>
	<key>creator</key>
	<string>demo</string>
	<key>formatVersion</key>
	<integer>3</integer>
</dict>
</plist>
"#,
    )
    .unwrap();
}

fn plist(body: &str) -> String {
    format!(
        r#"<?xml version="1.0" encoding="UTF-8"?>
<!DOCTYPE plist PUBLIC "-//Apple//DTD PLIST 1.0//EN" "http://www.apple.com/DTDs/PropertyList-1.0.dtd">
<plist version="1.0">
{body}
</plist>
"#
    )
}

fn write_layer(dir: &Path, contents_body: &str, glifs: &[(&str, &str)]) {
    fs::create_dir(dir).unwrap();
    fs::write(dir.join("contents.plist"), plist(contents_body)).unwrap();
    for (file, text) in glifs {
        fs::write(dir.join(file), text).unwrap();
    }
}

/// layers b -> glyphs.A_ and B -> glyphs.a_ in one layercontents.plist
fn make_case_clash_layers_ufo(ufo: &Path) {
    fs::create_dir(ufo).unwrap();
    write_metainfo(ufo);
    fs::write(
        ufo.join("layercontents.plist"),
        plist(
            "<array>\n<array><string>public.default</string><string>glyphs</string></array>\n\
             <array><string>b</string><string>glyphs.A_</string></array>\n\
             <array><string>B</string><string>glyphs.a_</string></array>\n</array>",
        ),
    )
    .unwrap();
    write_layer(&ufo.join("glyphs"), "<dict/>", &[]);
    write_layer(&ufo.join("glyphs.A_"), "<dict/>", &[]);
    write_layer(&ufo.join("glyphs.a_"), "<dict/>", &[]);
}

/// glyphs x -> x.glif and X -> X.glif in one contents.plist
fn make_case_clash_glifs_ufo(ufo: &Path) {
    fs::create_dir(ufo).unwrap();
    write_metainfo(ufo);
    fs::write(
        ufo.join("layercontents.plist"),
        plist("<array>\n<array><string>public.default</string><string>glyphs</string></array>\n</array>"),
    )
    .unwrap();
    write_layer(
        &ufo.join("glyphs"),
        "<dict>\n<key>X</key><string>X.glif</string>\n<key>x</key><string>x.glif</string>\n</dict>",
        &[("x.glif", GLIF_X), ("X.glif", GLIF_BIG_X)],
    );
}

#[test]
fn layer_directories_differing_only_in_case_are_refused() {
    let tmp = tempfile::tempdir().unwrap();
    let ufo = tmp.path().join("clash.ufo");
    make_case_clash_layers_ufo(&ufo);

    match Font::load(&ufo) {
        Err(FontLoadError::DuplicateLayerDirectory(path)) => {
            assert_eq!(path, Path::new("glyphs.a_"));
        }
        Err(other) => panic!("unexpected error: {other}"),
        Ok(mut font) => {
            // what used to happen: the shared taken entry is freed, the directory
            // of layer b is handed out again, and saving fails after wiping the target
            font.layers.remove("B");
            font.layers.new_layer("A").unwrap();
            let dirs: Vec<_> = font.layers.iter().map(|l| l.path().to_path_buf()).collect();
            let out = tmp.path().join("out.ufo");
            let saved = font.save(&out);
            panic!("font loaded; layer dirs after remove+new_layer: {dirs:?}; save: {saved:?}");
        }
    }
}

#[test]
fn glif_file_names_differing_only_in_case_are_refused() {
    let tmp = tempfile::tempdir().unwrap();
    let ufo = tmp.path().join("clash.ufo");
    make_case_clash_glifs_ufo(&ufo);

    match Font::load(&ufo) {
        Err(FontLoadError::Layer { source, .. }) => match *source {
            LayerLoadError::DuplicateGlyphFileName(path) => {
                assert_eq!(path, Path::new("x.glif"));
            }
            other => panic!("unexpected layer error: {other}"),
        },
        Err(other) => panic!("unexpected error: {other}"),
        Ok(mut font) => {
            let layer = font.default_layer_mut();
            layer.remove_glyph("x");
            // removing "x" frees the shared lower-cased entry "x.glif" although
            // "X" still uses X.glif, so later insertions may be given a clashing name
            layer.insert_glyph(Glyph::new("x"));
            panic!("font loaded although x.glif and X.glif clash without case");
        }
    }
}

#[test]
fn names_that_differ_in_more_than_case_still_load() {
    let tmp = tempfile::tempdir().unwrap();
    let ufo = tmp.path().join("fine.ufo");
    fs::create_dir(&ufo).unwrap();
    write_metainfo(&ufo);
    fs::write(
        ufo.join("layercontents.plist"),
        plist(
            "<array>\n<array><string>public.default</string><string>glyphs</string></array>\n\
             <array><string>b</string><string>glyphs.b</string></array>\n\
             <array><string>B</string><string>glyphs.B_</string></array>\n</array>",
        ),
    )
    .unwrap();
    write_layer(
        &ufo.join("glyphs"),
        "<dict>\n<key>X</key><string>X_.glif</string>\n<key>x</key><string>x.glif</string>\n</dict>",
        &[("x.glif", GLIF_X), ("X_.glif", GLIF_BIG_X)],
    );
    write_layer(&ufo.join("glyphs.b"), "<dict/>", &[]);
    write_layer(&ufo.join("glyphs.B_"), "<dict/>", &[]);

    let font = Font::load(&ufo).unwrap();
    assert_eq!(font.layers.len(), 3);
    assert_eq!(font.default_layer().len(), 2);
}
