//! N2: a designspace whose lib (document lib or instance lib) contains plist <data> / <date>
//! values must survive DesignSpaceDocument::save -> DesignSpaceDocument::load.

use std::time::{Duration, SystemTime};

use norad::designspace::{Axis, DesignSpaceDocument, Dimension, Instance, Source};
use plist::{Dictionary, Value};
use tempfile::TempDir;

fn sample_lib() -> Dictionary {
    let mut lib = Dictionary::new();
    lib.insert("com.test.data".into(), Value::Data(vec![0, 1, 2, 3, 254, 255]));
    lib.insert("com.test.emptydata".into(), Value::Data(vec![]));
    let date = SystemTime::UNIX_EPOCH + Duration::from_secs(1_600_000_000);
    lib.insert("com.test.date".into(), Value::Date(date.into()));
    lib.insert("com.test.string".into(), Value::String("hello".into()));
    lib.insert("com.test.int".into(), Value::Integer(7.into()));
    let mut nested = Dictionary::new();
    nested.insert("inner".into(), Value::Data(b"u got 0wned".to_vec()));
    nested.insert("when".into(), Value::Date(SystemTime::UNIX_EPOCH.into()));
    lib.insert(
        "com.test.nested".into(),
        Value::Array(vec![Value::Dictionary(nested), Value::Data(vec![9; 100])]),
    );
    lib
}

fn sample_doc() -> DesignSpaceDocument {
    let location =
        vec![Dimension { name: "Weight".into(), xvalue: Some(400.0), ..Default::default() }];
    DesignSpaceDocument {
        format: 4.1,
        axes: vec![Axis {
            name: "Weight".into(),
            tag: "wght".into(),
            default: 400.0,
            minimum: Some(100.0),
            maximum: Some(900.0),
            ..Default::default()
        }],
        sources: vec![Source {
            filename: "Regular.ufo".into(),
            location: location.clone(),
            ..Default::default()
        }],
        instances: vec![Instance {
            name: Some("Regular".into()),
            location,
            ..Default::default()
        }],
        ..Default::default()
    }
}

fn roundtrip(doc: &DesignSpaceDocument) -> DesignSpaceDocument {
    let dir = TempDir::new().unwrap();
    let path = dir.path().join("test.designspace");
    doc.save(&path).expect("save should succeed");
    match DesignSpaceDocument::load(&path) {
        Ok(doc) => doc,
        Err(e) => {
            panic!("load of saved file failed: {e:?}\n{}", std::fs::read_to_string(&path).unwrap())
        }
    }
}

#[test]
fn baseline_without_data_or_date_round_trips() {
    let doc = sample_doc();
    assert_eq!(roundtrip(&doc), doc);
}

#[test]
fn document_lib_with_data_and_date_round_trips() {
    let mut doc = sample_doc();
    doc.lib = sample_lib();
    let loaded = roundtrip(&doc);
    assert_eq!(loaded.lib, doc.lib);
    assert_eq!(loaded, doc);
}

#[test]
fn instance_lib_with_data_and_date_round_trips() {
    let mut doc = sample_doc();
    doc.instances[0].lib = sample_lib();
    let loaded = roundtrip(&doc);
    assert_eq!(loaded.instances[0].lib, doc.instances[0].lib);
    assert_eq!(loaded, doc);
}
