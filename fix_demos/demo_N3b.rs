//! N3b: upconversion of UFO 1 RoboFab feature data (`org.robofab.opentype.*` lib keys) must not
//! depend on hash seeds.
//!
//! Rule: features = classes (if present) + "\n" + concatenation of the feature blocks, where the
//! blocks are taken in the order given by `org.robofab.opentype.featureorder` if that key is
//! present (tags without a block are skipped, blocks whose tag is not listed are not emitted),
//! and otherwise in ascending (byte-wise) order of their tags.

use std::fs;
use std::path::Path;

use norad::Font;
use tempfile::TempDir;

const HEADER: &str = "<?xml version='1.0' encoding='UTF-8'?>\n<!DOCTYPE plist PUBLIC \"-//Apple//DTD PLIST 1.0//EN\" \"http://www.apple.com/DTDs/PropertyList-1.0.dtd\">\n<plist version=\"1.0\">\n";

const TAGS: &[&str] = &["liga", "kern", "aalt", "smcp", "c2sc", "ss01", "Zero", "onum", "calt", "dlig"];

fn block(tag: &str) -> String {
    format!("feature {tag} {{\n    sub a by a.{tag};\n}} {tag};\n")
}

fn write_ufo1(path: &Path, order: Option<&[&str]>) {
    fs::create_dir_all(path.join("glyphs")).unwrap();
    fs::write(
        path.join("metainfo.plist"),
        format!("{HEADER}<dict><key>creator</key><string>test</string><key>formatVersion</key><integer>1</integer></dict></plist>\n"),
    )
    .unwrap();
    fs::write(path.join("glyphs/contents.plist"), format!("{HEADER}<dict></dict></plist>\n"))
        .unwrap();

    let mut lib = format!("{HEADER}<dict>\n");
    lib.push_str("<key>org.robofab.opentype.classes</key><string>@myClass = [A B];\n</string>\n");
    if let Some(order) = order {
        lib.push_str("<key>org.robofab.opentype.featureorder</key><array>");
        for tag in order {
            lib.push_str(&format!("<string>{tag}</string>"));
        }
        lib.push_str("</array>\n");
    }
    lib.push_str("<key>org.robofab.opentype.features</key><dict>\n");
    for tag in TAGS {
        lib.push_str(&format!("<key>{tag}</key><string>{}</string>\n", block(tag)));
    }
    lib.push_str("</dict>\n<key>com.test.other</key><integer>1</integer>\n</dict></plist>\n");
    fs::write(path.join("lib.plist"), lib).unwrap();
}

fn check(order: Option<&[&str]>, expected_tags: &[&str]) {
    let dir = TempDir::new().unwrap();
    let path = dir.path().join("legacy.ufo");
    write_ufo1(&path, order);

    let mut expected = String::from("@myClass = [A B];\n\n");
    for tag in expected_tags {
        expected.push_str(&block(tag));
    }

    let fonts: Vec<Font> = (0..30).map(|_| Font::load(&path).unwrap()).collect();
    for (i, font) in fonts.iter().enumerate() {
        assert_eq!(font.features, fonts[0].features, "load #{i}: features differ from load #0");
        assert_eq!(font, &fonts[0], "load #{i}: font differs from load #0");
    }
    for (i, font) in fonts.iter().enumerate() {
        assert_eq!(font.features, expected, "load #{i}: features are not the documented text");
        // the RoboFab keys are consumed, other lib keys stay
        assert_eq!(font.lib.len(), 1);
        assert!(font.lib.contains_key("com.test.other"));
    }
}

#[test]
fn features_without_featureorder_are_emitted_in_sorted_tag_order() {
    // byte-wise order: upper case before lower case
    check(None, &["Zero", "aalt", "c2sc", "calt", "dlig", "kern", "liga", "onum", "smcp", "ss01"]);
}

#[test]
fn features_with_featureorder_follow_that_order() {
    // This case never depended on hash order; it pins the rule for a partial featureorder:
    // only listed blocks are emitted, in the listed order; unknown tags are skipped.
    check(Some(&["smcp", "nope", "aalt", "liga"]), &["smcp", "aalt", "liga"]);
}
