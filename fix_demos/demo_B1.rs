//! B1: integer-or-float writers must emit <integer> only for exactly integral values.

use norad::fontinfo::NonNegativeIntegerOrFloat;
use norad::{Font, FontInfo};

const TINY: f64 = 1e-17;
const ONE_PLUS_ULP: f64 = 1.0000000000000002; // 1.0 + 2^-52
const ONE_MINUS_ULP: f64 = 0.9999999999999999; // 1.0 - 2^-53
const NEAR_700: f64 = 700.0000000000001; // 700.0 + 1 ulp

fn roundtrip(font: &Font) -> (Font, tempfile::TempDir) {
    let dir = tempfile::tempdir().unwrap();
    let path = dir.path().join("Test.ufo");
    font.save(&path).unwrap();
    (Font::load(&path).unwrap(), dir)
}

#[test]
fn kerning_values_survive_exactly() {
    assert_ne!(NEAR_700, 700.0);
    let mut font = Font::new();
    for (second, v) in [
        ("tiny", TINY),
        ("negtiny", -TINY),
        ("ulp", ONE_PLUS_ULP),
        ("below", ONE_MINUS_ULP),
        ("n700", -NEAR_700),
        ("int", -30.0),
    ] {
        font.kerning
            .entry(norad::Name::new("A").unwrap())
            .or_default()
            .insert(norad::Name::new(second).unwrap(), v);
    }
    let (loaded, dir) = roundtrip(&font);
    assert_eq!(loaded.kerning, font.kerning);

    // exactly integral values are still written as integers
    let text = std::fs::read_to_string(dir.path().join("Test.ufo/kerning.plist")).unwrap();
    assert!(text.contains("<integer>-30</integer>"), "{text}");
    assert!(!text.contains("<integer>0</integer>"), "{text}");
    assert!(!text.contains("<integer>1</integer>"), "{text}");
}

#[test]
fn fontinfo_integer_or_float_survives_exactly() {
    let mut font = Font::new();
    font.font_info = FontInfo {
        ascender: Some(NEAR_700),
        italic_angle: Some(-TINY),
        x_height: Some(ONE_PLUS_ULP),
        descender: Some(-200.0),
        cap_height: Some(ONE_MINUS_ULP),
        postscript_blue_values: Some(vec![TINY, ONE_PLUS_ULP, 10.0, NEAR_700]),
        ..Default::default()
    };
    let (loaded, dir) = roundtrip(&font);
    assert_eq!(loaded.font_info.ascender, Some(NEAR_700));
    assert_eq!(loaded.font_info.italic_angle, Some(-TINY));
    assert_eq!(loaded.font_info.x_height, Some(ONE_PLUS_ULP));
    assert_eq!(loaded.font_info.descender, Some(-200.0));
    assert_eq!(loaded.font_info.cap_height, Some(ONE_MINUS_ULP));
    assert_eq!(
        loaded.font_info.postscript_blue_values,
        Some(vec![TINY, ONE_PLUS_ULP, 10.0, NEAR_700])
    );
    assert_eq!(loaded.font_info, font.font_info);

    let text = std::fs::read_to_string(dir.path().join("Test.ufo/fontinfo.plist")).unwrap();
    assert!(text.contains("<integer>-200</integer>"), "{text}");
    assert!(text.contains("<integer>10</integer>"), "{text}");
}

#[test]
fn fontinfo_units_per_em_survives_exactly() {
    for v in [TINY, ONE_PLUS_ULP, ONE_MINUS_ULP, 1000.0000000000001] {
        let mut font = Font::new();
        font.font_info.units_per_em = Some(NonNegativeIntegerOrFloat::new(v).unwrap());
        let (loaded, _dir) = roundtrip(&font);
        assert_eq!(loaded.font_info.units_per_em.map(|u| u.as_f64()), Some(v));
    }
    let mut font = Font::new();
    font.font_info.units_per_em = Some(NonNegativeIntegerOrFloat::new(1000.0).unwrap());
    let (loaded, dir) = roundtrip(&font);
    assert_eq!(loaded.font_info.units_per_em.map(|u| u.as_f64()), Some(1000.0));
    let text = std::fs::read_to_string(dir.path().join("Test.ufo/fontinfo.plist")).unwrap();
    assert!(text.contains("<integer>1000</integer>"), "{text}");
}
