//! N1: numbers that are "almost integers" or that do not fit an i32 must survive save -> load
//! to within 1e-9 relative.

use norad::fontinfo::NonNegativeIntegerOrFloat;
use norad::{Font, Name};
use tempfile::TempDir;

fn close(a: f64, b: f64) -> bool {
    if a == b {
        return true;
    }
    (a - b).abs() <= 1e-9 * a.abs().max(b.abs())
}

fn n(s: &str) -> Name {
    Name::new(s).unwrap()
}

fn roundtrip(font: &Font) -> (Font, TempDir) {
    let dir = TempDir::new().unwrap();
    let path = dir.path().join("t.ufo");
    font.save(&path).unwrap();
    (Font::load(&path).unwrap(), dir)
}

#[test]
fn kerning_just_below_integer_is_not_truncated() {
    // 1 - 2^-53: within EPSILON of 1, but `as i32` truncates it to 0.
    let v = 0.9999999999999999_f64;
    assert!(v < 1.0);
    let mut font = Font::new();
    font.kerning.entry(n("A")).or_default().insert(n("B"), v);
    font.kerning.entry(n("A")).or_default().insert(n("C"), -v);
    font.kerning.entry(n("A")).or_default().insert(n("D"), 41.99999999999999);
    let (loaded, _dir) = roundtrip(&font);
    for (k, want) in [("B", v), ("C", -v), ("D", 41.99999999999999)] {
        let got = loaded.kerning["A"][k];
        assert!(close(got, want), "kerning A/{k}: wrote {want:e}, read {got:e}");
    }
}

#[test]
fn kerning_out_of_i32_range_is_not_saturated() {
    let mut font = Font::new();
    let inner = font.kerning.entry(n("A")).or_default();
    inner.insert(n("B"), 3e9);
    inner.insert(n("C"), -3e9);
    inner.insert(n("D"), 2147483648.0);
    inner.insert(n("E"), 1e300);
    // boundary values still fit
    inner.insert(n("F"), 2147483647.0);
    inner.insert(n("G"), -2147483648.0);
    let (loaded, dir) = roundtrip(&font);
    for (k, want) in [
        ("B", 3e9),
        ("C", -3e9),
        ("D", 2147483648.0),
        ("E", 1e300),
        ("F", 2147483647.0),
        ("G", -2147483648.0),
    ] {
        let got = loaded.kerning["A"][k];
        assert!(close(got, want), "kerning A/{k}: wrote {want:e}, read {got:e}");
    }
    // values that fit are still written as <integer>
    let text = std::fs::read_to_string(dir.path().join("t.ufo/kerning.plist")).unwrap();
    assert!(text.contains("<integer>2147483647</integer>"), "{text}");
    assert!(text.contains("<integer>-2147483648</integer>"), "{text}");
}

#[test]
fn fontinfo_out_of_i32_range_is_not_saturated() {
    let mut font = Font::new();
    font.font_info.ascender = Some(3e9);
    font.font_info.descender = Some(-3e9);
    font.font_info.units_per_em = Some(NonNegativeIntegerOrFloat::new(3e9).unwrap());
    font.font_info.postscript_blue_values = Some(vec![-3e9, 0.0, 3e9, 4e9]);
    font.font_info.x_height = Some(500.0);
    let (loaded, dir) = roundtrip(&font);
    assert!(close(loaded.font_info.ascender.unwrap(), 3e9), "{:?}", loaded.font_info.ascender);
    assert!(close(loaded.font_info.descender.unwrap(), -3e9), "{:?}", loaded.font_info.descender);
    let upm = loaded.font_info.units_per_em.unwrap().as_f64();
    assert!(close(upm, 3e9), "unitsPerEm: {upm:e}");
    let blues = loaded.font_info.postscript_blue_values.clone().unwrap();
    for (got, want) in blues.iter().zip([-3e9, 0.0, 3e9, 4e9]) {
        assert!(close(*got, want), "blue value: wrote {want:e}, read {got:e}");
    }
    assert_eq!(loaded.font_info.x_height, Some(500.0));
    let text = std::fs::read_to_string(dir.path().join("t.ufo/fontinfo.plist")).unwrap();
    assert!(text.contains("<integer>500</integer>"), "{text}");
}
