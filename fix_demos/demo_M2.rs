//! Demo for M2: the trailing period/space replacement of `user_name_to_file_name` must not
//! reach into the prefix (layer directories must keep their `glyphs.` prefix).

use norad::{user_name_to_file_name, Font};
use std::path::{Path, PathBuf};

fn layer_dir(name: &str) -> PathBuf {
    user_name_to_file_name(name, "glyphs.", "", |_| true)
}

#[test]
fn trailing_run_stops_at_prefix() {
    assert_eq!(layer_dir("."), PathBuf::from("glyphs._"));
    assert_eq!(layer_dir(". ."), PathBuf::from("glyphs.___"));
    assert_eq!(layer_dir("   "), PathBuf::from("glyphs.___"));
    assert_eq!(layer_dir(".."), PathBuf::from("glyphs.__"));
}

#[test]
fn unaffected_names() {
    // Names with something other than periods and spaces behave as before.
    assert_eq!(layer_dir("alt."), PathBuf::from("glyphs.alt_"));
    assert_eq!(layer_dir("a. ."), PathBuf::from("glyphs.a___"));
    assert_eq!(layer_dir("background"), PathBuf::from("glyphs.background"));
    // Without a prefix, the whole result is subject to the replacement, as before.
    assert_eq!(user_name_to_file_name(". .", "", "", |_| true), PathBuf::from("___"));
    assert_eq!(user_name_to_file_name("a..", "", "", |_| true), PathBuf::from("a__"));
    // With a suffix nothing is replaced, as before.
    assert_eq!(user_name_to_file_name("a.", "", ".glif", |_| true), PathBuf::from("a..glif"));
}

#[test]
fn layer_named_period_keeps_glyphs_prefix() {
    let mut font = Font::new();
    font.layers.new_layer(".").unwrap();
    assert_eq!(font.layers.get(".").unwrap().path(), Path::new("glyphs._"));

    let dir = tempfile::tempdir().unwrap();
    let path = dir.path().join("M2.ufo");
    font.save(&path).unwrap();
    assert!(path.join("glyphs._").is_dir());
    let loaded = Font::load(&path).unwrap();
    assert!(loaded.layers.get(".").is_some());
}
