//! K2: when upconverting UFO 1/2 kerning, "is this kerning key a glyph name?" must be answered
//! with the glyphs of the font's layers, not with every name that was seen while parsing
//! (component base names, the `name` attribute inside a .glif file).

use std::fs;
use std::path::Path;

use norad::Font;

const HEADER: &str = r#"<?xml version="1.0" encoding="UTF-8"?>
<!DOCTYPE plist PUBLIC "-//Apple//DTD PLIST 1.0//EN" "http://www.apple.com/DTDs/PropertyList-1.0.dtd">
<plist version="1.0">
"#;

fn write_ufo2(dir: &Path, glifs: &[(&str, &str, &str)], groups: &str, kerning: &str) {
    fs::create_dir_all(dir.join("glyphs")).unwrap();
    fs::write(
        dir.join("metainfo.plist"),
        format!(
            "{HEADER}<dict><key>creator</key><string>demo</string>\
             <key>formatVersion</key><integer>2</integer></dict></plist>"
        ),
    )
    .unwrap();
    let mut contents = String::from("<dict>");
    for (name, file, xml) in glifs {
        contents.push_str(&format!("<key>{name}</key><string>{file}</string>"));
        fs::write(dir.join("glyphs").join(file), xml).unwrap();
    }
    contents.push_str("</dict>");
    fs::write(dir.join("glyphs/contents.plist"), format!("{HEADER}{contents}</plist>")).unwrap();
    fs::write(dir.join("groups.plist"), format!("{HEADER}{groups}</plist>")).unwrap();
    fs::write(dir.join("kerning.plist"), format!("{HEADER}{kerning}</plist>")).unwrap();
}

fn kern(font: &Font, first: &str, second: &str) -> Option<f64> {
    font.kerning.get(first).and_then(|row| row.get(second)).copied()
}

const GROUPS: &str = "<dict>\
    <key>A</key><array><string>a</string></array>\
    <key>B</key><array><string>b</string></array>\
    <key>c</key><array><string>c</string></array>\
  </dict>";

const KERNING: &str = "<dict>\
    <key>A</key><dict><key>B</key><integer>7</integer></dict>\
    <key>c</key><dict><key>c</key><integer>9</integer></dict>\
  </dict>";

fn check(font: &Font) {
    // There is no glyph "A" or "B" in the font ...
    let layer = font.default_layer();
    assert!(layer.get_glyph("A").is_none() && layer.get_glyph("B").is_none());
    assert!(layer.get_glyph("a").is_some() && layer.get_glyph("b").is_some());

    // ... so the kerning keys "A" and "B" name groups and are converted.
    assert_eq!(font.groups.get("public.kern1.A"), font.groups.get("A"), "{:?}", font.groups);
    assert_eq!(font.groups.get("public.kern2.B"), font.groups.get("B"), "{:?}", font.groups);
    assert!(font.groups.get("public.kern1.A").is_some());
    assert!(font.groups.get("public.kern2.B").is_some());
    assert_eq!(kern(font, "public.kern1.A", "public.kern2.B"), Some(7.0), "{:?}", font.kerning);
    assert_eq!(kern(font, "A", "B"), None);

    // "c" is a glyph of the font (and a group): the key means the glyph and stays as it is.
    assert_eq!(kern(font, "c", "c"), Some(9.0));
    assert!(font.groups.keys().all(|k| k.as_str() != "public.kern1.c" && k.as_str() != "public.kern2.c"));
    assert_eq!(font.groups.len(), 5);
    assert_eq!(font.kerning.len(), 2);
}

/// Glyph "a" has a component whose base is "A", glyph "b" one whose base is "B";
/// no glyphs "A" or "B" exist.
#[test]
fn component_base_names_are_not_glyph_names() {
    let tmp = tempfile::TempDir::new().unwrap();
    let ufo = tmp.path().join("k2a.ufo");
    let glif = |name: &str, base: &str| {
        format!(
            "<?xml version=\"1.0\" encoding=\"UTF-8\"?>\n<glyph name=\"{name}\" format=\"1\">\
             <advance width=\"500\"/><outline><component base=\"{base}\"/></outline></glyph>"
        )
    };
    let plain = "<?xml version=\"1.0\" encoding=\"UTF-8\"?>\n<glyph name=\"c\" format=\"1\">\
                 <advance width=\"500\"/></glyph>";
    write_ufo2(
        &ufo,
        &[("a", "a.glif", &glif("a", "A")), ("b", "b.glif", &glif("b", "B")), ("c", "c.glif", plain)],
        GROUPS,
        KERNING,
    );
    check(&Font::load(&ufo).unwrap());
}

/// The .glif files of glyphs "a" and "b" (contents.plist keys) carry the inner names "A" and "B".
#[test]
fn glif_inner_names_are_not_glyph_names() {
    let tmp = tempfile::TempDir::new().unwrap();
    let ufo = tmp.path().join("k2b.ufo");
    let glif = |name: &str| {
        format!(
            "<?xml version=\"1.0\" encoding=\"UTF-8\"?>\n<glyph name=\"{name}\" format=\"1\">\
             <advance width=\"500\"/></glyph>"
        )
    };
    write_ufo2(
        &ufo,
        &[("a", "a.glif", &glif("A")), ("b", "b.glif", &glif("B")), ("c", "c.glif", &glif("c"))],
        GROUPS,
        KERNING,
    );
    check(&Font::load(&ufo).unwrap());
}
