//! N3a: upconversion of UFO 1/2 kerning groups must not depend on hash seeds.
//!
//! When several legacy groups map to the same `public.kern1.*` / `public.kern2.*` name, the
//! legacy groups are processed in ascending (byte-wise) name order; the first one gets the plain
//! name, later ones get the suffixes 1, 2, ...

use std::collections::BTreeMap;
use std::fs;
use std::path::Path;

use norad::{Font, Groups, Kerning, Name};
use tempfile::TempDir;

const HEADER: &str = "<?xml version='1.0' encoding='UTF-8'?>\n<!DOCTYPE plist PUBLIC \"-//Apple//DTD PLIST 1.0//EN\" \"http://www.apple.com/DTDs/PropertyList-1.0.dtd\">\n<plist version=\"1.0\">\n";

fn n(s: &str) -> Name {
    Name::new(s).unwrap()
}

fn write_ufo2(path: &Path, groups: &[(&str, &[&str])], kerning: &[(&str, &[(&str, i32)])]) {
    fs::create_dir_all(path.join("glyphs")).unwrap();
    fs::write(
        path.join("metainfo.plist"),
        format!("{HEADER}<dict><key>creator</key><string>test</string><key>formatVersion</key><integer>2</integer></dict></plist>\n"),
    )
    .unwrap();
    fs::write(path.join("glyphs/contents.plist"), format!("{HEADER}<dict></dict></plist>\n"))
        .unwrap();

    let mut g = format!("{HEADER}<dict>\n");
    for (name, members) in groups {
        g.push_str(&format!("<key>{name}</key><array>"));
        for m in *members {
            g.push_str(&format!("<string>{m}</string>"));
        }
        g.push_str("</array>\n");
    }
    g.push_str("</dict></plist>\n");
    fs::write(path.join("groups.plist"), g).unwrap();

    let mut k = format!("{HEADER}<dict>\n");
    for (first, seconds) in kerning {
        k.push_str(&format!("<key>{first}</key><dict>"));
        for (second, v) in *seconds {
            k.push_str(&format!("<key>{second}</key><integer>{v}</integer>"));
        }
        k.push_str("</dict>\n");
    }
    k.push_str("</dict></plist>\n");
    fs::write(path.join("kerning.plist"), k).unwrap();
}

fn groups_of(items: &[(&str, &[&str])]) -> Groups {
    items.iter().map(|(k, v)| (n(k), v.iter().map(|m| n(m)).collect())).collect()
}

fn kerning_of(items: &[(&str, &[(&str, i32)])]) -> Kerning {
    items
        .iter()
        .map(|(k, v)| (n(k), v.iter().map(|(s, x)| (n(s), *x as f64)).collect::<BTreeMap<_, _>>()))
        .collect()
}

#[test]
fn colliding_kerning_groups_are_renamed_deterministically() {
    // Legacy groups. On the first side `@MMK_L_X` and `X` both want `public.kern1.X`; for C
    // there is a third contender (`replace` removes every occurrence of the prefix).
    // On the second side `@MMK_R_X` and `X` both want `public.kern2.X`.
    let legacy_groups: &[(&str, &[&str])] = &[
        ("@MMK_L_A", &["a.l"]),
        ("@MMK_L_B", &["b.l"]),
        ("@MMK_L_C", &["c.l"]),
        ("@MMK_L_@MMK_L_C", &["c.ll"]),
        ("@MMK_L_D", &["d.l"]),
        ("@MMK_L_E", &["e.l"]),
        ("@MMK_R_A", &["a.r"]),
        ("@MMK_R_B", &["b.r"]),
        ("@MMK_R_C", &["c.r"]),
        ("@MMK_R_D", &["d.r"]),
        ("@MMK_R_E", &["e.r"]),
        ("A", &["a.plain"]),
        ("B", &["b.plain"]),
        ("C", &["c.plain"]),
        ("D", &["d.plain"]),
        ("E", &["e.plain"]),
    ];
    let legacy_kerning: &[(&str, &[(&str, i32)])] = &[
        ("@MMK_L_A", &[("@MMK_R_A", 1), ("A", 2)]),
        ("A", &[("@MMK_R_A", 3), ("A", 4), ("B", 5), ("C", 6), ("D", 7), ("E", 8)]),
        ("B", &[("@MMK_R_B", 9)]),
        ("C", &[("@MMK_R_C", 10)]),
        ("D", &[("@MMK_R_D", 11)]),
        ("E", &[("@MMK_R_E", 12)]),
    ];

    // The documented result: all legacy groups are kept, and the new groups are
    let mut expected_groups: Vec<(&str, &[&str])> = legacy_groups.to_vec();
    expected_groups.extend_from_slice(&[
        // "@MMK_L_@MMK_L_C" < "@MMK_L_A" < ... < "@MMK_L_E" < "A" < ... < "E"
        ("public.kern1.C", &["c.ll"]),
        ("public.kern1.A", &["a.l"]),
        ("public.kern1.B", &["b.l"]),
        ("public.kern1.C1", &["c.l"]),
        ("public.kern1.D", &["d.l"]),
        ("public.kern1.E", &["e.l"]),
        ("public.kern1.A1", &["a.plain"]),
        ("public.kern1.B1", &["b.plain"]),
        ("public.kern1.C2", &["c.plain"]),
        ("public.kern1.D1", &["d.plain"]),
        ("public.kern1.E1", &["e.plain"]),
        // "@MMK_R_A" < ... < "@MMK_R_E" < "A" < ... < "E"
        ("public.kern2.A", &["a.r"]),
        ("public.kern2.B", &["b.r"]),
        ("public.kern2.C", &["c.r"]),
        ("public.kern2.D", &["d.r"]),
        ("public.kern2.E", &["e.r"]),
        ("public.kern2.A1", &["a.plain"]),
        ("public.kern2.B1", &["b.plain"]),
        ("public.kern2.C1", &["c.plain"]),
        ("public.kern2.D1", &["d.plain"]),
        ("public.kern2.E1", &["e.plain"]),
    ]);
    let expected_groups = groups_of(&expected_groups);
    let expected_kerning = kerning_of(&[
        ("public.kern1.A", &[("public.kern2.A", 1), ("public.kern2.A1", 2)]),
        (
            "public.kern1.A1",
            &[
                ("public.kern2.A", 3),
                ("public.kern2.A1", 4),
                ("public.kern2.B1", 5),
                ("public.kern2.C1", 6),
                ("public.kern2.D1", 7),
                ("public.kern2.E1", 8),
            ],
        ),
        ("public.kern1.B1", &[("public.kern2.B", 9)]),
        ("public.kern1.C2", &[("public.kern2.C", 10)]),
        ("public.kern1.D1", &[("public.kern2.D", 11)]),
        ("public.kern1.E1", &[("public.kern2.E", 12)]),
    ]);

    let dir = TempDir::new().unwrap();
    let path = dir.path().join("legacy.ufo");
    write_ufo2(&path, legacy_groups, legacy_kerning);

    let fonts: Vec<Font> = (0..30).map(|_| Font::load(&path).unwrap()).collect();
    for (i, font) in fonts.iter().enumerate() {
        assert_eq!(font.groups, fonts[0].groups, "load #{i}: groups differ from load #0");
        assert_eq!(font.kerning, fonts[0].kerning, "load #{i}: kerning differs from load #0");
        assert_eq!(font, &fonts[0], "load #{i}: font differs from load #0");
    }
    for (i, font) in fonts.iter().enumerate() {
        assert_eq!(font.groups, expected_groups, "load #{i}: groups are not the documented ones");
        assert_eq!(font.kerning, expected_kerning, "load #{i}: kerning is not the documented one");
    }
}
