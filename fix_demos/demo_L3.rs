//! L3: after `Font::load`, the layer set must know which directories are taken
//! by the loaded layers, so that `new_layer`/`rename_layer` never assign a
//! directory twice (compared case-insensitively).

use std::collections::HashSet;

use norad::{Font, Glyph};
use tempfile::TempDir;

fn assert_dirs_distinct(font: &Font) {
    let dirs: Vec<String> =
        font.layers.iter().map(|l| l.path().to_string_lossy().to_lowercase()).collect();
    let set: HashSet<&String> = dirs.iter().collect();
    assert_eq!(set.len(), dirs.len(), "layer directories clash: {dirs:?}");
}

fn layer_summary(font: &Font) -> Vec<(String, Vec<String>)> {
    font.layers
        .iter()
        .map(|l| (l.name().to_string(), l.iter().map(|g| g.name().to_string()).collect()))
        .collect()
}

/// A font with the layers "Ab" (glyphs.A_b) and "a_b" (glyphs.a_b01), saved and loaded again.
fn loaded_font(dir: &TempDir) -> Font {
    let mut font = Font::new();
    font.layers.new_layer("Ab").unwrap().insert_glyph(Glyph::new("one"));
    font.layers.new_layer("a_b").unwrap().insert_glyph(Glyph::new("two"));
    assert_eq!(font.layers.get("Ab").unwrap().path().to_str(), Some("glyphs.A_b"));
    assert_eq!(font.layers.get("a_b").unwrap().path().to_str(), Some("glyphs.a_b01"));
    let path = dir.path().join("in.ufo");
    font.save(&path).unwrap();
    Font::load(&path).unwrap()
}

#[test]
fn new_layer_after_load_avoids_loaded_directories() {
    let dir = TempDir::new().unwrap();
    let mut font = loaded_font(&dir);

    // "a_b01" would map to "glyphs.a_b01", which the loaded layer "a_b" occupies.
    font.layers.new_layer("a_b01").unwrap().insert_glyph(Glyph::new("three"));
    assert_dirs_distinct(&font);
    assert_eq!(font.layers.get("a_b01").unwrap().path().to_str(), Some("glyphs.a_b0101"));

    // ... and the result can be saved and comes back complete.
    let out = dir.path().join("out.ufo");
    font.save(&out).unwrap();
    let again = Font::load(&out).unwrap();
    assert_eq!(layer_summary(&again), layer_summary(&font));
}

#[test]
fn rename_layer_after_load_avoids_loaded_directories() {
    let dir = TempDir::new().unwrap();
    let mut font = loaded_font(&dir);

    font.layers.new_layer("x").unwrap();
    // "a_b01" would map to "glyphs.a_b01", which the loaded layer "a_b" occupies.
    font.layers.rename_layer("x", "a_b01", false).unwrap();
    assert_dirs_distinct(&font);
    assert_eq!(font.layers.get("a_b01").unwrap().path().to_str(), Some("glyphs.a_b0101"));
}

#[test]
fn removing_a_loaded_layer_frees_its_directory() {
    let dir = TempDir::new().unwrap();
    let mut font = loaded_font(&dir);

    font.layers.remove("Ab").unwrap();
    font.layers.new_layer("Ab").unwrap();
    assert_eq!(font.layers.get("Ab").unwrap().path().to_str(), Some("glyphs.A_b"));
    assert_dirs_distinct(&font);
}

#[test]
fn loaded_directory_that_does_not_derive_from_the_layer_name() {
    let dir = TempDir::new().unwrap();
    let mut font = Font::new();
    font.layers.new_layer("a").unwrap().insert_glyph(Glyph::new("one"));
    let path = dir.path().join("in.ufo");
    font.save(&path).unwrap();

    // rename the layer "a" to "foo" on disk, keeping its directory "glyphs.a"
    let lc = path.join("layercontents.plist");
    let text = std::fs::read_to_string(&lc).unwrap();
    assert!(text.contains("<string>a</string>"));
    std::fs::write(&lc, text.replace("<string>a</string>", "<string>foo</string>")).unwrap();

    let mut font = Font::load(&path).unwrap();
    assert_eq!(font.layers.get("foo").unwrap().path().to_str(), Some("glyphs.a"));

    font.layers.new_layer("a").unwrap().insert_glyph(Glyph::new("two"));
    assert_dirs_distinct(&font);

    let out = dir.path().join("out.ufo");
    font.save(&out).unwrap();
    let again = Font::load(&out).unwrap();
    assert_eq!(layer_summary(&again), layer_summary(&font));
}
