//! A2 `image-non-utf8`: `Image::new` accepted a file name that is not valid
//! UTF-8; `Glyph::encode_xml` / `Font::save` then panicked at
//! `file_name.to_str().expect("missing path")` (for `Font::save`, after the
//! target directory had been wiped). `Image::new` must reject such a name.
#![cfg(unix)]

use std::ffi::OsString;
use std::os::unix::ffi::OsStringExt;
use std::path::PathBuf;

use norad::{AffineTransform, Font, Glyph, Image};

fn non_utf8_name() -> PathBuf {
    PathBuf::from(OsString::from_vec(vec![b'i', b'm', b'g', 0xFF, b'.', b'p', b'n', b'g']))
}

#[test]
fn image_new_rejects_non_utf8_file_name() {
    let result = Image::new(non_utf8_name(), None, AffineTransform::default());
    assert!(result.is_err(), "a non-UTF-8 image file name was accepted: {result:?}");
}

#[test]
fn glyph_with_any_constructible_image_encodes_and_saves_without_panic() {
    // Whatever `Image::new` lets through must be serializable.
    let mut glyph = Glyph::new("a");
    if let Ok(image) = Image::new(non_utf8_name(), None, AffineTransform::default()) {
        glyph.image = Some(image);
    }
    glyph.encode_xml().unwrap();

    let mut font = Font::new();
    font.default_layer_mut().insert_glyph(glyph);
    let tmp = tempfile::TempDir::new().unwrap();
    font.save(tmp.path().join("out.ufo")).unwrap();
}

#[test]
fn utf8_file_names_are_still_accepted() {
    let image = Image::new(PathBuf::from("im\u{e4}ge 1.png"), None, AffineTransform::default())
        .unwrap();
    let mut glyph = Glyph::new("a");
    glyph.image = Some(image);
    let xml = String::from_utf8(glyph.encode_xml().unwrap()).unwrap();
    assert!(xml.contains("fileName=\"im\u{e4}ge 1.png\""), "{xml}");
}
