//! Demo for M3a: `FontInfo::validate` must reject global guidelines whose angle is outside
//! 0..=360 degrees, so that `Font::save` refuses them before touching the file system.

use norad::error::FontWriteError;
use norad::{Font, FontInfo, Guideline, Line};

fn info_with_angle(degrees: f64) -> FontInfo {
    let mut info = FontInfo::default();
    info.guidelines =
        Some(vec![Guideline::new(Line::Angle { x: 1.0, y: 2.0, degrees }, None, None, None)]);
    info
}

#[test]
fn validate_checks_guideline_angles() {
    for bad in [400.0, -0.5, 360.000001, f64::NAN, f64::INFINITY, f64::NEG_INFINITY] {
        assert!(info_with_angle(bad).validate().is_err(), "angle {bad} must be rejected");
    }
    for good in [0.0, -0.0, 45.5, 360.0] {
        assert!(info_with_angle(good).validate().is_ok(), "angle {good} must be accepted");
    }
    // Other line kinds carry no angle.
    let mut info = FontInfo::default();
    info.guidelines = Some(vec![
        Guideline::new(Line::Vertical(400.0), None, None, None),
        Guideline::new(Line::Horizontal(-400.0), None, None, None),
    ]);
    assert!(info.validate().is_ok());
}

#[test]
fn save_rejects_bad_angle_before_wiping_target() {
    let dir = tempfile::tempdir().unwrap();
    let path = dir.path().join("M3a.ufo");

    // A good font is on disk first.
    let mut font = Font::new();
    font.font_info.family_name = Some("Precious".into());
    font.save(&path).unwrap();
    assert!(path.join("fontinfo.plist").exists());

    // Saving a font with an invalid guideline angle over it must fail up front...
    font.font_info = info_with_angle(400.0);
    let err = font.save(&path).unwrap_err();
    assert!(matches!(err, FontWriteError::InvalidFontInfo(_)), "unexpected error: {err:?}");

    // ...and leave the previous UFO intact.
    let reloaded = Font::load(&path).expect("previous UFO must still be loadable");
    assert_eq!(reloaded.font_info.family_name.as_deref(), Some("Precious"));
}
