//! B2: xScale / yScale must be omitted from glif output only when exactly 1.

use norad::{AffineTransform, Component, Glyph, Image, Name};

const ABOVE: f64 = 1.0000000000000002; // 1.0 + 2^-52
const BELOW: f64 = 0.9999999999999999; // 1.0 - 2^-53

fn roundtrip(glyph: &Glyph) -> (Glyph, String) {
    let xml = glyph.encode_xml().unwrap();
    let text = String::from_utf8(xml.clone()).unwrap();
    (Glyph::parse_raw(&xml).unwrap(), text)
}

#[test]
fn component_scale_next_to_one_survives() {
    for (xs, ys) in [(ABOVE, BELOW), (BELOW, ABOVE), (ABOVE, 1.0), (1.0, BELOW)] {
        let mut glyph = Glyph::new("a");
        let transform = AffineTransform { x_scale: xs, y_scale: ys, ..Default::default() };
        glyph.components.push(Component::new(Name::new("b").unwrap(), transform, None));
        let (loaded, text) = roundtrip(&glyph);
        assert_eq!(loaded.components[0].transform, transform, "{text}");
        assert_eq!(loaded, glyph);
    }
}

#[test]
fn image_scale_next_to_one_survives() {
    let mut glyph = Glyph::new("a");
    let transform = AffineTransform { x_scale: BELOW, y_scale: ABOVE, ..Default::default() };
    glyph.image = Some(Image::new("a.png".into(), None, transform).unwrap());
    let (loaded, text) = roundtrip(&glyph);
    assert_eq!(loaded.image.as_ref().unwrap().transform, transform, "{text}");
}

#[test]
fn exact_identity_scale_is_still_omitted() {
    let mut glyph = Glyph::new("a");
    let transform = AffineTransform { x_offset: 5.0, ..Default::default() };
    glyph.components.push(Component::new(Name::new("b").unwrap(), transform, None));
    let (loaded, text) = roundtrip(&glyph);
    assert!(!text.contains("Scale"), "{text}");
    assert_eq!(loaded, glyph);
}
