//! L1: `LayerContents::rename_layer(x, x, true)` must not panic; it is a no-op.

use norad::error::NamingError;
use norad::{Font, Glyph};

fn snapshot(font: &Font) -> Vec<(String, std::path::PathBuf, Vec<String>)> {
    font.layers
        .iter()
        .map(|l| {
            (
                l.name().to_string(),
                l.path().to_path_buf(),
                l.iter().map(|g| g.name().to_string()).collect(),
            )
        })
        .collect()
}

#[test]
fn self_rename_with_overwrite_is_a_noop_for_nondefault_layer() {
    let mut font = Font::new();
    font.layers.new_layer("x").unwrap().insert_glyph(Glyph::new("A"));
    font.layers.new_layer("y").unwrap();
    let before = snapshot(&font);

    // Used to panic: the layer removed itself and was then looked up again.
    font.layers.rename_layer("x", "x", true).unwrap();

    assert_eq!(snapshot(&font), before);
    assert!(font.layers.get("x").unwrap().contains_glyph("A"));
}

#[test]
fn self_rename_with_overwrite_is_a_noop_for_default_layer() {
    let mut font = Font::new();
    font.layers.new_layer("x").unwrap();
    let before = snapshot(&font);

    font.layers.rename_layer("public.default", "public.default", true).unwrap();
    assert_eq!(snapshot(&font), before);

    font.layers.rename_layer("public.default", "foreground", false).unwrap();
    let before = snapshot(&font);
    font.layers.rename_layer("foreground", "foreground", true).unwrap();
    assert_eq!(snapshot(&font), before);
}

#[test]
fn self_rename_without_overwrite_still_reports_duplicate() {
    let mut font = Font::new();
    font.layers.new_layer("x").unwrap();
    let before = snapshot(&font);

    let r = font.layers.rename_layer("x", "x", false);
    assert!(matches!(r, Err(NamingError::Duplicate(_))), "{r:?}");
    assert_eq!(snapshot(&font), before);

    // A missing layer is still reported as missing.
    let r = font.layers.rename_layer("nope", "nope", true);
    assert!(matches!(r, Err(NamingError::Missing(_))), "{r:?}");
    assert_eq!(snapshot(&font), before);
}
