//! L5: `Layer::retain` must forget the file names of the glyphs it removes;
//! otherwise `Font::save` panics ("all glyphs in contents must exist").

use norad::{Font, Glyph};
use tempfile::TempDir;

fn glyph_names(font: &Font, layer: &str) -> Vec<String> {
    font.layers.get(layer).unwrap().iter().map(|g| g.name().to_string()).collect()
}

#[test]
fn retain_then_save_new_font() {
    let mut font = Font::new();
    for n in ["a", "b", "c", "d"] {
        font.default_layer_mut().insert_glyph(Glyph::new(n));
    }
    font.default_layer_mut().retain(|name, _| name.as_str() == "a" || name.as_str() == "c");

    assert_eq!(font.default_layer().len(), 2);
    assert!(font.default_layer().get_path("a").is_some());
    assert!(font.default_layer().get_path("b").is_none());
    assert!(font.default_layer().get_path("d").is_none());

    let dir = TempDir::new().unwrap();
    let path = dir.path().join("f.ufo");
    font.save(&path).unwrap(); // used to panic
    assert!(path.join("glyphs/a.glif").exists());
    assert!(!path.join("glyphs/b.glif").exists());

    let loaded = Font::load(&path).unwrap();
    assert_eq!(glyph_names(&loaded, "public.default"), ["a", "c"]);
}

#[test]
fn retain_then_save_loaded_font() {
    let mut font = Font::load("testdata/MutatorSansLightWide.ufo").unwrap();
    let before = font.default_layer().len();
    font.default_layer_mut().retain(|name, _| name.len() == 1);
    let kept: Vec<String> = glyph_names(&font, "foreground");
    assert!(!kept.is_empty() && kept.len() < before);
    assert!(font.default_layer().get_path("space").is_none());

    let dir = TempDir::new().unwrap();
    let path = dir.path().join("f.ufo");
    font.save(&path).unwrap(); // used to panic
    let loaded = Font::load(&path).unwrap();
    assert_eq!(glyph_names(&loaded, "foreground"), kept);
}

#[test]
fn retain_frees_the_file_names() {
    let mut font = Font::new();
    let layer = font.default_layer_mut();
    layer.insert_glyph(Glyph::new("Ab"));
    layer.insert_glyph(Glyph::new("a_b"));
    assert_eq!(layer.get_path("Ab").unwrap().to_str(), Some("A_b.glif"));
    assert_eq!(layer.get_path("a_b").unwrap().to_str(), Some("a_b01.glif"));

    layer.retain(|name, _| name.as_str() == "a_b");
    assert_eq!(layer.get_path("a_b").unwrap().to_str(), Some("a_b01.glif"));

    // same as after `remove_glyph("Ab")`: the name "A_b.glif" is available again
    layer.insert_glyph(Glyph::new("Ab"));
    assert_eq!(layer.get_path("Ab").unwrap().to_str(), Some("A_b.glif"));

    // retaining everything changes nothing
    layer.retain(|_, _| true);
    assert_eq!(layer.get_path("Ab").unwrap().to_str(), Some("A_b.glif"));
    assert_eq!(layer.get_path("a_b").unwrap().to_str(), Some("a_b01.glif"));
    assert_eq!(layer.len(), 2);
}
