//! Demo for M3b: openTypeHeadCreated must have a month in 1..=12 and a day in 1..=31.

use norad::FontInfo;

fn date_ok(date: &str) -> bool {
    let mut info = FontInfo::default();
    info.open_type_head_created = Some(date.to_string());
    info.validate().is_ok()
}

#[test]
fn month_and_day_zero_are_rejected() {
    assert!(!date_ok("2020/00/00 00:00:00"));
    assert!(!date_ok("2020/00/15 12:00:00"));
    assert!(!date_ok("2020/06/00 12:00:00"));
}

#[test]
fn range_limits_unchanged() {
    assert!(date_ok("2020/01/01 00:00:00"));
    assert!(date_ok("0000/12/31 23:59:59"));
    assert!(date_ok("9999/12/31 23:59:59"));
    assert!(!date_ok("2020/13/01 00:00:00"));
    assert!(!date_ok("2020/01/32 00:00:00"));
    assert!(!date_ok("2020/01/01 24:00:00"));
    assert!(!date_ok("2020/01/01 00:60:00"));
    assert!(!date_ok("2020/01/01 00:00:60"));
    assert!(!date_ok("2020-01-01 00:00:00"));
    assert!(!date_ok("2020/1/1 0:0:0"));
}
