//! A3 `orphan_object_libs`: a UFO whose lib.plist holds `public.objectLibs`
//! but which has no fontinfo.plist (or is format 1/2) loaded with the key left
//! in `font.lib`; `Font::save` of the loaded font then failed with
//! `PreexistingPublicObjectLibsKey`. Loading must always consume the key.

use std::fs;
use std::path::{Path, PathBuf};

use norad::Font;

const PLIST_HEAD: &str = "<?xml version=\"1.0\" encoding=\"UTF-8\"?>\n<!DOCTYPE plist PUBLIC \"-//Apple//DTD PLIST 1.0//EN\" \"http://www.apple.com/DTDs/PropertyList-1.0.dtd\">\n<plist version=\"1.0\">\n";

const LIB: &str = "<dict>\n<key>com.example.keep</key><string>kept</string>\n<key>public.objectLibs</key>\n<dict><key>guide1</key><dict><key>com.example.foo</key><integer>1</integer></dict></dict>\n</dict>\n";

const FONTINFO_WITH_GUIDELINE: &str = "<dict>\n<key>guidelines</key>\n<array><dict><key>x</key><integer>10</integer><key>identifier</key><string>guide1</string></dict></array>\n</dict>\n";

fn make_ufo(root: &Path, format_version: u8, fontinfo: Option<&str>) -> PathBuf {
    let ufo = root.join("font.ufo");
    fs::create_dir_all(ufo.join("glyphs")).unwrap();
    fs::write(
        ufo.join("metainfo.plist"),
        format!("{PLIST_HEAD}<dict><key>creator</key><string>org.linebender.norad</string><key>formatVersion</key><integer>{format_version}</integer></dict>\n</plist>\n"),
    )
    .unwrap();
    if format_version == 3 {
        fs::write(
            ufo.join("layercontents.plist"),
            format!("{PLIST_HEAD}<array>\n<array><string>public.default</string><string>glyphs</string></array>\n</array>\n</plist>\n"),
        )
        .unwrap();
    }
    fs::write(ufo.join("glyphs/contents.plist"), format!("{PLIST_HEAD}<dict/>\n</plist>\n"))
        .unwrap();
    fs::write(ufo.join("lib.plist"), format!("{PLIST_HEAD}{LIB}</plist>\n")).unwrap();
    if let Some(fontinfo) = fontinfo {
        fs::write(ufo.join("fontinfo.plist"), format!("{PLIST_HEAD}{fontinfo}</plist>\n")).unwrap();
    }
    ufo
}

fn assert_loads_without_key_and_round_trips(format_version: u8, fontinfo: Option<&str>) -> Font {
    let tmp = tempfile::TempDir::new().unwrap();
    let ufo = make_ufo(tmp.path(), format_version, fontinfo);
    let font = Font::load(&ufo).unwrap();
    assert!(
        !font.lib.contains_key("public.objectLibs"),
        "format {format_version}: the loaded font.lib still holds public.objectLibs"
    );
    assert_eq!(font.lib.get("com.example.keep").and_then(|v| v.as_string()), Some("kept"));
    let out = tmp.path().join("out.ufo");
    font.save(&out).unwrap_or_else(|e| panic!("format {format_version}: a loaded font must be saveable: {e:?}"));
    assert_eq!(Font::load(&out).unwrap(), font);
    font
}

#[test]
fn v3_without_fontinfo() {
    assert_loads_without_key_and_round_trips(3, None);
}

#[test]
fn v3_with_fontinfo_without_guidelines() {
    assert_loads_without_key_and_round_trips(3, Some("<dict><key>familyName</key><string>X</string></dict>\n"));
}

#[test]
fn v2_and_v1_with_and_without_fontinfo() {
    assert_loads_without_key_and_round_trips(2, None);
    assert_loads_without_key_and_round_trips(2, Some("<dict><key>familyName</key><string>X</string></dict>\n"));
    assert_loads_without_key_and_round_trips(1, None);
    assert_loads_without_key_and_round_trips(1, Some("<dict><key>familyName</key><string>X</string></dict>\n"));
}

#[test]
fn v3_guideline_libs_are_still_attached() {
    let font = assert_loads_without_key_and_round_trips(3, Some(FONTINFO_WITH_GUIDELINE));
    let lib = font.guidelines()[0].lib().expect("the guideline lib was not attached");
    assert_eq!(lib.get("com.example.foo").and_then(|v| v.as_signed_integer()), Some(1));
}
