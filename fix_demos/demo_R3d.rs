//! R3d: a self-closing <contour .../> was skipped without checking its attributes.

use norad::error::{ErrorKind, GlifLoadError};
use norad::Glyph;

fn glif(format: u32, body: &str) -> String {
    format!(
        "<?xml version=\"1.0\" encoding=\"UTF-8\"?>\n<glyph name=\"a\" format=\"{format}\">\n{body}\n</glyph>\n"
    )
}

fn kind(format: u32, body: &str) -> Result<Glyph, ErrorKind> {
    match Glyph::parse_raw(glif(format, body).as_bytes()) {
        Ok(glyph) => Ok(glyph),
        Err(GlifLoadError::Parse(kind)) => Err(kind),
        Err(other) => panic!("{body}: unexpected error {other:?}"),
    }
}

#[test]
fn unknown_attribute_on_self_closing_contour() {
    let result = kind(2, "<outline><contour foo=\"1\"/></outline>");
    assert!(matches!(result, Err(ErrorKind::UnexpectedAttribute)), "{result:?}");
    // same as for the long form
    let result = kind(2, "<outline><contour foo=\"1\"></contour></outline>");
    assert!(matches!(result, Err(ErrorKind::UnexpectedAttribute)), "{result:?}");
}

#[test]
fn bad_identifier_on_self_closing_contour() {
    let result = kind(2, "<outline><contour identifier=\"\u{e9}\"/></outline>");
    assert!(matches!(result, Err(ErrorKind::BadIdentifier)), "{result:?}");
}

#[test]
fn identifier_of_self_closing_contour_counts_as_used() {
    let bodies = [
        "<outline><contour identifier=\"i\"/><contour identifier=\"i\"/></outline>",
        "<outline><contour identifier=\"i\"/><component base=\"b\" identifier=\"i\"/></outline>",
        "<outline><contour identifier=\"i\"/></outline><anchor x=\"0\" y=\"0\" identifier=\"i\"/>",
        "<anchor x=\"0\" y=\"0\" identifier=\"i\"/><outline><contour identifier=\"i\"/></outline>",
        // and the long form behaves the same
        "<outline><contour identifier=\"i\"></contour><contour identifier=\"i\"></contour></outline>",
    ];
    for body in bodies {
        let result = kind(2, body);
        assert!(matches!(result, Err(ErrorKind::DuplicateIdentifier)), "{body}: {result:?}");
    }
}

#[test]
fn format_1_allows_no_attribute_on_self_closing_contour() {
    let result = kind(1, "<outline><contour identifier=\"i\"/></outline>");
    assert!(matches!(result, Err(ErrorKind::UnexpectedAttribute)), "{result:?}");
    // same as for the long form
    let result = kind(1, "<outline><contour identifier=\"i\"></contour></outline>");
    assert!(matches!(result, Err(ErrorKind::UnexpectedAttribute)), "{result:?}");
}

#[test]
fn valid_self_closing_contours_are_dropped() {
    for format in [1, 2] {
        let glyph = kind(format, "<outline><contour/><contour /></outline>").unwrap();
        assert!(glyph.contours.is_empty());
    }
    let glyph = kind(
        2,
        "<outline><contour identifier=\"i\"/><contour identifier=\"j\"><point x=\"1\" y=\"2\" type=\"line\"/></contour></outline>",
    )
    .unwrap();
    assert_eq!(glyph.contours.len(), 1);
    assert_eq!(glyph.contours[0].identifier().map(|i| i.as_str()), Some("j"));
}
