//! Demo for M4: saving a font whose creator is not norad's must replace the creator but keep
//! `formatVersionMinor`.

use norad::{Font, FormatVersion};

fn save_and_reload(font: &Font) -> Font {
    let dir = tempfile::tempdir().unwrap();
    let path = dir.path().join("M4.ufo");
    font.save(&path).unwrap();
    Font::load(&path).unwrap()
}

#[test]
fn foreign_creator_keeps_minor_version() {
    let mut font = Font::new();
    font.meta.creator = Some("com.example.othertool".into());
    font.meta.format_version_minor = 2;

    let once = save_and_reload(&font);
    assert_eq!(once.meta.creator.as_deref(), Some("org.linebender.norad"));
    assert_eq!(once.meta.format_version, FormatVersion::V3);
    assert_eq!(once.meta.format_version_minor, 2);

    // load/save/load is a fixed point.
    let twice = save_and_reload(&once);
    assert_eq!(twice.meta, once.meta);
}

#[test]
fn missing_creator_keeps_minor_version() {
    let mut font = Font::new();
    font.meta.creator = None;
    font.meta.format_version_minor = 7;
    let reloaded = save_and_reload(&font);
    assert_eq!(reloaded.meta.creator.as_deref(), Some("org.linebender.norad"));
    assert_eq!(reloaded.meta.format_version_minor, 7);
}

#[test]
fn loaded_ufo_with_minor_version_round_trips() {
    let dir = tempfile::tempdir().unwrap();
    let path = dir.path().join("foreign.ufo");
    // A minimal UFO on disk, whose metainfo.plist is then replaced by a foreign one.
    Font::new().save(&path).unwrap();
    std::fs::write(
        path.join("metainfo.plist"),
        r#"<?xml version="1.0" encoding="UTF-8"?>
<!DOCTYPE plist PUBLIC "-//Apple//DTD PLIST 1.0//EN" "http://www.apple.com/DTDs/PropertyList-1.0.dtd">
<plist version="1.0">
<dict>
	<key>creator</key>
	<string>com.example.othertool</string>
	<key>formatVersion</key>
	<integer>3</integer>
	<key>formatVersionMinor</key>
	<integer>2</integer>
</dict>
</plist>
"#,
    )
    .unwrap();
    let font = Font::load(&path).unwrap();
    assert_eq!(font.meta.format_version_minor, 2);
    let reloaded = save_and_reload(&font);
    assert_eq!(reloaded.meta.format_version_minor, 2);
}

#[test]
fn own_creator_and_zero_minor_unchanged() {
    let font = Font::new();
    let reloaded = save_and_reload(&font);
    assert_eq!(reloaded.meta, font.meta);
    assert_eq!(reloaded.meta.format_version_minor, 0);
}
