//! R3a: <unicode/> without the required hex attribute was accepted and ignored.

use norad::error::{ErrorKind, GlifLoadError};
use norad::Glyph;

fn glif(body: &str) -> String {
    format!(
        "<?xml version=\"1.0\" encoding=\"UTF-8\"?>\n<glyph name=\"a\" format=\"2\">\n{body}\n</glyph>\n"
    )
}

#[test]
fn unicode_without_hex_is_an_error() {
    for body in ["<unicode/>", "<unicode />", "<unicode hex=\"0041\"/>\n<unicode/>"] {
        let result = Glyph::parse_raw(glif(body).as_bytes());
        assert!(
            matches!(result, Err(GlifLoadError::Parse(ErrorKind::BadHexValue))),
            "{body}: {result:?}"
        );
    }
}

#[test]
fn unicode_with_hex_still_loads() {
    let glyph = Glyph::parse_raw(glif("<unicode hex=\"0041\"/>\n<unicode hex=\"61\"/>").as_bytes())
        .unwrap();
    assert_eq!(glyph.codepoints.iter().collect::<Vec<_>>(), vec!['A', 'a']);

    // other attributes and bad values fail as before
    let result = Glyph::parse_raw(glif("<unicode hex=\"0041\" foo=\"1\"/>").as_bytes());
    assert!(matches!(result, Err(GlifLoadError::Parse(ErrorKind::UnexpectedAttribute))));
    let result = Glyph::parse_raw(glif("<unicode hex=\"xyz\"/>").as_bytes());
    assert!(matches!(result, Err(GlifLoadError::Parse(ErrorKind::BadHexValue))));
}
