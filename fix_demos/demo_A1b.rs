//! A1b: a contents.plist entry whose glif file name is not a plain file name
//! inside the layer directory (`../../outside.glif`, `sub/a.glif`, absolute)
//! must make `Font::load` return an error. It used to load; saving the loaded
//! font then wrote outside the target UFO or failed after wiping the target.

use std::fs;
use std::path::{Path, PathBuf};

use norad::Font;

const PLIST_HEAD: &str = "<?xml version=\"1.0\" encoding=\"UTF-8\"?>\n<!DOCTYPE plist PUBLIC \"-//Apple//DTD PLIST 1.0//EN\" \"http://www.apple.com/DTDs/PropertyList-1.0.dtd\">\n<plist version=\"1.0\">\n";
const GLIF: &str = "<?xml version=\"1.0\" encoding=\"UTF-8\"?>\n<glyph name=\"a\" format=\"2\">\n<advance width=\"500\"/>\n</glyph>\n";

/// Creates `<root>/in/font.ufo` whose default layer maps glyph "a" to `file_name`.
fn make_ufo(root: &Path, file_name: &str) -> PathBuf {
    let ufo = root.join("in").join("font.ufo");
    fs::create_dir_all(ufo.join("glyphs")).unwrap();
    fs::write(
        ufo.join("metainfo.plist"),
        format!("{PLIST_HEAD}<dict><key>creator</key><string>org.linebender.norad</string><key>formatVersion</key><integer>3</integer></dict>\n</plist>\n"),
    )
    .unwrap();
    fs::write(
        ufo.join("layercontents.plist"),
        format!("{PLIST_HEAD}<array>\n<array><string>public.default</string><string>glyphs</string></array>\n</array>\n</plist>\n"),
    )
    .unwrap();
    fs::write(
        ufo.join("glyphs/contents.plist"),
        format!("{PLIST_HEAD}<dict><key>a</key><string>{file_name}</string></dict>\n</plist>\n"),
    )
    .unwrap();
    // put the glif where the entry resolves to
    let glif_path = ufo.join("glyphs").join(file_name);
    fs::create_dir_all(glif_path.parent().unwrap()).unwrap();
    fs::write(glif_path, GLIF).unwrap();
    ufo
}

fn assert_rejected(file_name: &str) {
    let tmp = tempfile::TempDir::new().unwrap();
    let ufo = make_ufo(tmp.path(), file_name);
    match Font::load(&ufo) {
        // (with the fix: FontLoadError::Layer { source: LayerLoadError::InvalidGlyphFileName, .. })
        Err(err) => {
            let source = std::error::Error::source(&err).expect("a layer error").to_string();
            assert!(source.contains("plain file name"), "unexpected error {err:?}");
        }
        Ok(font) => {
            // show what used to happen next
            let out = tmp.path().join("out").join("font.ufo");
            fs::create_dir_all(out.parent().unwrap()).unwrap();
            let saved = font.save(&out);
            let escaped = out.parent().unwrap().join("outside.glif").exists();
            panic!(
                "glif file name {file_name:?} loaded; save: {saved:?}; wrote outside the target: {escaped}"
            );
        }
    }
}

#[test]
fn glif_outside_the_layer_directory_is_rejected() {
    // <tmp>/in/font.ufo/glyphs/../../outside.glif = <tmp>/in/outside.glif; saving to
    // <tmp>/out/font.ufo wrote <tmp>/out/outside.glif
    assert_rejected("../../outside.glif");
}

#[test]
fn glif_in_a_subdirectory_is_rejected() {
    assert_rejected("sub/a.glif");
}

#[test]
fn dot_prefixed_and_absolute_glif_paths_are_rejected() {
    assert_rejected("./a.glif");
    let tmp = tempfile::TempDir::new().unwrap();
    let abs = tmp.path().join("abs.glif");
    assert_rejected(abs.to_str().unwrap());
}

#[test]
fn plain_file_names_still_load_and_round_trip() {
    let tmp = tempfile::TempDir::new().unwrap();
    let ufo = make_ufo(tmp.path(), "a.glif");
    let font = Font::load(&ufo).unwrap();
    assert_eq!(font.default_layer().get_path("a"), Some(Path::new("a.glif")));
    let out = tmp.path().join("out.ufo");
    font.save(&out).unwrap();
    assert_eq!(Font::load(&out).unwrap(), font);
}
