//! L2: `rename_layer(a, <name of the default layer>, true)` must not create a
//! second layer with the default layer's name; the default layer cannot be
//! overwritten, so the call fails and leaves the layer set unchanged.

use norad::error::NamingError;
use norad::{Font, Glyph};

fn snapshot(font: &Font) -> Vec<(String, std::path::PathBuf, Vec<String>)> {
    font.layers
        .iter()
        .map(|l| {
            (
                l.name().to_string(),
                l.path().to_path_buf(),
                l.iter().map(|g| g.name().to_string()).collect(),
            )
        })
        .collect()
}

fn assert_names_unique(font: &Font) {
    let mut names: Vec<_> = font.layers.names().map(|n| n.to_string()).collect();
    let n = names.len();
    names.sort();
    names.dedup();
    assert_eq!(n, names.len(), "duplicate layer names: {:?}", snapshot(font));
}

#[test]
fn cannot_overwrite_renamed_default_layer() {
    let mut font = Font::new();
    font.layers.rename_layer("public.default", "foreground", false).unwrap();
    font.default_layer_mut().insert_glyph(Glyph::new("A"));
    font.layers.new_layer("a").unwrap().insert_glyph(Glyph::new("B"));
    let before = snapshot(&font);

    let r = font.layers.rename_layer("a", "foreground", true);

    assert_names_unique(&font);
    assert!(matches!(r, Err(NamingError::Duplicate(_))), "{r:?}");
    assert_eq!(snapshot(&font), before);
    assert_eq!(font.layers.iter().filter(|l| l.is_default()).count(), 1);
}

#[test]
fn cannot_overwrite_default_layer_of_loaded_font() {
    // The default layer of this font is called "foreground".
    let mut font = Font::load("testdata/MutatorSansLightWide.ufo").unwrap();
    assert_eq!(font.default_layer().name().as_str(), "foreground");
    let before = snapshot(&font);

    let r = font.layers.rename_layer("background", "foreground", true);

    assert_names_unique(&font);
    assert!(matches!(r, Err(NamingError::Duplicate(_))), "{r:?}");
    assert_eq!(snapshot(&font), before);
}

#[test]
fn public_default_stays_reserved_and_other_overwrites_still_work() {
    let mut font = Font::new();
    font.layers.new_layer("a").unwrap();
    font.layers.new_layer("b").unwrap();
    let before = snapshot(&font);

    // unchanged behaviour: "public.default" is reported as reserved
    let r = font.layers.rename_layer("a", "public.default", true);
    assert!(matches!(r, Err(NamingError::ReservedName)), "{r:?}");
    assert_eq!(snapshot(&font), before);

    // unchanged behaviour: a non-default layer can be overwritten ...
    font.layers.rename_layer("a", "b", true).unwrap();
    assert_eq!(font.layers.names().map(|n| n.to_string()).collect::<Vec<_>>(), ["public.default", "b"]);
    // ... and the default layer can overwrite a non-default one.
    font.layers.rename_layer("public.default", "b", true).unwrap();
    assert_eq!(font.layers.names().map(|n| n.to_string()).collect::<Vec<_>>(), ["b"]);
    assert!(font.layers.default_layer().is_default());
}
