//! R3b: a second <note> was accepted when the first one had no text.

use norad::error::{ErrorKind, GlifLoadError};
use norad::Glyph;

fn glif(body: &str) -> String {
    format!(
        "<?xml version=\"1.0\" encoding=\"UTF-8\"?>\n<glyph name=\"a\" format=\"2\">\n{body}\n</glyph>\n"
    )
}

#[test]
fn second_note_after_an_empty_note_is_an_error() {
    for body in [
        "<note></note>\n<note>hello</note>",
        "<note></note>\n<note></note>",
        "<note>   </note>\n<note>hello</note>",
        "<note>hello</note>\n<note>again</note>",
        "<note>hello</note>\n<note></note>",
    ] {
        let result = Glyph::parse_raw(glif(body).as_bytes());
        assert!(
            matches!(result, Err(GlifLoadError::Parse(ErrorKind::DuplicateElement("note")))),
            "{body}: {result:?}"
        );
    }
}

#[test]
fn single_notes_still_load() {
    let glyph = Glyph::parse_raw(glif("<note>hello</note>").as_bytes()).unwrap();
    assert_eq!(glyph.note.as_deref(), Some("hello"));
    let glyph = Glyph::parse_raw(glif("<note></note>").as_bytes()).unwrap();
    assert_eq!(glyph.note, None);
}
