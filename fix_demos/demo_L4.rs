//! L4: loading puts the default layer first and keeps all other layers in the
//! order of layercontents.plist (it used to rotate the list instead).

use std::path::Path;

use norad::{Font, Glyph};
use tempfile::TempDir;

/// Rewrites layercontents.plist of the UFO at `ufo` to list `entries` in the given order.
fn write_layer_contents(ufo: &Path, entries: &[(String, String)]) {
    let mut xml = String::from(
        "<?xml version=\"1.0\" encoding=\"UTF-8\"?>\n\
         <!DOCTYPE plist PUBLIC \"-//Apple//DTD PLIST 1.0//EN\" \
         \"http://www.apple.com/DTDs/PropertyList-1.0.dtd\">\n\
         <plist version=\"1.0\">\n<array>\n",
    );
    for (name, dir) in entries {
        xml.push_str(&format!(
            "\t<array>\n\t\t<string>{name}</string>\n\t\t<string>{dir}</string>\n\t</array>\n"
        ));
    }
    xml.push_str("</array>\n</plist>\n");
    std::fs::write(ufo.join("layercontents.plist"), xml).unwrap();
}

fn names(font: &Font) -> Vec<String> {
    font.layers.names().map(|n| n.to_string()).collect()
}

fn saved_font(path: &Path) -> Vec<(String, String)> {
    let mut font = Font::new();
    font.layers.rename_layer("public.default", "fore", false).unwrap();
    font.default_layer_mut().insert_glyph(Glyph::new("d"));
    for name in ["la", "lb", "lc"] {
        font.layers.new_layer(name).unwrap().insert_glyph(Glyph::new(name));
    }
    font.save(path).unwrap();
    font.layers
        .iter()
        .map(|l| (l.name().to_string(), l.path().to_string_lossy().into_owned()))
        .collect()
}

#[test]
fn default_layer_in_the_middle() {
    let dir = TempDir::new().unwrap();
    let path = dir.path().join("f.ufo");
    let e = saved_font(&path); // [fore, la, lb, lc]

    // file order: la lb fore lc
    write_layer_contents(&path, &[e[1].clone(), e[2].clone(), e[0].clone(), e[3].clone()]);
    let font = Font::load(&path).unwrap();
    assert_eq!(names(&font), ["fore", "la", "lb", "lc"]);
    assert!(font.layers.default_layer().is_default());
    assert!(font.default_layer().contains_glyph("d"));
    assert!(font.layers.get("lc").unwrap().contains_glyph("lc"));
}

#[test]
fn default_layer_last() {
    let dir = TempDir::new().unwrap();
    let path = dir.path().join("f.ufo");
    let e = saved_font(&path);

    // file order: lc la lb fore
    write_layer_contents(&path, &[e[3].clone(), e[1].clone(), e[2].clone(), e[0].clone()]);
    let font = Font::load(&path).unwrap();
    assert_eq!(names(&font), ["fore", "lc", "la", "lb"]);
}

#[test]
fn default_layer_first_and_second() {
    let dir = TempDir::new().unwrap();
    let path = dir.path().join("f.ufo");
    let e = saved_font(&path);

    let font = Font::load(&path).unwrap();
    assert_eq!(names(&font), ["fore", "la", "lb", "lc"]);

    // file order: lb fore lc la
    write_layer_contents(&path, &[e[2].clone(), e[0].clone(), e[3].clone(), e[1].clone()]);
    let font = Font::load(&path).unwrap();
    assert_eq!(names(&font), ["fore", "lb", "lc", "la"]);
}
