//! Demo for M1: `Contour::to_kurbo` on contours the glif parser accepts.
//! Run with `cargo test --offline --features kurbo --test demo_M1`.
#![cfg(feature = "kurbo")]

use kurbo::{PathEl, Point};
use norad::Glyph;

fn contour_path(points_xml: &str) -> Vec<PathEl> {
    let xml = format!(
        r#"<?xml version="1.0" encoding="UTF-8"?>
<glyph name="a" format="2">
  <outline>
    <contour>
{points_xml}
    </contour>
  </outline>
</glyph>"#
    );
    let glyph = Glyph::parse_raw(xml.as_bytes()).expect("the glif parser accepts this contour");
    assert_eq!(glyph.contours.len(), 1);
    glyph.contours[0].to_kurbo().expect("conversion must succeed").elements().to_vec()
}

fn p(x: f64, y: f64) -> Point {
    Point::new(x, y)
}

/// (a) a `curve` point without preceding off-curves is a straight line.
#[test]
fn curve_without_offcurves_is_line() {
    let closed = contour_path(
        r#"<point x="0" y="0" type="line"/>
           <point x="10" y="0" type="curve"/>
           <point x="10" y="10" type="line"/>"#,
    );
    assert_eq!(
        closed,
        vec![
            PathEl::MoveTo(p(10., 10.)),
            PathEl::LineTo(p(0., 0.)),
            PathEl::LineTo(p(10., 0.)),
            PathEl::LineTo(p(10., 10.)),
        ]
    );

    let open = contour_path(
        r#"<point x="0" y="0" type="move"/>
           <point x="10" y="0" type="curve"/>"#,
    );
    assert_eq!(open, vec![PathEl::MoveTo(p(0., 0.)), PathEl::LineTo(p(10., 0.))]);
}

/// (b) a `qcurve` point without preceding off-curves is a straight line; the point is not lost.
#[test]
fn qcurve_without_offcurves_is_line() {
    let closed = contour_path(
        r#"<point x="0" y="0" type="line"/>
           <point x="10" y="0" type="qcurve"/>
           <point x="10" y="10" type="qcurve"/>"#,
    );
    assert_eq!(
        closed,
        vec![
            PathEl::MoveTo(p(10., 10.)),
            PathEl::LineTo(p(0., 0.)),
            PathEl::LineTo(p(10., 0.)),
            PathEl::LineTo(p(10., 10.)),
        ]
    );

    let open = contour_path(
        r#"<point x="0" y="0" type="move"/>
           <point x="10" y="0" type="qcurve"/>
           <point x="20" y="20"/>
           <point x="30" y="0" type="qcurve"/>"#,
    );
    assert_eq!(
        open,
        vec![
            PathEl::MoveTo(p(0., 0.)),
            PathEl::LineTo(p(10., 0.)),
            PathEl::QuadTo(p(20., 20.), p(30., 0.)),
        ]
    );
}

/// (c) a closed contour of off-curve points only runs between the implied on-curve points.
#[test]
fn offcurve_only_contour() {
    let path = contour_path(
        r#"<point x="0" y="0"/>
           <point x="10" y="0"/>
           <point x="10" y="10"/>
           <point x="0" y="10"/>"#,
    );
    assert_eq!(
        path,
        vec![
            PathEl::MoveTo(p(0., 5.)),
            PathEl::QuadTo(p(0., 0.), p(5., 0.)),
            PathEl::QuadTo(p(10., 0.), p(10., 5.)),
            PathEl::QuadTo(p(10., 10.), p(5., 10.)),
            PathEl::QuadTo(p(0., 10.), p(0., 5.)),
        ]
    );
}

/// Unchanged behaviour: ordinary mixed contour, rotated to start at its last on-curve point.
#[test]
fn ordinary_contour_unchanged() {
    let path = contour_path(
        r#"<point x="1" y="1"/>
           <point x="0" y="0" type="curve"/>
           <point x="2" y="0"/>
           <point x="4" y="0"/>
           <point x="6" y="6" type="qcurve"/>
           <point x="7" y="7"/>"#,
    );
    assert_eq!(
        path,
        vec![
            PathEl::MoveTo(p(6., 6.)),
            PathEl::CurveTo(p(7., 7.), p(1., 1.), p(0., 0.)),
            PathEl::QuadTo(p(2., 0.), p(3., 0.)),
            PathEl::QuadTo(p(4., 0.), p(6., 6.)),
        ]
    );
}
