//! R3c: attributes on <outline>, <lib> and <note> were not looked at.

use norad::error::{ErrorKind, GlifLoadError};
use norad::Glyph;

fn glif(body: &str) -> String {
    format!(
        "<?xml version=\"1.0\" encoding=\"UTF-8\"?>\n<glyph name=\"a\" format=\"2\">\n{body}\n</glyph>\n"
    )
}

const CONTOUR: &str = "<contour><point x=\"1\" y=\"2\" type=\"line\"/></contour>";

#[test]
fn attributes_on_outline_lib_note_are_errors() {
    let bodies = [
        format!("<outline foo=\"1\">{CONTOUR}</outline>"),
        "<outline foo=\"1\"></outline>".to_string(),
        "<outline foo=\"1\"/>".to_string(),
        "<lib foo=\"1\"><dict></dict></lib>".to_string(),
        "<note foo=\"1\">hello</note>".to_string(),
        "<note identifier=\"n\"></note>".to_string(),
    ];
    for body in &bodies {
        let result = Glyph::parse_raw(glif(body).as_bytes());
        assert!(
            matches!(result, Err(GlifLoadError::Parse(ErrorKind::UnexpectedAttribute))),
            "{body}: {result:?}"
        );
    }
}

#[test]
fn elements_without_attributes_still_load() {
    let body = format!(
        "<outline >{CONTOUR}</outline>\n<lib><dict><key>k</key><integer>1</integer></dict></lib>\n<note>hello</note>"
    );
    let glyph = Glyph::parse_raw(glif(&body).as_bytes()).unwrap();
    assert_eq!(glyph.contours.len(), 1);
    assert_eq!(glyph.lib.len(), 1);
    assert_eq!(glyph.note.as_deref(), Some("hello"));
    Glyph::parse_raw(glif("<outline/>").as_bytes()).unwrap();
    Glyph::parse_raw(glif("<outline />").as_bytes()).unwrap();
}
