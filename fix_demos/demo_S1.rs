//! S1: the data store must reject a key that is a proper path prefix (ancestor)
//! of an existing key, just as it rejects a key nested under an existing key.

use std::path::{Path, PathBuf};

use norad::datastore::DataStore;
use norad::error::StoreError;
use norad::Font;

#[test]
fn ancestor_of_existing_key_is_rejected() {
    let mut store = DataStore::default();
    store.insert(PathBuf::from("a/b"), b"inner".to_vec()).unwrap();

    // File `a` would double as directory `a`.
    let result = store.insert(PathBuf::from("a"), b"outer".to_vec());
    assert!(matches!(result, Err(StoreError::DirUnderFile)), "got {result:?}");

    // A rejected insertion leaves the store unchanged.
    assert_eq!(store.len(), 1);
    assert!(!store.contains_key(Path::new("a")));
    assert_eq!(&*store.get(Path::new("a/b")).unwrap().unwrap(), b"inner");
}

#[test]
fn deeper_ancestor_of_existing_key_is_rejected() {
    let mut store = DataStore::default();
    store.insert(PathBuf::from("x/y/z/w.txt"), vec![1]).unwrap();

    assert!(matches!(store.insert(PathBuf::from("x/y"), vec![2]), Err(StoreError::DirUnderFile)));
    assert!(matches!(store.insert(PathBuf::from("x"), vec![2]), Err(StoreError::DirUnderFile)));
    assert_eq!(store.len(), 1);
}

#[test]
fn overwriting_and_siblings_still_work() {
    let mut store = DataStore::default();
    store.insert(PathBuf::from("a/b"), vec![1]).unwrap();
    // Same key: overwrite.
    store.insert(PathBuf::from("a/b"), vec![2]).unwrap();
    // Sibling, and a name that shares a textual but not a component prefix.
    store.insert(PathBuf::from("a/c"), vec![3]).unwrap();
    store.insert(PathBuf::from("a/bb"), vec![4]).unwrap();
    store.insert(PathBuf::from("ab"), vec![5]).unwrap();
    assert_eq!(store.len(), 4);
    assert_eq!(&*store.get(Path::new("a/b")).unwrap().unwrap(), &[2u8][..]);

    // Once the nested key is gone, the former ancestor is free again.
    store.remove(Path::new("a/b"));
    store.remove(Path::new("a/c"));
    store.remove(Path::new("a/bb"));
    store.insert(PathBuf::from("a"), vec![6]).unwrap();
}

#[test]
fn save_does_not_fail_halfway_because_of_file_directory_clash() {
    let dir = tempfile::TempDir::new().unwrap();
    let target = dir.path().join("out.ufo");

    // A previous, good save.
    Font::new().save(&target).unwrap();
    assert!(target.join("metainfo.plist").exists());

    let mut font = Font::new();
    font.data.insert(PathBuf::from("a/b"), b"inner".to_vec()).unwrap();
    let _ = font.data.insert(PathBuf::from("a"), b"outer".to_vec());

    // Whatever the store accepted must be writable.
    font.save(&target).unwrap();
    let reloaded = Font::load(&target).unwrap();
    assert_eq!(&*reloaded.data.get(Path::new("a/b")).unwrap().unwrap(), b"inner");
}
