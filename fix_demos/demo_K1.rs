//! K1: upconverting UFO 1/2 kerning must not lose pairs when a freshly made
//! `public.kern1.*` / `public.kern2.*` group name equals an existing kerning key
//! that is not a converted group.

use std::fs;
use std::path::Path;

use norad::Font;

const HEADER: &str = r#"<?xml version="1.0" encoding="UTF-8"?>
<!DOCTYPE plist PUBLIC "-//Apple//DTD PLIST 1.0//EN" "http://www.apple.com/DTDs/PropertyList-1.0.dtd">
<plist version="1.0">
"#;

fn write_ufo2(dir: &Path, groups: &str, kerning: &str) {
    fs::create_dir_all(dir.join("glyphs")).unwrap();
    fs::write(
        dir.join("metainfo.plist"),
        format!(
            "{HEADER}<dict><key>creator</key><string>demo</string>\
             <key>formatVersion</key><integer>2</integer></dict></plist>"
        ),
    )
    .unwrap();
    fs::write(dir.join("glyphs/contents.plist"), format!("{HEADER}<dict></dict></plist>")).unwrap();
    fs::write(dir.join("groups.plist"), format!("{HEADER}{groups}</plist>")).unwrap();
    fs::write(dir.join("kerning.plist"), format!("{HEADER}{kerning}</plist>")).unwrap();
}

fn kern(font: &Font, first: &str, second: &str) -> Option<f64> {
    font.kerning.get(first).and_then(|row| row.get(second)).copied()
}

#[test]
fn first_side_row_is_not_overwritten() {
    let tmp = tempfile::TempDir::new().unwrap();
    let ufo = tmp.path().join("k1a.ufo");
    write_ufo2(
        &ufo,
        "<dict><key>A</key><array><string>a</string></array></dict>",
        "<dict>\
           <key>A</key><dict><key>x</key><integer>1</integer></dict>\
           <key>public.kern1.A</key><dict><key>x</key><integer>2</integer></dict>\
         </dict>",
    );
    let font = Font::load(&ufo).unwrap();

    // The original group is kept, exactly one public.kern1 copy with the same members is added.
    assert_eq!(font.groups.get("A").map(|m| m.len()), Some(1));
    let new_groups: Vec<_> = font.groups.keys().filter(|k| k.starts_with("public.kern1.")).collect();
    assert_eq!(new_groups.len(), 1, "groups: {:?}", font.groups);
    let new_name = new_groups[0].clone();
    assert_eq!(font.groups.get(&new_name), font.groups.get("A"));
    // The new group must not take the name of the unrelated kerning key.
    assert_ne!(new_name.as_str(), "public.kern1.A");

    // Both rows survive with their values.
    assert_eq!(font.kerning.len(), 2, "kerning: {:?}", font.kerning);
    assert_eq!(kern(&font, &new_name, "x"), Some(1.0));
    assert_eq!(kern(&font, "public.kern1.A", "x"), Some(2.0));
    assert_eq!(kern(&font, "A", "x"), None);
}

#[test]
fn second_side_pair_is_not_overwritten() {
    let tmp = tempfile::TempDir::new().unwrap();
    let ufo = tmp.path().join("k1b.ufo");
    write_ufo2(
        &ufo,
        "<dict><key>B</key><array><string>b</string></array></dict>",
        "<dict>\
           <key>x</key><dict>\
             <key>B</key><integer>3</integer>\
             <key>public.kern2.B</key><integer>4</integer>\
           </dict>\
           <key>y</key><dict>\
             <key>B</key><integer>5</integer>\
           </dict>\
         </dict>",
    );
    let font = Font::load(&ufo).unwrap();

    let new_groups: Vec<_> = font.groups.keys().filter(|k| k.starts_with("public.kern2.")).collect();
    assert_eq!(new_groups.len(), 1, "groups: {:?}", font.groups);
    let new_name = new_groups[0].clone();
    assert_eq!(font.groups.get(&new_name), font.groups.get("B"));
    assert_ne!(new_name.as_str(), "public.kern2.B");

    let row = font.kerning.get("x").unwrap();
    assert_eq!(row.len(), 2, "row: {row:?}");
    assert_eq!(kern(&font, "x", &new_name), Some(3.0));
    assert_eq!(kern(&font, "x", "public.kern2.B"), Some(4.0));
    assert_eq!(kern(&font, "y", &new_name), Some(5.0));
}
