//! B3: a non-zero sub-normal advance must not be dropped when writing a glif.

use norad::Glyph;

const SUBNORMAL: f64 = 5e-324;

fn roundtrip(glyph: &Glyph) -> (Glyph, String) {
    let xml = glyph.encode_xml().unwrap();
    let text = String::from_utf8(xml.clone()).unwrap();
    (Glyph::parse_raw(&xml).unwrap(), text)
}

#[test]
fn subnormal_advance_survives() {
    assert!(!SUBNORMAL.is_normal() && SUBNORMAL != 0.0);
    for (w, h) in [
        (SUBNORMAL, 0.0),
        (0.0, SUBNORMAL),
        (-SUBNORMAL, 1e-310),
        (2e-308, 0.0),
        (SUBNORMAL, 500.0),
    ] {
        let mut glyph = Glyph::new("a");
        glyph.width = w;
        glyph.height = h;
        let (loaded, text) = roundtrip(&glyph);
        assert_eq!((loaded.width, loaded.height), (w, h), "{text}");
    }
}

#[test]
fn zero_advance_is_still_omitted() {
    let glyph = Glyph::new("a");
    let (loaded, text) = roundtrip(&glyph);
    assert!(!text.contains("advance"), "{text}");
    assert_eq!(loaded, glyph);

    let mut glyph = Glyph::new("a");
    glyph.width = 600.0;
    let (loaded, text) = roundtrip(&glyph);
    assert!(text.contains("<advance width=\"600\"/>"), "{text}");
    assert_eq!(loaded, glyph);
}
