//! L6: a custom layer filter that accepts the default layer must not also get
//! an empty placeholder default layer.

use norad::{DataRequest, Font};
use tempfile::TempDir;

static UFO: &str = "testdata/MutatorSansLightWide.ufo";

fn summary(font: &Font) -> Vec<(String, String, usize)> {
    font.layers
        .iter()
        .map(|l| (l.name().to_string(), l.path().to_string_lossy().into_owned(), l.len()))
        .collect()
}

#[test]
fn custom_filter_accepting_everything() {
    let request = DataRequest::none().filter_layers(|_name, _path| true);
    let font = Font::load_requested_data(UFO, request).unwrap();

    assert_eq!(font.layers.iter().filter(|l| l.is_default()).count(), 1, "{:?}", summary(&font));
    assert_eq!(
        summary(&font),
        [
            ("foreground".to_string(), "glyphs".to_string(), 48),
            ("background".to_string(), "glyphs.background".to_string(), 1)
        ]
    );
    assert!(font.layers.get("public.default").is_none());

    // and it can be saved and read back
    let dir = TempDir::new().unwrap();
    let path = dir.path().join("f.ufo");
    font.save(&path).unwrap();
    assert_eq!(summary(&Font::load(&path).unwrap()), summary(&font));
}

#[test]
fn custom_filter_accepting_only_the_default_layer() {
    let request = DataRequest::default().filter_layers(|name, _path| name == "foreground");
    let font = Font::load_requested_data(UFO, request).unwrap();
    assert_eq!(summary(&font), [("foreground".to_string(), "glyphs".to_string(), 48)]);
}

#[test]
fn custom_filter_rejecting_the_default_layer_still_gets_a_placeholder() {
    let request = DataRequest::none().filter_layers(|name, _path| name == "background");
    let font = Font::load_requested_data(UFO, request).unwrap();
    assert_eq!(
        summary(&font),
        [
            ("public.default".to_string(), "glyphs".to_string(), 0),
            ("background".to_string(), "glyphs.background".to_string(), 1)
        ]
    );

    let font = Font::load_requested_data(UFO, DataRequest::none()).unwrap();
    assert_eq!(summary(&font), [("public.default".to_string(), "glyphs".to_string(), 0)]);
}
