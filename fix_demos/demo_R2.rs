//! R2: the glif writer wrote contours without points, which the parser drops,
//! so writing and reading back changed the glyph (and its object libs).

use norad::{Component, Contour, ContourPoint, Glyph, Identifier, Name, Plist, PointType};

fn point(x: f64, y: f64, typ: PointType) -> ContourPoint {
    ContourPoint::new(x, y, typ, false, None, None)
}

fn triangle() -> Contour {
    Contour::new(
        vec![
            point(0.0, 0.0, PointType::Line),
            point(10.0, 0.0, PointType::Line),
            point(5.0, 10.0, PointType::Line),
        ],
        None,
    )
}

fn text(glyph: &Glyph) -> String {
    String::from_utf8(glyph.encode_xml().unwrap()).unwrap()
}

/// What the parser makes of a glyph: the same glyph without its empty contours.
fn without_empty_contours(glyph: &Glyph) -> Glyph {
    let mut glyph = glyph.clone();
    glyph.contours.retain(|c| !c.points.is_empty());
    glyph
}

#[test]
fn empty_contours_are_not_written() {
    let mut glyph = Glyph::new("a");
    glyph.contours.push(Contour::new(vec![], None));
    glyph.contours.push(triangle());
    glyph.contours.push(Contour::new(vec![], Some(Identifier::new("empty").unwrap())));

    let xml = text(&glyph);
    assert_eq!(xml.matches("<contour").count(), 1, "{xml}");
    assert!(!xml.contains("empty"), "{xml}");

    // the written bytes are exactly those of the glyph without the empty contours,
    // and reading them back gives that glyph
    let expected = without_empty_contours(&glyph);
    assert_eq!(xml, text(&expected));
    let back = Glyph::parse_raw(xml.as_bytes()).unwrap();
    assert_eq!(back, expected);
    assert_eq!(text(&back), xml);
}

#[test]
fn only_empty_contours_write_no_outline() {
    let mut glyph = Glyph::new("a");
    glyph.contours.push(Contour::new(vec![], None));

    // same bytes as for a glyph with no contours and no components: no <outline>
    let xml = text(&glyph);
    assert_eq!(xml, text(&Glyph::new("a")));
    assert!(!xml.contains("outline"), "{xml}");
    assert_eq!(Glyph::parse_raw(xml.as_bytes()).unwrap(), Glyph::new("a"));

    // with a component the outline is written, without any contour in it
    glyph.components.push(Component::new(Name::new("b").unwrap(), Default::default(), None));
    let xml = text(&glyph);
    assert!(xml.contains("<outline>"), "{xml}");
    assert!(!xml.contains("<contour"), "{xml}");
    assert_eq!(Glyph::parse_raw(xml.as_bytes()).unwrap(), without_empty_contours(&glyph));
}

#[test]
fn lib_of_an_empty_contour_is_not_written() {
    let mut lib = Plist::new();
    lib.insert("com.example.key".into(), 1.into());

    let mut empty = Contour::new(vec![], Some(Identifier::new("emptyid").unwrap()));
    empty.replace_lib(lib.clone());
    let mut full = triangle();
    full.replace_identifier(Identifier::new("fullid").unwrap());
    full.replace_lib(lib);

    let mut glyph = Glyph::new("a");
    glyph.contours.push(empty);
    glyph.contours.push(full);

    let xml = text(&glyph);
    assert!(xml.contains("fullid"), "{xml}");
    assert!(!xml.contains("emptyid"), "orphan public.objectLibs entry written:\n{xml}");

    let back = Glyph::parse_raw(xml.as_bytes()).unwrap();
    assert_eq!(back, without_empty_contours(&glyph));
    // no stray public.objectLibs left in the glyph lib after reading back
    assert!(back.lib.is_empty(), "{:?}", back.lib);

    // when the only object lib belongs to an empty contour, no <lib> is written at all
    glyph.contours.pop();
    let xml = text(&glyph);
    assert!(!xml.contains("<lib>"), "{xml}");
    assert_eq!(Glyph::parse_raw(xml.as_bytes()).unwrap(), Glyph::new("a"));
}
