#!/bin/bash
# Build the framework from files on disk only (offline).
set -e
cd "$(dirname "$0")"
export CARGO_NET_OFFLINE=true
python3 - <<'PY'
import sys, os
sys.path.insert(0, "lib")
import driver
driver.ensure_makefile()
PY
timeout 3000 make -C coq -j16 >/tmp/verif_setup_make.log 2>&1 || { tail -30 /tmp/verif_setup_make.log; exit 1; }
(cd harness && CARGO_TARGET_DIR=$PWD/target timeout 1800 cargo build --offline --release --quiet >/tmp/verif_setup_cargo.log 2>&1) || { tail -30 /tmp/verif_setup_cargo.log; exit 1; }
(cd harness && CARGO_TARGET_DIR=$PWD/target-rayon timeout 1800 cargo build --offline --release --quiet --features rayon >/tmp/verif_setup_cargo2.log 2>&1) || { tail -30 /tmp/verif_setup_cargo2.log; exit 1; }
echo setup ok
