#!/bin/bash
# Build the framework from files on disk only (offline).
set -e
cd "$(dirname "$0")"
export CARGO_NET_OFFLINE=true
python3 - <<'PY'
import sys, os
sys.path.insert(0, "lib")
import driver
driver.ensure_makefile()
PY
timeout 3000 make -C coq -j16 >/dev/null
(cd harness && CARGO_TARGET_DIR=$PWD/target timeout 1800 cargo build --offline --release --quiet 2>/dev/null)
echo setup ok
