(** Proofs relating C06's reachable layer states to C19's save theorems. *)
Require Import Norad.Model.Base Norad.Model.Interleave Norad.Proofs.InterleaveP.
Require Import Norad.Model.FileName Norad.Model.Layer Norad.Proofs.FileNameP Norad.Proofs.LayerP.
Require Import Norad.Model.SaveBridge.
From stdpp Require Import gmap.
From Coq Require Import Permutation.

Lemma NoDup_map_inj_on : forall A B (f : A -> B) (l : list A),
  (forall x y, In x l -> In y l -> f x = f y -> x = y) -> List.NoDup l -> List.NoDup (List.map f l).
Proof.
  intros A B f l. induction l as [|a r IH]; intros Hinj ND; [constructor|].
  inversion ND as [|? ? Hn ND']; subst. cbn [List.map]. constructor.
  - intro Hin. apply in_map_iff in Hin. destruct Hin as [y [Hy Hin]].
    assert (y = a) by (apply Hinj; [right; exact Hin | left; reflexivity | exact Hy]). subst y. contradiction.
  - apply IH; [|exact ND']. intros x y Hx Hy. apply Hinj; right; assumption.
Qed.

(** in a layer whose file names are pairwise distinct (even ignoring case) every write list has
    pairwise distinct paths *)
Lemma write_list_paths_distinct : forall lower (s : state) l enc ws,
  distinct_paths lower s -> l ∈ layers s -> is_write_list enc l ws -> List.NoDup (List.map fst ws).
Proof.
  intros lower s l enc ws [Hd _] Hl Hp. unfold is_write_list in Hp.
  eapply Permutation_NoDup; [apply Permutation_map; apply Permutation_sym; exact Hp|].
  unfold save_tasks_of. rewrite List.map_map. cbn [fst].
  apply NoDup_map_inj_on; [|apply NoDup_ListNoDup, NoDup_map_to_list].
  intros [g1 q1] [g2 q2] H1 H2 Hq. cbn [snd] in Hq. subst q2.
  apply elem_of_list_In, elem_of_map_to_list in H1. apply elem_of_list_In, elem_of_map_to_list in H2.
  f_equal. eapply (Hd l g1 g2 q1 q1); eauto.
Qed.

Theorem save_full_inv : forall lower (s : state) l enc ws sched tree,
  Inv lower s -> l ∈ layers s -> is_write_list enc l ws ->
  ok_tree (par_save sched tree ws) = ok_tree (seq_save tree ws) /\
  tree_equiv (ok_tree (par_save2 sched tree ws)) (ok_tree (seq_save tree ws)).
Proof.
  intros lower s l enc ws sched tree HI Hl Hw.
  pose proof (write_list_paths_distinct lower s l enc ws (inv_distinct lower s HI) Hl Hw) as ND.
  split; [apply par_save_eq_seq | apply par_save2_equiv]; exact ND.
Qed.

(** all layers of the font, one after the other *)
Theorem save_font_full_inv : forall lower (s : state) enc wss scheds tree,
  Inv lower s -> Forall2 (is_write_list enc) (layers s) wss ->
  ok_tree (par_save_font scheds tree wss) = ok_tree (seq_save_font tree wss).
Proof.
  intros lower s enc wss scheds tree HI HF. apply par_save_font_eq_seq.
  intros ws Hin. apply elem_of_list_In in Hin.
  destruct (proj1 (elem_of_list_lookup wss ws) Hin) as [i Hi].
  destruct (Forall2_lookup_r _ _ _ _ _ HF Hi) as [l [Hl Hw]].
  eapply write_list_paths_distinct; [apply (inv_distinct lower s HI)| |exact Hw].
  eapply elem_of_list_lookup_2; exact Hl.
Qed.
