(** Laws of the codecs of lib.plist, layerinfo.plist, groups.plist and kerning.plist
    (Model/FontRealFiles.v), and [codecs_ok] of [all_files]. *)
Require Import Norad.Model.GlifSpec Norad.Model.GlifEncode.
Require Import Norad.Proofs.GlifParseP Norad.Proofs.GlifEncodeP Norad.Proofs.GlifLibsP.
Require Norad.Model.Num Norad.Proofs.NumP.
Require Import Norad.Model.FontRT Norad.Model.FontRealInfo Norad.Model.FontReal Norad.Model.FontRealPlist
               Norad.Model.FontRealFiles.
Require Import Norad.Proofs.FontRTP Norad.Proofs.PlistNfP Norad.Proofs.FontRealPlistP Norad.Proofs.PlistReadP.
Open Scope N_scope.

(** ** [BTreeMap<Name, V>] as a dictionary *)
Section Maps.
Context {V : Type}.
Variable f : V -> pv.
Variable g : pv -> option V.
Variable w : V -> Prop.

Lemma map_entries : forall (m : list (str * V)),
  Forall (fun e => name_valid (fst e) = true /\ g (f (snd e)) = Some (snd e)) m ->
  omapM (fun kx : str * pv =>
           if name_valid (fst kx) then option_map (fun x => (fst kx, x)) (g (snd kx)) else None)
        (map (fun e => (fst e, f (snd e))) m) = Some m.
Proof.
  induction 1 as [|[k x] m [H1 H2] F IH]; [reflexivity|]. simpl in H1, H2.
  cbn [map omapM fst snd]. rewrite H1, H2. cbn [option_map obind]. rewrite IH. reflexivity.
Qed.

Lemma map_rt : (forall x, w x -> pv_good 0 (f x) = true /\ g (f x) = Some x) ->
  forall m, wf_map w m -> pv_good 0 (map_pv f m) = true /\ pv_map g (map_pv f m) = Some m.
Proof.
  intros H m [Hs Hn]. unfold map_pv, pv_map. split.
  - cbn [pv_good]. apply andb_true_iff. split.
    + apply nodup_keys_spec. rewrite map_map. simpl. apply ssorted_nodup. exact Hs.
    + rewrite forallb_forall. intros x Hx. apply in_map_iff in Hx. destruct Hx as [e [<- He]].
      rewrite Forall_forall in Hn. destruct (Hn e He) as [_ Hw]. destruct (H _ Hw) as [G _]. rewrite G. reflexivity.
  - rewrite map_entries.
    + simpl. f_equal. rewrite (fold_bt_ssorted m [] Hs); [reflexivity|]. intros a b [].
    + eapply Forall_impl; [|exact Hn]. intros e [H1 H2]. split; [exact H1|]. apply H. exact H2.
Qed.

Lemma fold_bt_forall (P : str * V -> Prop) : forall l acc, Forall P l -> Forall P acc ->
  Forall P (fold_left (fun acc e => bt_insert (fst e) (snd e) acc) l acc).
Proof.
  induction l as [|e l IH]; simpl; intros acc Hl Ha; [exact Ha|]. inversion Hl as [|? ? H1 H2]; subst. apply IH; [assumption|].
  clear -Ha H1. destruct e as [k v]. simpl. induction Ha as [|[a x] acc Hx F IH]; simpl; [constructor; [exact H1|constructor]|].
  destruct (str_ltb k a); [constructor; [exact H1|constructor; assumption]|].
  destruct (str_ltb a k); constructor; auto.
Qed.

Lemma map_closed : (forall v x, g v = Some x -> w x) ->
  forall v m, pv_map g v = Some m -> wf_map w m.
Proof.
  intros H v m Hm. destruct v; try discriminate. simpl in Hm.
  destruct (omapM _ d) as [l0|] eqn:E; [|discriminate]. inversion Hm; subst m. clear Hm. split.
  - apply fold_bt_sorted_any. exact I.
  - apply fold_bt_forall; [|constructor]. apply omapM_Forall2 in E.
    clear -E H. induction E as [|x e xs l Hx F IH]; constructor; [|exact IH].
    destruct (name_valid (fst x)) eqn:En; [|discriminate].
    destruct (g (snd x)) as [y|] eqn:Eg; [|discriminate]. inversion Hx; subst e. simpl. split; [exact En|eapply H; eauto].
Qed.
(** what the reader of a map guarantees whatever the values are: BTreeMap order, valid names *)
Lemma map_struct : forall v m, pv_map g v = Some m ->
  ssorted m /\ Forall (fun e => name_valid (fst e) = true /\ exists p, g p = Some (snd e)) m.
Proof.
  intros v m Hm. destruct v; try discriminate. simpl in Hm.
  destruct (omapM _ d) as [l0|] eqn:E; [|discriminate]. inversion Hm; subst m. clear Hm. split.
  - apply fold_bt_sorted_any. exact I.
  - apply fold_bt_forall; [|constructor]. apply omapM_Forall2 in E.
    clear -E. induction E as [|x e xs l Hx F IH]; constructor; [|exact IH].
    destruct (name_valid (fst x)) eqn:En; [|discriminate].
    destruct (g (snd x)) as [y|] eqn:Eg; [|discriminate]. inversion Hx; subst e. simpl. split; [exact En|eauto].
Qed.
End Maps.

(** ** arrays of names *)
Lemma names_rt : forall l, wf_names l -> pv_good 0 (names_pv l) = true /\ pv_names (names_pv l) = Some l.
Proof.
  intros l H. unfold names_pv, pv_names. split.
  - cbn [pv_good]. rewrite forallb_forall. intros x Hx. apply in_map_iff in Hx. destruct Hx as [e [<- _]]. reflexivity.
  - induction H as [|n l Hn F IH]; [reflexivity|]. cbn [map omapM]. rewrite Hn. cbn [obind]. rewrite IH. reflexivity.
Qed.
Lemma names_closed : forall v l, pv_names v = Some l -> wf_names l.
Proof.
  intros v l H. destruct v; try discriminate. simpl in H. apply omapM_Forall2 in H.
  unfold wf_names. induction H as [|x n xs l Hx F IH]; constructor; [|exact IH].
  destruct x; try discriminate. destruct (name_valid s) eqn:E; [|discriminate]. inversion Hx; subst. exact E.
Qed.

(** ** kerning numbers: the integer form is exact *)
Lemma pos_strip_odd : forall p e q e', Num.pos_strip p e = (q, e') -> Z.odd (Zpos q) = true.
Proof.
  induction p as [p IH|p IH|]; intros e q e' H; cbn [Num.pos_strip] in H.
  - inversion H; subst. reflexivity.
  - eapply IH; eauto.
  - inversion H; subst. reflexivity.
Qed.
Lemma norm_odd : forall m e m' e', m <> 0%Z -> Num.norm m e = Num.Fin m' e' -> Z.odd m' = true.
Proof.
  intros [|p|p] e m' e' Hm H; [congruence| |]; cbn [Num.norm] in H;
    destruct (Num.pos_strip p e) as [q e0] eqn:E; inversion H; subst; apply pos_strip_odd in E.
  - exact E.
  - rewrite <- Pos2Z.opp_pos, Z.odd_opp. exact E.
Qed.
Lemma odd_pow2_unique : forall a b j k : Z,
  Z.odd a = true -> Z.odd b = true -> (0 <= j)%Z -> (0 <= k)%Z -> (a * 2 ^ j = b * 2 ^ k)%Z -> a = b /\ j = k.
Proof.
  assert (L : forall a b j k : Z, Z.odd a = true -> Z.odd b = true -> (0 <= j)%Z -> (j < k)%Z ->
              (a * 2 ^ j = b * 2 ^ k)%Z -> False).
  { intros a b j k Ha Hb Hj Hjk E.
    replace k with (j + (k - j))%Z in E by lia. rewrite Z.pow_add_r in E by lia.
    assert (P : (0 < 2 ^ j)%Z) by (apply Z.pow_pos_nonneg; lia).
    assert (E2 : (a = b * 2 ^ (k - j))%Z) by nia.
    rewrite E2 in Ha. rewrite Z.odd_mul, Z.odd_pow in Ha by lia. rewrite Bool.andb_false_r in Ha. discriminate. }
  intros a b j k Ha Hb Hj Hk E.
  destruct (Z.lt_trichotomy j k) as [H|[H|H]].
  - exfalso. eapply (L a b j k); eauto.
  - subst k. split; [|reflexivity]. assert (P : (0 < 2 ^ j)%Z) by (apply Z.pow_pos_nonneg; lia). nia.
  - exfalso. eapply (L b a k j); eauto.
Qed.

Lemma Z_fl_exact : forall neg m e, wf_num (FFin neg m e) -> (0 <= e)%Z ->
  in_i32 (fl_z neg m e 0) = true -> Z_fl (fl_z neg m e 0) = FFin neg m e.
Proof.
  intros neg m e Hw He Hr. unfold wf_num in Hw. destruct Hw as [(-> & -> & ->)|Hodd]; [reflexivity|].
  set (z := fl_z neg m e 0).
  assert (Hm : (0 < Z.of_N m)%Z) by (destruct m; [discriminate|lia]).
  assert (P : (0 < 2 ^ e)%Z) by (apply Z.pow_pos_nonneg; lia).
  assert (Hz : z = ((if neg then -1 else 1) * Z.of_N m * 2 ^ e)%Z) by (unfold z, fl_z; rewrite Z.sub_0_r; reflexivity).
  assert (Hz0 : z <> 0%Z) by (rewrite Hz; destruct neg; nia).
  unfold in_i32 in Hr. fold z in Hr. apply andb_true_iff in Hr. destruct Hr as [R1 R2].
  apply Z.leb_le in R1. apply Z.leb_le in R2.
  assert (Hb : (Z.abs z < 2 ^ 53)%Z).
  { change (2 ^ 31)%Z with 2147483648%Z in *. change (2 ^ 53)%Z with 9007199254740992%Z. lia. }
  unfold Z_fl. rewrite (NumP.f64_of_Z_small z Hz0 Hb).
  destruct (NumP.norm_int z Hz0) as (m' & e' & N1 & N2 & N3).
  pose proof (norm_odd z 0 m' e' Hz0 N1) as Hodd'.
  assert (Hodd2 : Z.odd ((if neg then -1 else 1) * Z.of_N m) = true).
  { rewrite Z.odd_mul. replace (Z.odd (Z.of_N m)) with true.
    - destruct neg; reflexivity.
    - symmetry. destruct m as [|[p|p|]]; try discriminate; reflexivity. }
  rewrite Hz in N3. destruct (odd_pow2_unique _ _ _ _ Hodd' Hodd2 N2 He N3) as [-> ->].
  rewrite N1. unfold fl_of_num. destruct neg.
  - replace (-1 * Z.of_N m <? 0)%Z with true by (symmetry; apply Z.ltb_lt; lia).
    replace (Z.abs_N (-1 * Z.of_N m)) with m by lia. reflexivity.
  - replace (1 * Z.of_N m <? 0)%Z with false by (symmetry; apply Z.ltb_ge; lia).
    replace (Z.abs_N (1 * Z.of_N m)) with m by lia. reflexivity.
Qed.

Lemma num_rt : forall x, wf_num x -> pv_good 0 (num_pv x) = true /\ pv_num (num_pv x) = Some x.
Proof.
  intros [neg m e| |] Hw; try contradiction. unfold num_pv, fl_int.
  destruct (0 <=? e)%Z eqn:Ee; [|split; reflexivity].
  destruct (in_i32 (fl_z neg m e 0)) eqn:Er; [|split; reflexivity].
  apply Z.leb_le in Ee. split.
  - cbn [pv_good]. unfold int_ok. unfold in_i32 in Er. apply andb_true_iff in Er. destruct Er as [R1 R2].
    apply Z.leb_le in R1. apply Z.leb_le in R2. apply andb_true_iff. split; [apply Z.leb_le|apply Z.ltb_lt].
    + change (2 ^ 31)%Z with 2147483648%Z in *. change (2 ^ 63)%Z with 9223372036854775808%Z. lia.
    + change (2 ^ 31)%Z with 2147483648%Z in *. change (2 ^ 64)%Z with 18446744073709551616%Z. lia.
  - cbn [pv_num]. f_equal. apply Z_fl_exact; assumption.
Qed.

Lemma k_color_lib : str_eqb k_color k_lib = false. Proof. vm_compute. reflexivity. Qed.
Lemma k_lib_color : str_eqb k_lib k_color = false. Proof. vm_compute. reflexivity. Qed.

Section FilesP.
Variable pf : str -> option fl.
Variables ff ff3 : fl -> str.
Variable fi : Z -> str.
Variable to_bits : fl -> N.
Variable of_bits : N -> fl.
Variable lw : str -> str.
Hypothesis H_ff : forall x, fl_finite x = true -> pf (ff x) = Some x.
Hypothesis H_ff3 : forall x, unit_range x = true ->
  ~ In 44 (ff3 x) /\ exists y, pf (chan ff3 x) = Some y /\ unit_range y = true.
Hypothesis H_fi : forall z, int_ok z = true -> plist_int (fi z) = Some z.
(** [f64::from_bits(v).to_bits() == v] *)
Hypothesis H_bits : forall v, to_bits (of_bits v) = v.

(** ** plist values the writer represents: a dictionary is one iff its entries are *)
Lemma wf_pv_dict : forall d, wf_lib d <-> wf_pv_real (PDict d).
Proof.
  intros d. unfold wf_lib, wf_pv_real. rewrite nf_dict_eq. cbn [pv_good]. split.
  - intros H. apply andb_true_iff. split.
    + apply nodup_keys_spec. apply nf_dict_NoDup.
    + rewrite forallb_forall. intros [k v] Hin. destruct (in_nf_dict _ _ _ Hin) as [v0 [Hl ->]].
      rewrite (H k v0 Hl). reflexivity.
  - intros H k v Hl. apply andb_true_iff in H. destruct H as [_ H]. rewrite forallb_forall in H.
    assert (Hin : In (k, nf v) (nf_dict d)).
    { apply alookup_some_in. rewrite alookup_nf_dict, Hl. reflexivity. }
    specialize (H _ Hin). simpl in H. exact H.
Qed.

(** ** lib.plist *)
Lemma lib_part_ok : part_ok (P_lib_real pf ff fi).
Proof.
  apply plist_part_e_ok; try assumption.
  - exact pd_eq_refl.
  - exact pd_eq_sym.
  - exact pd_eq_trans.
  - intros d Hw. unfold lib_pv. split; [apply wf_pv_dict; exact Hw|].
    rewrite nf_dict_eq. simpl. exists (nf_dict d). split; [reflexivity|apply pd_eq_nf_dict].
Qed.

(** ** layerinfo.plist *)
Lemma color_rt : forall c, wf_color_real pf ff3 c -> parse_color pf (color_str ff3 c) = Some c.
Proof.
  intros c [Hv Hf].
  destruct (color_roundtrip_3dp pf ff3 (fun x y => pf (chan ff3 x) = Some y)) with (c := c) as (c' & P & _ & C).
  - intros x Hx. destruct (H_ff3 x Hx) as (A & y & B & D). split; [exact A|]. exists y. auto.
  - exact Hv.
  - rewrite P. f_equal. destruct c as [[[r g] b] a]. destruct c' as [[[r' g'] b'] a'].
    destruct Hf as (F1 & F2 & F3 & F4). destruct C as (C1 & C2 & C3 & C4). unfold chan_fixed in *. congruence.
Qed.

Lemma li_eq_refl : forall x, li_eq x x.
Proof. intros [c l]. split; simpl; [apply orel_refl; reflexivity|apply orel_refl; apply pd_eq_refl]. Qed.
Lemma li_eq_sym : forall x y, li_eq x y -> li_eq y x.
Proof.
  intros x y [H1 H2]. split; [apply orel_sym with (R := eq); [congruence|exact H1]|apply (orel_sym _ pd_eq_sym); exact H2].
Qed.
Lemma li_eq_trans : forall x y z, li_eq x y -> li_eq y z -> li_eq x z.
Proof.
  intros x y z [H1 H2] [H3 H4]. split.
  - eapply (orel_trans eq); [intros; congruence| |]; eassumption.
  - eapply (orel_trans _ pd_eq_trans); eassumption.
Qed.

Lemma li_rt : forall x, wf_li pf ff3 x ->
  pv_good 0 (li_pv ff3 x) = true /\ exists x', pv_li pf (li_pv ff3 x) = Some x' /\ li_eq x x'.
Proof.
  intros [oc ol] [Hc Hl]. simpl in Hc, Hl. unfold li_pv, pv_li. cbn [fst snd].
  assert (Gl : forall l, ol = Some l -> pv_good 0 (nf (PDict l)) = true).
  { intros l E. apply wf_pv_dict. apply Hl. exact E. }
  destruct oc as [c|]; destruct ol as [l|]; cbn [app alookup].
  - rewrite str_eqb_refl, k_lib_color, str_eqb_refl. split.
    + cbn [pv_good map fst forallb nodup_keys]. rewrite (Gl l eq_refl).
      replace (mem_str k_color [k_lib]) with false by (vm_compute; reflexivity). reflexivity.
    + rewrite (color_rt c (Hc c eq_refl)). rewrite nf_dict_eq. simpl. eexists. split; [reflexivity|].
      split; simpl; [reflexivity|apply pd_eq_nf_dict].
  - rewrite str_eqb_refl, k_lib_color. split; [reflexivity|].
    rewrite (color_rt c (Hc c eq_refl)). simpl. eexists. split; [reflexivity|]. split; simpl; [reflexivity|exact I].
  - rewrite k_color_lib, str_eqb_refl. split.
    + cbn [pv_good map fst forallb nodup_keys]. rewrite (Gl l eq_refl). reflexivity.
    + rewrite nf_dict_eq. eexists. split; [reflexivity|]. split; simpl; [exact I|apply pd_eq_nf_dict].
  - split; [reflexivity|]. eexists. split; [reflexivity|]. split; simpl; exact I.
Qed.
Lemma li_part_ok : part_ok (P_li_real pf ff ff3 fi).
Proof.
  apply plist_part_e_ok; try assumption.
  - exact li_eq_refl.
  - exact li_eq_sym.
  - exact li_eq_trans.
  - exact li_rt.
Qed.

(** ** groups.plist, kerning.plist *)
Lemma groups_part_ok : part_ok (P_groups_real pf ff fi).
Proof.
  apply plist_part_ok; try assumption. intros g Hg. apply (map_rt names_pv pv_names wf_names names_rt g Hg).
Qed.
Lemma groups_closed : part_closed (P_groups_real pf ff fi).
Proof.
  intros c x Hd. simpl in Hd. destruct (plist_value pf c) as [v|]; [|discriminate]. simpl in Hd.
  exact (map_closed pv_names wf_names names_closed v x Hd).
Qed.

Lemma kn_rt : forall v, kn_wf of_bits v ->
  pv_good 0 (kn_to of_bits v) = true /\ kn_of to_bits (kn_to of_bits v) = Some v.
Proof.
  intros v Hw. unfold kn_to, kn_of. destruct (num_rt _ Hw) as [G R]. split; [exact G|].
  rewrite R. simpl. rewrite H_bits. reflexivity.
Qed.
Lemma kerning_part_ok : part_ok (P_kerning_real pf ff fi to_bits of_bits).
Proof.
  apply plist_part_ok; try assumption. intros k Hk.
  apply (map_rt _ _ (wf_map (kn_wf of_bits))); [|exact Hk].
  intros m Hm. apply (map_rt _ _ (kn_wf of_bits) kn_rt m Hm).
Qed.

(** ** what the non-closed readers return lies in the writers' domains but for the numbers *)
Lemma good_value_wf : forall v, pv_good 0 v = true -> wf_pv_real v.
Proof. intros v H. unfold wf_pv_real. rewrite (nf_sort 0 v H). apply pv_good_sorted. exact H. Qed.
Lemma good_dict_wf : forall d, pv_good 0 (PDict d) = true -> wf_lib d.
Proof.
  intros d H k v Hk. apply good_value_wf. cbn [pv_good] in H. apply andb_true_iff in H. destruct H as [_ H].
  rewrite forallb_forall in H. specialize (H _ (alookup_some_in _ _ _ Hk)). simpl in H. exact H.
Qed.
Lemma lib_decoded : forall n d, plist_value pf n = Some (PDict d) -> reals_finite (PDict d) = true -> wf_lib d.
Proof. intros n d H R. apply good_dict_wf. eapply pv_of_good; eauto. Qed.

Lemma parse_color_val_ok : forall s c, parse_color pf s = Some c -> color_val_ok c = true.
Proof.
  intros s c H. unfold parse_color in H.
  destruct (split_on 44 s) as [|a [|b [|c0 [|d [|e r]]]]]; try discriminate.
  destruct (pf a) as [x1|]; [|discriminate]. destruct (pf b) as [x2|]; [|discriminate].
  destruct (pf c0) as [x3|]; [|discriminate]. destruct (pf d) as [x4|]; [|discriminate].
  destruct (unit_range x1 && unit_range x2 && unit_range x3 && unit_range x4) eqn:E; [|discriminate].
  inversion H; subst. exact E.
Qed.
Lemma li_decoded : forall n c ol, obind (plist_value pf n) (pv_li pf) = Some (c, ol) ->
  (forall x, c = Some x -> color_fixed pf ff3 x) ->
  (forall l, ol = Some l -> reals_finite (PDict l) = true) -> wf_li pf ff3 (c, ol).
Proof.
  intros n c ol H Hc Hl. destruct (plist_value pf n) as [v|] eqn:Ev; [|discriminate]. simpl in H.
  pose proof (pv_of_good_nr pf n v Ev) as G. destruct v; try discriminate. unfold pv_li in H.
  assert (GL : forall l, alookup k_lib d = Some (PDict l) -> reals_finite (PDict l) = true -> wf_lib l).
  { intros l El R. apply good_dict_wf. apply good_split; [|exact R].
    cbn [good_nr] in G. apply andb_true_iff in G. destruct G as [_ G]. rewrite forallb_forall in G.
    exact (G _ (alookup_some_in _ _ _ El)). }
  destruct (alookup k_color d) as [[s| | | | | | |]|] eqn:Ec; try discriminate.
  - destruct (parse_color pf s) as [x|] eqn:Ep; [|discriminate]. simpl in H.
    destruct (alookup k_lib d) as [[| | | | | | |l]|] eqn:El; try discriminate; inversion H; subst; split; simpl.
    + intros x0 E. inversion E; subst. split; [eapply parse_color_val_ok; eauto|apply Hc; reflexivity].
    + intros l0 E. inversion E; subst. apply GL; [reflexivity|apply Hl; reflexivity].
    + intros x0 E. inversion E; subst. split; [eapply parse_color_val_ok; eauto|apply Hc; reflexivity].
    + discriminate.
  - destruct (alookup k_lib d) as [[| | | | | | |l]|] eqn:El; try discriminate; inversion H; subst; split; simpl.
    + discriminate.
    + intros l0 E. inversion E; subst. apply GL; [reflexivity|apply Hl; reflexivity].
    + discriminate.
    + discriminate.
Qed.

Lemma kerning_decoded : forall v k, pv_kerning to_bits v = Some k ->
  Forall (fun e => Forall (fun p => kn_wf of_bits (snd p)) (snd e)) k -> wf_kerning of_bits k.
Proof.
  intros v k H Hn. destruct (map_struct _ v k H) as [Hs Hf]. split; [exact Hs|].
  rewrite Forall_forall in *. intros e He. destruct (Hf e He) as [H1 [p Hp]]. split; [exact H1|].
  destruct (map_struct _ p (snd e) Hp) as [Hs2 Hf2]. split; [exact Hs2|].
  rewrite Forall_forall in *. intros q Hq. destruct (Hf2 q Hq) as [H2 _]. split; [exact H2|].
  specialize (Hn e He). rewrite Forall_forall in Hn. exact (Hn q Hq).
Qed.

(** ** all files *)
Local Notation AF := (all_files pf ff ff3 fi to_bits of_bits lw).

Theorem all_files_ok : codecs_ok AF.
Proof.
  constructor; simpl; try (intros; congruence).
  - apply meta_part_ok; assumption.
  - exact lib_part_ok.
  - exact groups_part_ok.
  - exact kerning_part_ok.
  - apply lc_part_ok; assumption.
  - apply ct_part_ok; assumption.
  - exact li_part_ok.
  - intros l. unfold wf_lc. tauto.
  - (* k_li_wf *) intros c ol. unfold wf_li, real_wf_dict, wf_lib. simpl. split.
    + intros [H1 H2]. split; [exact H1|]. intros l E k v Hk. split; [exact I|]. eapply H2; eauto.
    + intros [H1 H2]. split; [exact H1|]. intros l E k v Hk. destruct (H2 l E k v Hk) as [_ H]. exact H.
  - (* k_lib_wf *) intros d. unfold real_wf_dict, wf_lib. simpl. split.
    + intros H k v Hk. split; [exact I|eauto].
    + intros H k v Hk. destruct (H k v Hk) as [_ G]. exact G.
  - (* groups [] *) split; [exact I|constructor].
  - (* kerning [] *) split; [exact I|constructor].
  - (* k_wf_mk *) intros d H. apply wf_pv_dict. intros k v Hk. destruct (H k v Hk) as [_ G]. exact G.
  - (* k_wf_as *) intros d H k v Hk. split; [exact I|]. apply wf_pv_dict in H. exact (H k v Hk).
  - exact I.
  - intros a b. tauto.
  - intros a b. unfold li_eq. tauto.
Qed.

(** closedness of the readers that are closed *)
Theorem all_files_closed_base : codecs_closed_base AF.
Proof.
  constructor; simpl.
  - exact groups_closed.
  - intros c x Hd. simpl in Hd. destruct (plist_value pf c) as [v|]; [|discriminate]. exact (pv_lc_names v x Hd).
  - intros c x Hd. simpl in Hd. destruct (plist_value pf c) as [v|]; [|discriminate]. exact (pv_ct_wf v x Hd).
  - intros c m Hd. simpl in Hd. destruct (plist_value pf c) as [v|]; [|discriminate]. simpl in Hd. eapply pv_meta_norad; eauto.
  - intros c l Hd. simpl in Hd. destruct (plist_value pf c) as [v|]; [|discriminate].
    destruct (pv_ct_wf v l Hd) as [_ Hn]. exact Hn.
  - intros r i _ gs _. apply Forall_forall. intros; exact I.
Qed.

End FilesP.

(** ** the font-level theorems over [all_files] *)
Require Import Norad.Proofs.FontRealP Norad.Proofs.FontRealInfoP.

Section AllFiles.
Variable pf : str -> option fl.
Variables ff ff3 : fl -> str.
Variable fi : Z -> str.
Variable fh : N -> str.
Variable to_bits : fl -> N.
Variable of_bits : N -> fl.
Variable lw : str -> str.
Hypothesis L1 : L1_glif pf ff ff3 fi fh.
Hypothesis H_bits : forall v, to_bits (of_bits v) = v.

Local Notation AF := (all_files pf ff ff3 fi to_bits of_bits lw).
Local Notation AS := (real_sig pf ff ff3 fi fh AF).

Lemma all_files_lawful : codecs_ok AF.
Proof. destruct L1 as (A & B & _ & D). apply all_files_ok; assumption. Qed.

Theorem roundtrip_all_files : forall o (f : font AS),
  font_valid AS f ->
  exists t, save AS o f = Ok t /\ spec_write AS norad_choices o f = Some t /\
            exists f', load AS t = Ok f' /\ font_equiv AS f f'.
Proof. apply roundtrip_real; [exact L1|exact all_files_lawful]. Qed.

Theorem writes_spec_all_files : forall o (f : font AS),
  font_valid AS f ->
  exists t, save AS o f = Ok t /\ spec_write AS norad_choices o f = Some t.
Proof. intros o f Hv. destruct (roundtrip_all_files o f Hv) as (t & H1 & H2 & _). eauto. Qed.

Theorem reads_spec_all_files : forall c o (f : font AS),
  font_valid AS f ->
  exists t, spec_write AS c o f = Some t /\ exists f', load AS t = Ok f' /\ font_equiv AS f f'.
Proof. apply reads_spec_real; [exact L1|exact all_files_lawful]. Qed.

Theorem spec_reader_all_files : forall c o (f : font AS),
  font_valid AS f ->
  exists t, spec_write AS c o f = Some t /\ exists f', spec_read AS t = Some f' /\ font_equiv AS f f'.
Proof. apply spec_reader_real; [exact L1|exact all_files_lawful]. Qed.

Theorem files4_ok : codecs4_ok (files4 pf ff ff3 fi to_bits of_bits lw).
Proof.
  pose proof all_files_lawful as H. destruct H. constructor; simpl in *; try assumption.
Qed.

Theorem fixed_point_all_files : forall o (t : tree AS) (f : font AS) mc m,
  load AS t = Ok f -> t_meta AS t = Some mc -> dec (P_meta AS) mc = Some m -> m_version m = 3 ->
  files_in_domain pf ff ff3 fi fh AF t ->
  Forall (fun l => Forall (fun e : str * str * glyph => glyph_rt_domain pf ff3 (snd e)) (l_glyphs l)) (f_layers AS f) ->
  exists t', save AS o f = Ok t' /\ exists f', load AS t' = Ok f' /\ font_equiv AS f f'.
Proof.
  apply fixed_point_real_at; [exact L1|exact all_files_lawful|].
  destruct L1 as (A & B & _ & D). apply all_files_closed_base; assumption.
Qed.
Lemma input_numbers_domain : forall t : tree AS,
  input_numbers_ok pf ff ff3 fi fh to_bits of_bits lw t -> files_in_domain pf ff ff3 fi fh AF t.
Proof.
  intros t (N1 & N2 & N3). split; [|split].
  - intros c d Ht Hd. simpl in Hd. destruct (plist_value pf c) as [v|] eqn:Ev; [|discriminate]. simpl in Hd.
    destruct v; try discriminate. inversion Hd; subst d0. eapply lib_decoded; [exact Ev|]. eapply N1; eauto.
  - intros c k Ht Hd. simpl in Hd. pose proof (N2 c k Ht Hd) as Hn.
    destruct (plist_value pf c) as [v|]; [|discriminate]. simpl in Hd. eapply kerning_decoded; eauto.
  - intros dn dir c [oc ol] Hl Hi Hd. simpl in Hd. destruct (N3 dn dir c oc ol Hl Hi Hd) as [C1 C2].
    eapply li_decoded; eauto.
Qed.

Theorem fixed_point_all_files_numbers : forall o (t : tree AS) (f : font AS) mc m,
  load AS t = Ok f -> t_meta AS t = Some mc -> dec (P_meta AS) mc = Some m -> m_version m = 3 ->
  input_numbers_ok pf ff ff3 fi fh to_bits of_bits lw t ->
  Forall (fun l => Forall (fun e : str * str * glyph => glyph_rt_domain pf ff3 (snd e)) (l_glyphs l)) (f_layers AS f) ->
  exists t', save AS o f = Ok t' /\ exists f', load AS t' = Ok f' /\ font_equiv AS f f'.
Proof.
  intros o t f mc m H Hm1 Hm2 Hv HN HD.
  exact (fixed_point_all_files o t f mc m H Hm1 Hm2 Hv (input_numbers_domain t HN) HD).
Qed.

End AllFiles.

(** ** the domains are inhabited; the kerning number writer on examples *)
Example lib_sample_wf : wf_lib lib_sample.
Proof.
  apply wf_pv_dict. vm_compute. reflexivity.
Qed.
Example lib_sample_written : nf (PDict lib_sample) =
  PDict [([97], PReal (FFin false 27 (-1)));
         ([98], PDict [([97], PArr [PDict [([121], PBool true); ([120], PStr [104])]]); ([122], PInt 1)])].
Proof. vm_compute. reflexivity. Qed.
Example groups_sample_wf : wf_groups groups_sample.
Proof.
  split.
  - simpl. split; [|split; [intros k []|exact I]]. intros k [<-|[]]. vm_compute. reflexivity.
  - repeat constructor.
Qed.
Lemma kerning_sample_wf : forall of_bits v, wf_num (of_bits v) -> wf_kerning of_bits [([65], [([66], v)])].
Proof.
  intros of_bits v Hv. split; [simpl; split; [intros k []|exact I]|].
  constructor; [|constructor]. split; [reflexivity|]. split; [simpl; split; [intros k []|exact I]|].
  constructor; [|constructor]. split; [reflexivity|exact Hv].
Qed.
Lemma li_sample_wf : forall pf ff3, wf_li pf ff3 (None, Some lib_sample).
Proof. intros pf ff3. split; simpl; [discriminate|]. intros l E. inversion E; subst. exact lib_sample_wf. Qed.
(** -40 and -2^31 are written as integers, 13.5 and 2^31 as reals *)
Example num_examples :
  num_pv (FFin true 5 3) = PInt (-40) /\ num_pv (FFin true 1 31) = PInt (- 2 ^ 31) /\
  num_pv (FFin false 27 (-1)) = PReal (FFin false 27 (-1)) /\ num_pv (FFin false 1 31) = PReal (FFin false 1 31) /\
  pv_num (PInt (-40)) = Some (FFin true 5 3).
Proof. vm_compute. repeat split; reflexivity. Qed.

(** ** the whole domain is inhabited: a font with a non-default font info (two guidelines, one with
    a lib), a font lib with nested dictionaries, groups, and a default layer with a layer lib and a
    glyph carrying code points, a note, an anchor, a component, a contour and libs — valid whatever
    the library functions are *)
Definition sample_font pf ff ff3 fi fh to_bits of_bits lw
  : font (real_sig pf ff ff3 fi fh (all_files pf ff ff3 fi to_bits of_bits lw)) :=
  Build_font (real_sig pf ff ff3 fi fh (all_files pf ff ff3 fi to_bits of_bits lw))
    {| m_creator := None; m_version := 3; m_minor := 0 |}
    (Build_finfo rinfo rline dict (fst si_real_sample)
       (Some [ Build_guideline rline dict FI.LVert (Some [103; 49]) (Some [([107], PInt 7)]);
               Build_guideline rline dict (FI.LAngle (FI.FFin false 45 0)) None None ]))
    lib_sample groups_sample [] []
    [ Build_layer color dict glyph DEFAULT_LAYER_NAME GLYPHS None lib_sample
        [ ([97], [97; 46; 103; 108; 105; 102], g_real_sample) ] ]
    [] [].

Lemma lib_sample_dict : forall (wk : str -> Prop), (forall k, wk k) ->
  forall k v, alookup k lib_sample = Some v -> wk k /\ wf_pv_real v.
Proof. intros wk Hk k v H. split; [apply Hk|]. exact (lib_sample_wf k v H). Qed.

Theorem sample_font_valid : forall pf ff ff3 fi fh to_bits of_bits lw,
  font_valid _ (sample_font pf ff ff3 fi fh to_bits of_bits lw).
Proof.
  intros pf ff ff3 fi fh tb ob lw. unfold font_valid, sample_font. cbn [f_meta f_info f_lib f_groups f_kerning f_layers m_version].
  split; [reflexivity|].
  split. { split; [simpl; auto|reflexivity]. }
  split. { vm_compute. reflexivity. }
  split. { exact si_real_sample_wf. }
  split. { unfold guides_of. cbn [i_guides]. constructor; [|constructor; [|constructor]].
           - split; cbn [g_lib g_id]; [|intros; exact I]. intros l E. inversion E; subst l. split; [|eauto].
             intros k v Hk. split; [exact I|]. simpl in Hk. destruct (str_eqb k [107]); [|discriminate].
             inversion Hk; subst v. reflexivity.
           - split; cbn [g_lib g_id]; [discriminate|intros; exact I]. }
  split. { unfold guides_of. cbn. constructor; [intros []|constructor]. }
  split. { intros k v Hk. exact (lib_sample_dict (fun _ => True) (fun _ => I) k v Hk). }
  split. { vm_compute. reflexivity. }
  split. { vm_compute. reflexivity. }
  split. { exact groups_sample_wf. }
  split. { split; [exact I|constructor]. }
  unfold layers_ok. cbn [l_dir l_name map lc_of].
  split; [split; [reflexivity|constructor]|].
  split; [constructor; [intros []|constructor]|].
  split.
  { constructor; [|constructor]. unfold layer_ok. cbn [l_lib l_color l_glyphs contents_of map fst snd].
    split. { intros k v Hk. exact (lib_sample_dict (fun _ => True) (fun _ => I) k v Hk). }
    split; [discriminate|].
    split. { split; [simpl; split; [intros k []|exact I]|constructor; [vm_compute; reflexivity|constructor]]. }
    split; [constructor; [intros []|constructor]|].
    constructor; [|constructor]. split; [apply real_sample_wf|reflexivity]. }
  split. { constructor; [vm_compute; reflexivity|constructor]. }
  split; [constructor; [intros []|constructor]|].
  constructor; [reflexivity|constructor].
Qed.
