(** The executable versions of the specification predicates decide them. *)
Require Import Norad.Model.GlifSpec Norad.Proofs.ContourP Norad.Proofs.GlifParseP.
Open Scope N_scope.

Lemma nodupb_spec l : nodupb l = true <-> NoDup l.
Proof.
  induction l as [|x l IH]; cbn [nodupb]; [split; [constructor|reflexivity]|].
  rewrite andb_true_iff, negb_true_iff, IH. split.
  - intros [H1 H2]. constructor; [|exact H2]. intros Hin. apply mem_str_In in Hin. congruence.
  - intros H; inversion H; subst. split; [|assumption].
    destruct (mem_str x l) eqn:E; [|reflexivity]. apply mem_str_In in E. contradiction.
Qed.

Lemma is_kind_spec k n : is_kind k n = true <-> kind_of n = Some k.
Proof.
  unfold is_kind. destruct (kind_of n) as [[]|]; destruct k; split; intros H;
    try reflexivity; try discriminate.
Qed.
Lemma nilb_spec {A} (l : list A) : nilb l = true <-> l = [].
Proof. destruct l; split; intros H; try reflexivity; discriminate. Qed.
Lemma is_some_spec {A} (o : option A) : is_some o = true <-> o <> None.
Proof. destruct o; split; intros H; try reflexivity; try discriminate; congruence. Qed.

Section D.
Variable pf : str -> option fl.

Lemma color_ok_spec v : is_some (parse_color pf v) = true <-> color_ok pf v.
Proof.
  split.
  - intros H. destruct (parse_color pf v) as [c|] eqn:E; [|discriminate].
    apply (parse_color_ok pf) in E. apply E.
  - intros (a & b & c & d & r & g & bl & al & ES & Ea & Eb & Ec & Ed & U1 & U2 & U3 & U4).
    unfold parse_color. rewrite ES, Ea, Eb, Ec, Ed, U1, U2, U3, U4. reflexivity.
Qed.

Lemma val_okb_spec ver ty v : val_okb pf ver ty v = true <-> val_ok pf ver ty v.
Proof.
  destruct ty; cbn [val_okb val_ok]; try apply is_some_spec; try tauto.
  - destruct (pf v) as [x|]; split.
    + intros H. apply andb_true_iff in H. exists x. tauto.
    + intros (y & E & H1 & H2). inversion E; subst. rewrite H1, H2. reflexivity.
    + discriminate.
    + intros (y & E & _). discriminate.
  - apply color_ok_spec.
  - rewrite andb_true_iff, N.eqb_eq. tauto.
Qed.

Lemma attrs_okb_spec ver k a : attrs_okb pf ver k a = true <-> attrs_ok pf ver k a.
Proof.
  unfold attrs_okb, attrs_ok. rewrite !andb_true_iff, nodupb_spec, !forallb_forall.
  split.
  - intros [[H1 H2] H3]. split; [exact H1|]. split.
    + intros key v Hin. specialize (H2 (key, v) Hin). cbn [fst snd] in H2.
      destruct (lookup key (schema k)) as [ty|]; [|discriminate].
      exists ty. split; [reflexivity|apply val_okb_spec; exact H2].
    + intros r Hr. apply mem_str_In. apply H3. exact Hr.
  - intros (H1 & H2 & H3). split; [split; [exact H1|]|].
    + intros [key v] Hin. cbn [fst snd]. destruct (H2 key v Hin) as (ty & -> & VO).
      apply val_okb_spec. exact VO.
    + intros r Hr. apply mem_str_In. apply H3. exact Hr.
Qed.

Lemma leaf_okb_spec ver k n : leaf_okb pf ver k n = true <-> leaf_ok pf ver k n.
Proof.
  unfold leaf_okb, leaf_ok. rewrite !andb_true_iff, is_kind_spec, nilb_spec, attrs_okb_spec. tauto.
Qed.

Lemma Forall_forallb {A} (P : A -> Prop) (f : A -> bool) l :
  (forall x, f x = true <-> P x) -> (forallb f l = true <-> Forall P l).
Proof.
  intros H. rewrite forallb_forall, Forall_forall. split; intros G x Hx; apply H; auto.
Qed.

Lemma contour_okb_spec ver n : contour_okb pf ver n = true <-> contour_ok pf ver n.
Proof.
  unfold contour_okb, contour_ok.
  rewrite !andb_true_iff, is_kind_spec, attrs_okb_spec, legalb_spec,
    (Forall_forallb _ _ _ (leaf_okb_spec ver KPoint)). tauto.
Qed.
Lemma outline_child_okb_spec ver n : outline_child_okb pf ver n = true <-> outline_child_ok pf ver n.
Proof.
  unfold outline_child_okb, outline_child_ok. rewrite orb_true_iff, contour_okb_spec, leaf_okb_spec. tauto.
Qed.
Lemma guideline_shapeb_spec a : guideline_shapeb a = true <-> guideline_shape a.
Proof.
  unfold guideline_shapeb, guideline_shape.
  destruct (has_key (s2l "x") a), (has_key (s2l "y") a), (has_key (s2l "angle") a); cbn;
    split; intros H; try reflexivity; try discriminate; try tauto;
    repeat match goal with H : _ \/ _ |- _ => destruct H end;
    repeat match goal with H : _ /\ _ |- _ => destruct H end; discriminate.
Qed.

Lemma child_okb_spec ver n : child_okb pf ver n = true <-> child_ok pf ver n.
Proof.
  unfold child_okb, child_ok. destruct (kind_of n) as [[]|];
    rewrite ?andb_true_iff, ?N.eqb_eq, ?leaf_okb_spec, ?guideline_shapeb_spec, ?nilb_spec,
      ?is_some_spec, ?(Forall_forallb _ _ _ (outline_child_okb_spec ver));
    try tauto; split; intros H; try discriminate; contradiction.
Qed.

Lemma objlibs_okb_spec ids d : objlibs_okb ids d = true <-> objlibs_ok ids d.
Proof.
  unfold objlibs_okb, objlibs_ok. destruct (lookup objlibs_key d) as [o|].
  - destruct o; try (split; [discriminate|intros H; destruct (H _ eq_refl) as (od & E & _); discriminate]).
    rewrite forallb_forall. split.
    + intros H o Ho. inversion Ho; subst o. exists d0. split; [reflexivity|].
      intros i x Hi Lx. specialize (H i Hi). rewrite Lx in H. destruct x; try discriminate.
      eexists; reflexivity.
    + intros H i Hi. destruct (H _ eq_refl) as (od & E & Hod). inversion E; subst od.
      destruct (lookup i d0) as [x|] eqn:Lx; [|reflexivity].
      destruct (Hod i x Hi Lx) as (dd & ->). reflexivity.
  - split; [intros _ o Ho; discriminate|reflexivity].
Qed.

Lemma root_of_split d root :
  root_of d = Some root ->
  exists pre post, d = pre ++ root :: post /\ forallb prolog_node pre = true /\ prolog_node root = false.
Proof.
  induction d as [|n d IH]; [discriminate|]. unfold root_of in *. destruct (prolog_node n) eqn:E.
  - intros H. destruct (IH H) as (pre & post & -> & HP & HR). exists (n :: pre), post.
    repeat split; auto. cbn [forallb]. rewrite E, HP. reflexivity.
  - intros H; inversion H; subst. exists [], d. repeat split; auto.
Qed.

Lemma leb_spec a b : (a <=? b)%nat = true <-> (a <= b)%nat.
Proof. apply Nat.leb_le. Qed.

Theorem glif_okb_spec d : glif_okb pf d = true <-> glif_ok pf d.
Proof.
  unfold glif_okb, glif_ok. split.
  - destruct (root_of d) as [root|] eqn:RO; [|discriminate].
    destruct (root_of_split d root RO) as (pre & post & -> & HP & HR).
    rewrite !andb_true_iff. intros [[KG AO] H].
    destruct (version_of (attrs_of root)) as [ver|] eqn:VO; [|discriminate].
    cbn zeta in H. rewrite !andb_true_iff in H.
    destruct H as [[[[[[[CH OL] C1] C2] C3] C4] C5] ND].
    exists pre, root, post, ver. split; [reflexivity|]. split; [exact HP|].
    split; [apply is_kind_spec; exact KG|]. split; [apply attrs_okb_spec; exact AO|].
    split; [exact VO|]. cbn zeta.
    split; [apply (Forall_forallb _ _ _ (child_okb_spec ver)); exact CH|].
    split.
    { intros n dd Hin HK LD. rewrite forallb_forall in OL. specialize (OL n Hin).
      rewrite HK, LD in OL. apply objlibs_okb_spec. exact OL. }
    rewrite !leb_spec in *. repeat split; auto. apply nodupb_spec. exact ND.
  - intros (pre & root & post & ver & -> & HP & KR & AO & VO & CH & OL & C1 & C2 & C3 & C4 & C5 & ND).
    rewrite root_of_app; [|exact HP|destruct root; try reflexivity; discriminate].
    rewrite VO. cbn zeta in *. rewrite !andb_true_iff, !leb_spec.
    split; [split; [apply is_kind_spec; exact KR|apply attrs_okb_spec; exact AO]|].
    repeat split; auto.
    + apply (Forall_forallb _ _ _ (child_okb_spec ver)). exact CH.
    + apply forallb_forall. intros n Hin. destruct (is_kind KLib n) eqn:HK; [|reflexivity].
      destruct (lib_dict pf n) as [dd|] eqn:LD; [|reflexivity].
      apply objlibs_okb_spec. eapply OL; eauto.
    + apply nodupb_spec. exact ND.
Qed.
End D.

Theorem f16b_spec d : f16b d = true <-> F16 d.
Proof.
  unfold f16b, F16. destruct (root_of d) as [root|].
  - split.
    + intros H. exists root. split; [reflexivity|exact H].
    + intros (r & E & H). inversion E; subst. exact H.
  - split; [discriminate|intros (r & E & _); discriminate].
Qed.
Theorem f14b_spec d : f14b d = true <-> F14 d.
Proof.
  unfold f14b, F14. destruct (root_of d) as [root|].
  - split; [intros H; exists root; auto|intros (r & E & H); inversion E; subst; exact H].
  - split; [discriminate|intros (r & E & _); discriminate].
Qed.
Theorem f17b_spec d : f17b d = true <-> F17 d.
Proof.
  unfold f17b, F17. rewrite orb_true_iff, existsb_exists. split.
  - intros [(n & Hin & Hn)|H].
    + destruct n; try discriminate; [right; left|left]; eexists; exact Hin.
    + right; right. destruct (root_of d) as [root|]; [|discriminate]. exists root.
      split; [reflexivity|]. apply orb_true_iff in H as [H|H].
      * left. destruct root; try discriminate. eexists; eexists; reflexivity.
      * right. apply andb_true_iff in H as [H1 H2].
        destruct (version_of (attrs_of root)) as [[|p]|]; try discriminate.
        destruct p; try discriminate. auto.
  - intros [(s & H)|[(s & H)|(root & RO & H)]].
    + left. exists (DocType s). auto.
    + left. exists (PI s). auto.
    + right. rewrite RO. apply orb_true_iff. destruct H as [(name & a & ->)|[VO HN]].
      * left; reflexivity.
      * right. rewrite VO, HN. reflexivity.
Qed.

(** boolean checks for witness documents *)
Definition accepts (pf : str -> option fl) (d : doc) : bool :=
  match parse_glif pf d with Ok _ => true | _ => false end.
Lemma accepts_spec pf d : accepts pf d = true <-> exists g, parse_glif pf d = Ok g.
Proof.
  unfold accepts. destruct (parse_glif pf d) as [g| |]; split; intros H; try discriminate;
    try (destruct H as [? H]; discriminate); eauto.
Qed.
Lemma accepts_false pf d : accepts pf d = false <-> forall g, parse_glif pf d <> Ok g.
Proof.
  unfold accepts. destruct (parse_glif pf d) as [g| |]; split; intros H; try discriminate; try reflexivity.
  exfalso. exact (H g eq_refl).
Qed.
Lemma witness_sound pf ws :
  forallb (fun w => accepts pf w && negb (glif_okb pf w) && f16b w) ws = true ->
  Forall (fun w => (exists g, parse_glif pf w = Ok g) /\ ~ glif_ok pf w /\ F16 w) ws.
Proof.
  rewrite forallb_forall, Forall_forall. intros H w Hw. specialize (H w Hw).
  apply andb_true_iff in H as [H H3]. apply andb_true_iff in H as [H1 H2].
  split; [apply accepts_spec; exact H1|]. split; [|apply f16b_spec; exact H3].
  intros G. apply glif_okb_spec in G. rewrite G in H2. discriminate.
Qed.
Lemma witness_complete pf (cls : doc -> bool) (C : doc -> Prop) ws :
  (forall d, cls d = true <-> C d) ->
  forallb (fun w => glif_okb pf w && negb (accepts pf w) && cls w) ws = true ->
  Forall (fun w => glif_ok pf w /\ (forall g, parse_glif pf w <> Ok g) /\ C w) ws.
Proof.
  intros HC. rewrite forallb_forall, Forall_forall. intros H w Hw. specialize (H w Hw).
  apply andb_true_iff in H as [H H3]. apply andb_true_iff in H as [H1 H2].
  split; [apply glif_okb_spec; exact H1|]. split; [|apply HC; exact H3].
  apply accepts_false. destruct (accepts pf w); [discriminate|reflexivity].
Qed.
